(* C07 (model part): error stops and fatal exceptions are never backtracked over.
   One-level theorem, for EVERY handler `rec` (so whatever the children are): if some `_parse` call made by a transparent
   container answers with a ParseFatalException (ParseSyntaxException included), the container's own answer is fatal. *)
From Coq Require Import List ZArith NArith Bool Arith Lia.
From PP Require Import Model.Str Model.Results Model.Prog Model.Core Proofs.Walk.
Import ListNotations.

Definition fatal_out (o : outcome) : bool := match o with Err x => is_fatal (xk x) | _ => false end.

(* executing a tree, remembering whether some call answered fatally *)
Fixpoint run_seen (rec : args -> option outcome) (p : prg) (seen : bool) : option (bool * outcome) :=
  match p with
  | Ret o => Some (seen, o)
  | Call a k => match rec a with
                | None => None
                | Some o => run_seen rec (k o) (seen || fatal_out o)
                end
  end.

Lemma run_seen_run rec p : forall seen b o, run_seen rec p seen = Some (b, o) -> run rec p = Some o.
Proof.
  induction p as [o'|a k IH]; intros seen b o H; simpl in *.
  - injection H as _ <-. reflexivity.
  - destruct (rec a) as [o1|]; [|discriminate]. eapply IH. exact H.
Qed.

(* the containers that must be transparent for fatal errors (C07's list, plus the remaining wrappers) *)
Definition transparent1 (e : expr) : bool :=
  match e with
  | Tok _ _ _ => true
  | Nary _ _ NAnd _ | Nary _ _ NMatchFirst _ => true
  | Nary _ _ _ _ => false                                  (* Or / Each collect fatals and raise them only if nothing matches *)
  | Enh _ _ k _ => match k with ENot | ELookahead => false | EPrecededBy false _ => false | _ => true end
  | Rep _ _ _ _ None => true
  | Rep _ _ _ _ (Some _) => false                          (* stop_on is a negative lookahead *)
  | Skip _ _ _ _ _ _ => false                              (* SkipTo's fail_on / ignore tests are lookaheads *)
  | Fwd _ _ _ => true
  end.

Section Fatal.
Variable G : env.

Definition upd (st : bool) (o : outcome) : bool := st || fatal_out o.
Definition Pret (st : bool) (o : outcome) : Prop := st = true -> fatal_out o = true.
Notation F := (sinv args outcome bool upd (fun _ => True) (fun _ => True) Pret).

Lemma F_ret st o : (st = true -> fatal_out o = true) -> F st (Ret o).
Proof. intros H. apply SI_ret. exact H. Qed.

Lemma F_ret0 o : F false (Ret o).
Proof. apply F_ret. discriminate. Qed.

Ltac callf := apply SI_call; [exact I|intros [?l ?r|?x|] _; unfold upd; cbn [fatal_out orb]].

Lemma upd_false_fatal x : false || is_fatal (xk x) = true -> is_fatal (xk x) = true.
Proof. simpl. auto. Qed.

(* hypotheses on the two continuations of a parseImpl *)
Section Conts.
Variable fail : exn -> prg.
Hypothesis Hfail : forall st x, (st = true -> is_fatal (xk x) = true) -> F st (fail x).

Lemma F_skip_inner fuel : forall ig s loc found k,
  (forall l b, F false (k l b)) -> F false (skip_ign_inner fail fuel ig s loc found k).
Proof.
  induction fuel as [|f IH]; intros ig s loc found k Hk; simpl; [apply F_ret0|].
  unfold call. callf.
  - apply IH. exact Hk.
  - destruct (is_pe (xk x)) eqn:P.
    + assert (is_fatal (xk x) = false) as -> by (destruct (xk x); simpl in *; congruence). apply Hk.
    + apply Hfail. simpl. auto.
  - apply F_ret0.
Qed.

Lemma F_skip_pass fuel : forall igs s loc found k,
  (forall l b, F false (k l b)) -> F false (skip_ign_pass fail fuel igs s loc found k).
Proof.
  induction igs as [|ig igs IH]; intros s loc found k Hk; simpl; [apply Hk|].
  apply F_skip_inner. intros l b. apply IH. exact Hk.
Qed.

Lemma F_skip_ignorables : forall rounds igs s loc k,
  (forall l, F false (k l)) -> F false (skip_ignorables fail rounds igs s loc k).
Proof.
  induction rounds as [|r IH]; intros igs s loc k Hk; destruct igs as [|ig igs]; cbn [skip_ignorables]; try apply Hk;
    [apply F_ret0|].
  apply F_skip_pass. intros l b. destruct (negb b); [apply Hk|]. destruct (Nat.eqb l loc); [apply Hk|]. apply IH. exact Hk.
Qed.

Lemma F_pre_parse e s loc k : (forall l, F false (k l)) -> F false (pre_parse fail e s loc k).
Proof.
  intros Hk. unfold pre_parse.
  destruct e as [a i t| | | | |]; try (apply F_skip_ignorables; intros; apply Hk).
  destruct t; try (apply F_skip_ignorables; intros; apply Hk).
  - destruct loc; [apply Hk|]. destruct orig_has_nl; apply Hk.
  - destruct (Nat.eqb (col_at s loc) c); [apply Hk|]. apply F_skip_ignorables; intros; apply Hk.
Qed.
End Conts.

Lemma F_escape st x : (st = true -> is_fatal (xk x) = true) -> F st (escape x).
Proof. intros H. apply F_ret. exact H. Qed.

Lemma F_finish e d pl l r : F false (finish e d pl l r).
Proof.
  unfold finish. destruct (acts (attrs_of e)); [apply F_ret0|].
  destruct (d || calltry (attrs_of e)); [|apply F_ret0].
  destruct (run_actions _ _ _ _); apply F_ret0.
Qed.

Section Impl.
Variable e : expr. Variable s : str. Variable d : bool. Variable pl : nat.
Notation k := (step_k e s d pl).

Lemma F_k0 res : F false (k res).
Proof.
  unfold step_k. destruct res as [[l r|x|]|[l r]]; try apply F_finish; try apply F_ret0.
  destruct (mayidx (attrs_of e) || Nat.leb (length s) pl); apply F_ret0.
Qed.

Lemma F_fail st x : (st = true -> is_fatal (xk x) = true) -> F st (fail_of k x).
Proof.
  intros H. destruct st; [|apply F_k0].
  specialize (H eq_refl). unfold fail_of.
  assert (is_index (xk x) = false) as -> by (destruct (xk x); simpl in *; congruence).
  unfold step_k. apply F_ret. intros _. exact H.
Qed.

Lemma F_alt_fail e0 loc best : F false (alt_fail (fail_of k) e0 s loc best).
Proof.
  unfold alt_fail. destruct best as [b|]; [|apply F_fail; discriminate].
  apply F_pre_parse; [exact F_fail|]. intros l. apply F_fail. discriminate.
Qed.

Lemma F_and_go a : forall es loc acc estop, F false (and_go k a s d es loc acc estop).
Proof.
  induction es as [|c rest IH]; intros loc acc estop; cbn [and_go]; [apply F_k0|].
  assert (Hgen : F false (call c s loc d true (fun o =>
            match o with
            | Ok loc' r => and_go k a s d rest loc' (pr_iadd acc r) estop
            | Div => Ret Div
            | Err x =>
              if estop then
                match xk x with
                | XSyntax => fail_of k x
                | XParse | XFatal => fail_of k (mkx XSyntax (xloc x) (xmsg x) (xel x))
                | XIndex => fail_of k (mkx XSyntax (Z.of_nat (length s)) (MNode (nid a) 0) (Some (nid a)))
                | _ => fail_of k x
                end
              else fail_of k x
            end))).
  { unfold call. callf.
    - apply IH.
    - destruct estop.
      + destruct (xk x) eqn:E; apply F_fail; simpl; rewrite ?E; auto; discriminate.
      + apply F_fail. simpl. auto.
    - apply F_ret0. }
  destruct c as [ac ic tc| | | | |]; try exact Hgen.
  destruct tc; try exact Hgen. apply IH.
Qed.

Lemma F_mf_go e0 loc : forall es best, F false (mf_go k e0 s loc d es best).
Proof.
  induction es as [|c rest IH]; intros best; cbn [mf_go]; [apply F_alt_fail|].
  unfold call. callf.
  - apply F_k0.
  - destruct (is_fatal (xk x)) eqn:Fx.
    + apply F_fail. simpl. intros _. exact Fx.
    + destruct (is_pe (xk x)); [apply IH|]. destruct (is_index (xk x)); [apply IH|]. apply F_fail. discriminate.
  - apply F_ret0.
Qed.

Lemma F_rep_go foe e0 body : (forall st o, (st = true -> fatal_out o = true) -> F st (foe o)) ->
  forall fuel loc acc, F false (rep_go k foe e0 body None s d fuel loc acc).
Proof.
  intros Hfoe. induction fuel as [|f IH]; intros loc acc; cbn [rep_go]; [apply F_ret0|].
  unfold check_ender.
  apply F_skip_ignorables.
  - intros st x Hx. destruct (is_pe (xk x) || is_index (xk x)) eqn:E.
    + destruct st; [|apply F_k0]. specialize (Hx eq_refl). destruct (xk x); simpl in *; discriminate.
    + apply Hfoe. exact Hx.
  - intros l. unfold call. callf.
    + match goal with |- context [Nat.eqb ?a loc] => destruct (Nat.eqb a loc) end; [apply F_ret0|apply IH].
    + destruct (is_pe (xk x) || is_index (xk x)) eqn:E.
      * assert (is_fatal (xk x) = false) as -> by (destruct (xk x); simpl in *; congruence). apply F_k0.
      * apply Hfoe. simpl. auto.
    + apply F_ret0.
Qed.
End Impl.

Lemma F_impl e s pl d : transparent1 e = true -> F false (impl G e s pl d (step_k e s d pl)).
Proof.
  intros Ht.
  pose proof (F_fail e s d pl) as Hfail.
  pose proof (F_k0 e s d pl) as Hk0.
  assert (Hfailo : forall st o, (st = true -> fatal_out o = true) -> F st (failo_of (step_k e s d pl) o)).
  { intros st [l r|x|] H; simpl; try (apply F_ret; intros E; specialize (H E); discriminate). apply Hfail. exact H. }
  destruct e as [a i t|a i kd es|a i kd c|a i z body ne|a i target incl ig2 fo|a i id]; simpl in Ht.
  - cbn [impl]. apply Hk0.
  - destruct kd; try discriminate Ht; cbn [impl].
    + destruct es as [|c rest]; [apply Hk0|]. unfold call. callf.
      * apply F_and_go.
      * apply Hfail. simpl. auto.
      * apply F_ret0.
    + apply F_mf_go.
  - assert (Hpass : forall loc, F false (call c s loc d false (fun o =>
              match o with
              | Ok l r => step_k (Enh a i kd c) s d pl (inr (l, RPR r))
              | Div => Ret Div
              | Err x => fail_of (step_k (Enh a i kd c) s d pl) (enh_rewrite a false loc x)
              end))).
    { intros loc. unfold call. callf; [apply Hk0| |apply F_ret0].
      apply Hfail. simpl. intros Hx. unfold enh_rewrite. destruct (xk x) eqn:E; simpl in *; rewrite ?E; auto. }
    destruct kd; try discriminate Ht; cbn [impl]; try apply Hpass.
    + (* EOpt *)
      unfold call. callf; [apply Hk0| |apply F_ret0].
      destruct (is_pe (xk x) || is_index (xk x)) eqn:E.
      * assert (is_fatal (xk x) = false) as -> by (destruct (xk x); simpl in *; congruence).
        destruct default; [destruct (rsname (attrs_of c)) as [[|? ?]|]|]; apply Hk0.
      * apply Hfail. simpl. auto.
    + (* EFollowedBy *)
      unfold call. callf; [apply Hk0| |apply F_ret0]. apply (Hfailo _ (Err x)). simpl. auto.
    + (* ELocated *)
      unfold call. callf; [| |apply F_ret0].
      * cbn [attrs_of]. destruct (rsname a) as [[|? ?]|]; apply Hk0.
      * apply (Hfailo _ (Err x)). simpl. auto.
    + destruct (negb (Nat.eqb pl 0)); [apply Hfail; discriminate|apply Hpass].
    + destruct (negb (Nat.eqb (col_at s pl) 1)); [apply Hfail; discriminate|apply Hpass].
    + destruct exact; [|discriminate Ht].
      destruct (Nat.ltb pl retreat); [apply Hfail; discriminate|].
      unfold call. callf; [apply Hk0| |apply F_ret0]. apply (Hfailo _ (Err x)). simpl. auto.
  - destruct ne; [discriminate Ht|]. cbn [impl]. unfold check_ender.
    assert (Hfoe : forall st o, (st = true -> fatal_out o = true) ->
              F st (match o with
                    | Err x => if z && (is_pe (xk x) || is_index (xk x))
                               then step_k (Rep a i z body None) s d pl (inr (pl, RPR (pr_init (RList []) (rsname a) true true)))
                               else fail_of (step_k (Rep a i z body None) s d pl) x
                    | _ => Ret Div end)).
    { intros st [l r|x|] H; try (apply F_ret; intros E; specialize (H E); discriminate).
      destruct (z && (is_pe (xk x) || is_index (xk x))) eqn:E.
      - destruct st; [|apply Hk0]. specialize (H eq_refl). simpl in H.
        apply andb_prop in E as [_ E]. destruct (xk x); simpl in *; discriminate.
      - apply Hfail. exact H. }
    unfold call. callf.
    + apply F_rep_go. exact Hfoe.
    + apply (Hfoe _ (Err x)). simpl. auto.
    + apply F_ret0.
  - discriminate Ht.
  - cbn [impl]. destruct id as [id|]; [|apply Hfail; discriminate].
    destruct (nth_error G id) as [c|]; [|apply Hfail; discriminate].
    unfold call. callf; [apply Hk0| |apply F_ret0].
    apply Hfail. simpl. intros Hx. unfold enh_rewrite. destruct (xk x) eqn:E; simpl in *; rewrite ?E; auto.
Qed.

Theorem F_step a : transparent1 (a_e a) = true -> F false (step G a).
Proof.
  intros Ht. unfold step.
  destruct (a_pre a && callpre (attrs_of (a_e a))); [|apply F_impl; exact Ht].
  apply F_pre_parse; [exact F_escape|]. intros l. apply F_impl. exact Ht.
Qed.

(* from the tree invariant to executions *)
Lemma run_seen_inv rec p : forall st, F st p -> forall b o, run_seen rec p st = Some (b, o) -> b = true -> fatal_out o = true.
Proof.
  induction p as [o'|a k IH]; intros st Hs b o H Hb; simpl in H.
  - injection H as E1 E2. inversion Hs as [st1 o1 HP|]; subst. apply HP. reflexivity.
  - inversion Hs as [|st0 a0 k0 _ Hk]; subst.
    destruct (rec a) as [o1|]; [|discriminate].
    eapply (IH o1 (st || fatal_out o1)); [apply Hk; exact I|exact H|reflexivity].
Qed.

Theorem never_swallowed rec a o :
  transparent1 (a_e a) = true ->
  run_seen rec (step G a) false = Some (true, o) ->
  fatal_out o = true.
Proof. intros Ht H. eapply run_seen_inv; [apply F_step; exact Ht|exact H|reflexivity]. Qed.

(* ---- error stop: one-step lemmas about And.parseImpl after its first element ---- *)
Definition to_syntax (s : str) (a : attrs) (x : exn) : exn :=
  match xk x with
  | XSyntax => x
  | XParse | XFatal => mkx XSyntax (xloc x) (xmsg x) (xel x)
  | XIndex => mkx XSyntax (Z.of_nat (length s)) (MNode (nid a) 0) (Some (nid a))
  | _ => x
  end.

Lemma and_go_errorstop k a s d ac ic rest loc acc estop :
  and_go k a s d (Tok ac ic KErrorStop :: rest) loc acc estop = and_go k a s d rest loc acc true.
Proof. reflexivity. Qed.

Lemma and_go_success rec k a s d c rest loc acc estop l r :
  (match c with Tok _ _ KErrorStop => False | _ => True end) ->
  rec (mkargs c s loc d true) = Some (Ok l r) ->
  run rec (and_go k a s d (c :: rest) loc acc estop) = run rec (and_go k a s d rest l (pr_iadd acc r) estop).
Proof.
  intros Hc Hr. destruct c as [ac ic tc| | | | |]; try (simpl; unfold call; simpl; rewrite Hr; reflexivity).
  destruct tc; try contradiction; simpl; unfold call; simpl; rewrite Hr; reflexivity.
Qed.

Lemma and_go_failure_after_stop rec e s d pl a c rest loc acc x :
  (match c with Tok _ _ KErrorStop => False | _ => True end) ->
  rec (mkargs c s loc d true) = Some (Err x) ->
  is_pbe (xk x) = true \/ xk x = XIndex ->
  run rec (and_go (step_k e s d pl) a s d (c :: rest) loc acc true) = Some (Err (to_syntax s a x)).
Proof.
  intros Hc Hr Hx.
  assert (run rec (and_go (step_k e s d pl) a s d (c :: rest) loc acc true) =
          run rec (match xk x with
                   | XSyntax => fail_of (step_k e s d pl) x
                   | XParse | XFatal => fail_of (step_k e s d pl) (mkx XSyntax (xloc x) (xmsg x) (xel x))
                   | XIndex => fail_of (step_k e s d pl) (mkx XSyntax (Z.of_nat (length s)) (MNode (nid a) 0) (Some (nid a)))
                   | _ => fail_of (step_k e s d pl) x
                   end)) as ->.
  { destruct c as [ac ic tc| | | | |]; try (simpl; unfold call; simpl; rewrite Hr; reflexivity).
    destruct tc; try contradiction; simpl; unfold call; simpl; rewrite Hr; reflexivity. }
  unfold to_syntax, fail_of, step_k.
  destruct Hx as [Hx|Hx]; destruct (xk x) eqn:E; simpl in *; try discriminate; try rewrite E; reflexivity.
Qed.

(* ---- negative lookahead treats a fatal error as a non-match ---- *)
Lemma notany_swallows rec a i c s pl d x :
  rec (mkargs c s pl d true) = Some (Err x) -> is_fatal (xk x) = true ->
  run rec (impl G (Enh a i ENot c) s pl d (step_k (Enh a i ENot c) s d pl)) =
  run rec (finish (Enh a i ENot c) d pl pl (RList [])).
Proof.
  intros Hr Hx. cbn [impl]. unfold can_parse_next, try_parse, call. cbn [run]. rewrite Hr.
  rewrite Hx. reflexivity.
Qed.
End Fatal.
