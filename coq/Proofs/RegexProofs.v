(* Lemmas about the regex matcher of Model/Regex.v. *)
From Coq Require Import List NArith Arith Bool Lia.
From PP Require Import Model.Str Model.Regex.
Import ListNotations.

(* ------------------------------------------------------------------ small facts *)
Lemma orelse_some : forall a b e, a = Some e -> orelse a b = Some e.
Proof. intros; subst; reflexivity. Qed.

Lemma orelse_none : forall a b, a = None -> orelse a b = b tt.
Proof. intros; subst; reflexivity. Qed.

Lemma char_at_skipn : forall (s : str) i, char_at s i = hd_error (skipn i s).
Proof.
  unfold char_at. induction s; destruct i; simpl; auto.
Qed.

Lemma skipn_S_tl : forall (s : str) i c t, skipn i s = c :: t -> skipn (S i) s = t.
Proof.
  induction s; intros i c t H.
  - destruct i; discriminate.
  - destruct i; simpl in *.
    + inversion H; reflexivity.
    + apply IHs in H. exact H.
Qed.

Lemma skipn_nil_len : forall (s : str) i, skipn i s = [] -> length s <= i.
Proof. induction s; destruct i; simpl; intros; try lia; try discriminate. apply IHs in H. lia. Qed.

Lemma skipn_cons_len : forall (s : str) i c t, skipn i s = c :: t -> i < length s.
Proof. induction s; destruct i; simpl; intros; try discriminate; try lia. apply IHs in H. lia. Qed.

Lemma run_len_step : forall p s i c,
  char_at s i = Some c -> run_len p s i = if p c then S (run_len p s (S i)) else 0.
Proof.
  intros p s i c H. unfold run_len. rewrite char_at_skipn in H.
  destruct (skipn i s) as [|d t] eqn:E; simpl in H; try discriminate. inversion H; subst.
  rewrite (skipn_S_tl _ _ _ _ E). reflexivity.
Qed.

Lemma run_len_end : forall p s i, char_at s i = None -> run_len p s i = 0.
Proof.
  intros p s i H. unfold run_len. rewrite char_at_skipn in H.
  destruct (skipn i s); simpl in *; [reflexivity|discriminate].
Qed.

Lemma run_from_le : forall p l, run_from p l <= length l.
Proof. induction l; simpl; [lia|]. destruct (p a); lia. Qed.

Lemma run_len_bound : forall p s i, i + run_len p s i <= Nat.max i (length s).
Proof.
  intros. unfold run_len. pose proof (run_from_le p (skipn i s)). rewrite skipn_length in H. lia.
Qed.

Lemma run_len_le : forall p s i, run_len p s i <= length s - i.
Proof. intros. unfold run_len. pose proof (run_from_le p (skipn i s)). rewrite skipn_length in H. lia. Qed.

(* all characters of the run satisfy p, and the one after it does not *)
Lemma run_len_all : forall p s i d, d < run_len p s i -> exists c, char_at s (i + d) = Some c /\ p c = true.
Proof.
  intros p s i d. revert i. induction d; intros i H.
  - rewrite Nat.add_0_r. destruct (char_at s i) eqn:E.
    + rewrite (run_len_step _ _ _ _ E) in H. destruct (p c) eqn:P; [eauto|lia].
    + rewrite (run_len_end _ _ _ E) in H. lia.
  - destruct (char_at s i) eqn:E.
    + rewrite (run_len_step _ _ _ _ E) in H. destruct (p c) eqn:P; [|lia].
      replace (i + S d) with (S i + d) by lia. apply IHd. lia.
    + rewrite (run_len_end _ _ _ E) in H. lia.
Qed.

Lemma run_len_S : forall p s i, 0 < run_len p s i -> run_len p s i = S (run_len p s (S i)).
Proof.
  intros p s i H. destruct (char_at s i) eqn:E.
  - rewrite (run_len_step _ _ _ _ E) in *. destruct (p c); [reflexivity|lia].
  - rewrite (run_len_end _ _ _ E) in H. lia.
Qed.

Lemma run_len_stop : forall p s i c, char_at s (i + run_len p s i) = Some c -> p c = false.
Proof.
  intros p s i c. remember (run_len p s i) as d eqn:D. revert i D.
  induction d; intros i D H.
  - rewrite Nat.add_0_r in H. rewrite (run_len_step _ _ _ _ H) in D. destruct (p c); [discriminate|reflexivity].
  - assert (0 < run_len p s i) by lia. pose proof (run_len_S _ _ _ H0).
    apply (IHd (S i)); [lia|]. replace (S i + d) with (i + S d) by lia. exact H.
Qed.

Lemma run_len_add : forall p s d i, d <= run_len p s i -> run_len p s (i + d) = run_len p s i - d.
Proof.
  induction d; intros i H.
  - rewrite Nat.add_0_r. lia.
  - assert (0 < run_len p s i) by lia. pose proof (run_len_S _ _ _ H0).
    replace (i + S d) with (S i + d) by lia. rewrite IHd; lia.
Qed.

(* ------------------------------------------------------------------ one character *)
Lemma set_step_eq : forall s ic neg items i k,
  set_step s ic neg items i k =
  match char_at s i with
  | Some c => if cset_mem ic neg items c then k (S i) else None
  | None => None
  end.
Proof. reflexivity. Qed.

(* one set character, in terms of the run length *)
Lemma set_step_run : forall s ic neg items i k,
  set_step s ic neg items i k = if 0 <? run_len (cset_mem ic neg items) s i then k (S i) else None.
Proof.
  intros. unfold set_step. destruct (char_at s i) eqn:E.
  - rewrite (run_len_step _ _ _ _ E). destruct (cset_mem ic neg items c); reflexivity.
  - rewrite (run_len_end _ _ _ E). reflexivity.
Qed.

Lemma re_match_set : forall ic neg items s i,
  re_match (RSet ic neg items) s i =
  match char_at s i with
  | Some c => if cset_mem ic neg items c then Some (S i) else None
  | None => None
  end.
Proof. reflexivity. Qed.

Lemma cset_mem_single : forall c d, cset_mem false false [CI_char d] c = N.eqb c d.
Proof. intros. unfold cset_mem, items_mem. simpl. destruct (N.eqb c d); reflexivity. Qed.

(* ------------------------------------------------------------------ set{lo,hi}, greedy = longest run, capped *)
Section SetRep.
  Variable s : str.
  Variables ic neg : bool.
  Variable items : list citem.
  Let p := cset_mem ic neg items.
  Let body := set_step s ic neg items.

  Lemma rep_min_set : forall c i k,
    rep_min body c i k = if c <=? run_len p s i then k (i + c) else None.
  Proof.
    induction c; intros i k; simpl.
    - rewrite Nat.add_0_r. reflexivity.
    - unfold body at 1. rewrite set_step_run. fold p.
      destruct (0 <? run_len p s i) eqn:H0.
      + apply Nat.ltb_lt in H0. rewrite (run_len_S _ _ _ H0). fold body. rewrite IHc.
        replace (S i + c) with (i + S c) by lia. reflexivity.
      + apply Nat.ltb_ge in H0. destruct (run_len p s i); [reflexivity|lia].
  Qed.

  (* greedy optional iterations with a tail that always succeeds *)
  Lemma rep_max_set_total : forall n i,
    rep_max body (fun j => Some j) n i = Some (i + Nat.min n (run_len p s i)).
  Proof.
    induction n; intros i; simpl.
    - rewrite Nat.add_0_r. reflexivity.
    - unfold body at 1. rewrite set_step_run. fold p.
      destruct (0 <? run_len p s i) eqn:H0.
      + apply Nat.ltb_lt in H0. rewrite (run_len_S _ _ _ H0).
        replace (S i =? i) with false by (symmetry; apply Nat.eqb_neq; lia).
        fold body. rewrite IHn. simpl. f_equal. lia.
      + apply Nat.ltb_ge in H0. replace (run_len p s i) with 0 by lia. simpl. f_equal. lia.
  Qed.

  (* greedy optional iterations with an arbitrary tail: the longest d <= min n run with k (i+d) succeeding *)
  Fixpoint longest_ok (k : cont) (i d : nat) : option nat :=
    match d with
    | 0 => k i
    | S d' => orelse (k (i + d)) (fun _ => longest_ok k i d')
    end.

  Lemma longest_ok_shift : forall k i m,
    orelse (longest_ok k (S i) m) (fun _ => k i) = longest_ok k i (S m).
  Proof.
    intros k i. induction m.
    - cbn [longest_ok]. replace (i + 1) with (S i) by lia. reflexivity.
    - cbn [longest_ok] in *. replace (S i + S m) with (i + S (S m)) by lia.
      destruct (k (i + S (S m))); [reflexivity|]. cbn [orelse]. exact IHm.
  Qed.

  Lemma rep_max_set_general : forall k n i,
    rep_max body k n i = longest_ok k i (Nat.min n (run_len p s i)).
  Proof.
    intros k. induction n; intros i.
    - reflexivity.
    - cbn [rep_max]. unfold body at 1. rewrite set_step_run. fold p.
      destruct (0 <? run_len p s i) eqn:H0.
      + apply Nat.ltb_lt in H0. rewrite (run_len_S _ _ _ H0).
        replace (S i =? i) with false by (symmetry; apply Nat.eqb_neq; lia).
        fold body. rewrite IHn. rewrite <- Nat.succ_min_distr. apply longest_ok_shift.
      + apply Nat.ltb_ge in H0. replace (run_len p s i) with 0 by lia. rewrite Nat.min_0_r. reflexivity.
  Qed.

  (* set{lo,hi} / set{lo,} followed by nothing: fails below lo, otherwise the run capped at hi *)
  Theorem re_match_set_rep : forall lo hi i,
    re_match (RRep Greedy lo hi (RSet ic neg items)) s i =
    let run := run_len p s i in
    if lo <=? run
    then Some (i + match hi with Some h => Nat.max lo (Nat.min h run) | None => run end)
    else None.
  Proof.
    intros lo hi i. unfold re_match. simpl rm. fold body. rewrite rep_min_set. fold p. cbv zeta.
    destruct (lo <=? run_len p s i) eqn:L; [|reflexivity].
    apply Nat.leb_le in L. rewrite rep_max_set_total. fold p.
    rewrite run_len_add by exact L. f_equal.
    destruct hi as [h|]; unfold rep_extra.
    - lia.
    - pose proof (run_len_le p s i). lia.
  Qed.

  (* the bound S (length s) of an unbounded loop is never what stops it: any larger bound gives the same result *)
  Lemma rep_max_set_fuel : forall k n n' i,
    length s - i < n -> n <= n' -> rep_max body k n i = rep_max body k n' i.
  Proof.
    intros. rewrite !rep_max_set_general. pose proof (run_len_le p s i). f_equal. lia.
  Qed.
End SetRep.

(* ------------------------------------------------------------------ literals and alternations of literals *)
Lemma starts_at_cons : forall s i a w,
  starts_at s i (a :: w) = match char_at s i with Some c => N.eqb a c && starts_at s (S i) w | None => false end.
Proof.
  intros. unfold starts_at. rewrite char_at_skipn.
  destruct (skipn i s) eqn:E; [reflexivity|].
  rewrite (skipn_S_tl _ _ _ _ E). reflexivity.
Qed.

Lemma rm_rlit_gen : forall (mk : char -> re) s,
  (forall c i k, rm s (mk c) i k = rm s (RChr c) i k) ->
  forall w i k, rm s (rseq (map mk w)) i k = if starts_at s i w then k (i + length w) else None.
Proof.
  intros mk s Hmk. induction w as [|a w IH]; intros i k.
  - simpl. rewrite Nat.add_0_r. unfold starts_at. reflexivity.
  - assert (E : rm s (rseq (map mk (a :: w))) i k = rm s (mk a) i (fun j => rm s (rseq (map mk w)) j k)).
    { simpl map. destruct w; simpl; [|reflexivity].
      rewrite !Hmk. simpl. unfold set_step. destruct (char_at s i); [|reflexivity].
      destruct (cset_mem false false [CI_char a] c); reflexivity. }
    rewrite E, Hmk. simpl rm. rewrite set_step_eq, starts_at_cons.
    destruct (char_at s i) as [c|]; [|reflexivity].
    rewrite cset_mem_single, N.eqb_sym.
    destruct (N.eqb a c); simpl; [|reflexivity].
    rewrite IH. replace (S i + length w) with (i + length (a :: w)) by (simpl; lia). reflexivity.
Qed.

Lemma rm_rlit : forall s w i k,
  rm s (rlit w) i k = if starts_at s i w then k (i + length w) else None.
Proof. intros. unfold rlit. apply rm_rlit_gen. reflexivity. Qed.

(* first-success over a list of alternatives *)
Fixpoint first_some {A} (f : A -> option nat) (l : list A) : option nat :=
  match l with
  | [] => None
  | a :: t => orelse (f a) (fun _ => first_some f t)
  end.

Lemma rm_ralt : forall s l i k, rm s (ralt l) i k = first_some (fun r => rm s r i k) l.
Proof.
  induction l as [|a l IH]; intros i k.
  - simpl. unfold set_step. destruct (char_at s i); reflexivity.
  - destruct l as [|b l'].
    + simpl. destruct (rm s a i k); reflexivity.
    + change (ralt (a :: b :: l')) with (RAlt a (ralt (b :: l'))). simpl rm. rewrite IH. reflexivity.
Qed.

(* alternation of literals: the first listed literal that is a prefix at i (and whose continuation succeeds) *)
Theorem rm_alt_literals : forall s ws i k,
  rm s (ralt (map rlit ws)) i k =
  first_some (fun w => if starts_at s i w then k (i + length w) else None) ws.
Proof.
  intros. rewrite rm_ralt. induction ws as [|w ws IH]; simpl; [reflexivity|].
  rewrite rm_rlit, IH. reflexivity.
Qed.

Theorem re_match_alt_literals : forall s ws i,
  re_match (ralt (map rlit ws)) s i =
  match find (starts_at s i) ws with Some w => Some (i + length w) | None => None end.
Proof.
  intros. unfold re_match. rewrite rm_alt_literals.
  induction ws as [|w ws IH]; simpl; [reflexivity|].
  destruct (starts_at s i w); simpl; [reflexivity|apply IH].
Qed.

(* ------------------------------------------------------------------ extensionality in the continuation *)
Lemma rep_min_ext : forall (body : matcher),
  (forall i k k', (forall j, k j = k' j) -> body i k = body i k') ->
  forall c i k k', (forall j, k j = k' j) -> rep_min body c i k = rep_min body c i k'.
Proof.
  intros body Hb. induction c; intros; simpl; auto.
Qed.

Lemma rep_max_ext : forall (body : matcher),
  (forall i k k', (forall j, k j = k' j) -> body i k = body i k') ->
  forall k k', (forall j, k j = k' j) -> forall n i, rep_max body k n i = rep_max body k' n i.
Proof.
  intros body Hb k k' Hk. induction n; intros; simpl; auto.
  rewrite (Hb i _ (fun j => if j =? i then k' j else rep_max body k' n j)).
  - rewrite Hk. reflexivity.
  - intros j. destruct (j =? i); auto.
Qed.

Lemma rep_lazy_ext : forall (body : matcher),
  (forall i k k', (forall j, k j = k' j) -> body i k = body i k') ->
  forall k k', (forall j, k j = k' j) -> forall n last i, rep_lazy body k n last i = rep_lazy body k' n last i.
Proof.
  intros body Hb k k' Hk. induction n; intros; simpl; rewrite Hk; auto.
  destruct (k' i); simpl; auto.
  destruct (match last with Some l => l =? i | None => false end); auto.
Qed.

Lemma rm_ext : forall s r i c c', (forall j, c j = c' j) -> rm s r i c = rm s r i c'.
Proof.
  intros s. induction r; intros i c c' Hk; simpl.
  - auto.
  - unfold set_step. destruct (char_at s i); auto. rewrite Hk; auto.
  - unfold any_step. destruct (char_at s i); auto. rewrite Hk; auto.
  - apply IHr1. intros. apply IHr2. auto.
  - rewrite (IHr1 i c c' Hk), (IHr2 i c c' Hk). reflexivity.
  - apply rep_min_ext; [exact IHr|]. intros j. destruct g.
    + apply rep_max_ext; auto.
    + apply rep_lazy_ext; auto.
  - auto.
  - rewrite Hk. reflexivity.
  - rewrite Hk. reflexivity.
Qed.

(* ------------------------------------------------------------------ soundness: a result is a denotation + a continuation result *)
Lemma iter_rel_snoc : forall R n i m j, iter_rel R n i m -> R m j -> iter_rel R (S n) i j.
Proof.
  induction n; simpl; intros.
  - subst. eauto.
  - destruct H as (x & Hx & Hr). exists x. split; auto. eapply IHn; eauto.
Qed.

Lemma iter_rel_app : forall R a b i m j, iter_rel R a i m -> iter_rel R b m j -> iter_rel R (a + b) i j.
Proof.
  induction a; simpl; intros.
  - subst. auto.
  - destruct H as (x & Hx & Hr). exists x. split; auto. eapply IHa; eauto.
Qed.

Lemma iter_rel_split : forall R a b i j, iter_rel R (a + b) i j -> exists m, iter_rel R a i m /\ iter_rel R b m j.
Proof.
  induction a; simpl; intros.
  - eauto.
  - destruct H as (x & Hx & Hr). apply IHa in Hr. destruct Hr as (m & H1 & H2). exists m. eauto.
Qed.

Lemma orelse_nn_l : forall a b, a <> None -> orelse a b <> None.
Proof. intros. destruct a; simpl; congruence. Qed.

Lemma orelse_nn_r : forall a b, b tt <> None -> orelse a b <> None.
Proof. intros. destruct a; simpl; congruence. Qed.

Section RepCorrect.
  Variable body : matcher.
  Variable D : nat -> nat -> Prop.
  Hypothesis body_sound : forall i k e, body i k = Some e -> exists j, D i j /\ k j = Some e.
  Hypothesis body_complete : forall i k j, D i j -> k j <> None -> body i k <> None.

  Lemma rep_min_sound : forall c i k e,
    rep_min body c i k = Some e -> exists j, iter_rel D c i j /\ k j = Some e.
  Proof.
    induction c; simpl; intros.
    - eauto.
    - apply body_sound in H. destruct H as (m & Hm & H). apply IHc in H. destruct H as (j & Hj & H).
      exists j. split; eauto.
  Qed.

  Lemma rep_max_sound : forall k n i e,
    rep_max body k n i = Some e -> exists c j, c <= n /\ iter_rel D c i j /\ k j = Some e.
  Proof.
    induction n; simpl; intros.
    - exists 0, i. simpl. repeat split; auto; lia.
    - unfold orelse in H.
      destruct (body i (fun j => if j =? i then k j else rep_max body k n j)) eqn:E.
      + inversion H; subst. apply body_sound in E. destruct E as (m & Hm & E).
        destruct (m =? i) eqn:Q.
        * exists 1, m. simpl. repeat split; try lia; eauto.
        * apply IHn in E. destruct E as (c & j & Hc & Hit & Hk). exists (S c), j. simpl. repeat split; try lia; eauto.
      + exists 0, i. simpl. repeat split; auto; lia.
  Qed.

  Lemma rep_lazy_sound : forall k n last i e,
    rep_lazy body k n last i = Some e -> exists c j, c <= n /\ iter_rel D c i j /\ k j = Some e.
  Proof.
    induction n; simpl; intros last i e H; unfold orelse in H.
    - destruct (k i) eqn:K; [|discriminate]. inversion H; subst. exists 0, i. simpl. repeat split; auto; lia.
    - destruct (k i) eqn:K.
      + inversion H; subst. exists 0, i. simpl. repeat split; auto; lia.
      + destruct (match last with Some l => l =? i | None => false end); [discriminate|].
        apply body_sound in H. destruct H as (m & Hm & H). apply IHn in H.
        destruct H as (c & j & Hc & Hit & Hk). exists (S c), j. simpl. repeat split; try lia; eauto.
  Qed.

  Lemma rep_min_complete : forall c i k j,
    iter_rel D c i j -> k j <> None -> rep_min body c i k <> None.
  Proof.
    induction c; simpl; intros.
    - subst. auto.
    - destruct H as (m & Hm & Hr). eapply body_complete; eauto.
  Qed.

  Hypothesis D_lt : forall i j, D i j -> i < j.

  Lemma rep_max_complete : forall k n c i j,
    c <= n -> iter_rel D c i j -> k j <> None -> rep_max body k n i <> None.
  Proof.
    induction n; intros c i j Hc Hit Hk.
    - assert (c = 0) by lia. subst. simpl in *. subst. auto.
    - cbn [rep_max]. destruct c.
      + simpl in Hit. subst. apply orelse_nn_r. auto.
      + simpl in Hit. destruct Hit as (m & Hm & Hr). apply orelse_nn_l.
        eapply body_complete; eauto.
        apply D_lt in Hm. replace (m =? i) with false by (symmetry; apply Nat.eqb_neq; lia).
        eapply IHn; [|exact Hr|exact Hk]. lia.
  Qed.

  Lemma rep_lazy_complete : forall k n c last i j,
    c <= n -> match last with Some l => l < i | None => True end ->
    iter_rel D c i j -> k j <> None -> rep_lazy body k n last i <> None.
  Proof.
    induction n; intros c last i j Hc Hl Hit Hk.
    - assert (c = 0) by lia. subst. simpl in *. subst. apply orelse_nn_l. auto.
    - cbn [rep_lazy]. destruct c.
      + simpl in Hit. subst. apply orelse_nn_l. auto.
      + simpl in Hit. destruct Hit as (m & Hm & Hr). apply orelse_nn_r.
        replace (match last with Some l => l =? i | None => false end) with false.
        * eapply body_complete; [exact Hm|]. eapply IHn; [|apply D_lt in Hm; exact Hm|exact Hr|exact Hk]. lia.
        * destruct last; auto. symmetry. apply Nat.eqb_neq. lia.
  Qed.
End RepCorrect.

(* positions only move forward and stay inside the string *)
Lemma iter_rel_mono : forall (R : nat -> nat -> Prop) L,
  (forall i j, R i j -> i <= j /\ (i <= L -> j <= L)) ->
  forall n i j, iter_rel R n i j -> i <= j /\ (i <= L -> j <= L).
Proof.
  intros R L H. induction n; simpl; intros.
  - subst. auto.
  - destruct H0 as (m & Hm & Hr). apply H in Hm. apply IHn in Hr. lia.
Qed.

Lemma char_at_lt : forall (s : str) i c, char_at s i = Some c -> i < length s.
Proof. intros. unfold char_at in H. apply nth_error_Some. congruence. Qed.

Lemma den_mono : forall s r i j, den r s i j -> i <= j /\ (i <= length s -> j <= length s).
Proof.
  intros s. induction r; simpl; intros i j H.
  - subst. auto.
  - destruct H as (c & Hc & _ & ->). apply char_at_lt in Hc. lia.
  - destruct H as (c & Hc & _ & ->). apply char_at_lt in Hc. lia.
  - destruct H as (m & H1 & H2). apply IHr1 in H1. apply IHr2 in H2. lia.
  - destruct H; eauto.
  - destruct H as (n & _ & _ & H). eapply iter_rel_mono in H; eauto.
  - eauto.
  - destruct H; subst; auto.
  - destruct H; subst; auto.
Qed.

Lemma den_consuming : forall s r i j, consuming r = true -> den r s i j -> i < j /\ j <= length s.
Proof.
  intros s. induction r; simpl; intros i j C H; try discriminate.
  - destruct H as (c & Hc & _ & ->). apply char_at_lt in Hc. lia.
  - destruct H as (c & Hc & _ & ->). apply char_at_lt in Hc. lia.
  - destruct H as (m & H1 & H2). apply orb_true_iff in C. destruct C as [C|C].
    + apply IHr1 in H1; auto. apply den_mono in H2. lia.
    + apply IHr2 in H2; auto. apply den_mono in H1. lia.
  - apply andb_true_iff in C. destruct C. destruct H; eauto.
  - apply andb_true_iff in C. destruct C as [C1 C2]. apply Nat.ltb_lt in C1.
    destruct H as (n & Hn & _ & H). destruct n; [lia|]. simpl in H. destruct H as (m & Hm & Hr).
    apply IHr in Hm; auto. eapply iter_rel_mono in Hr; [|apply den_mono]. lia.
  - eauto.
Qed.

Lemma iter_consume : forall (R : nat -> nat -> Prop) L,
  (forall i j, R i j -> i < j /\ j <= L) ->
  forall n i j, iter_rel R n i j -> i + n <= j /\ (0 < n -> j <= L).
Proof.
  intros R L H. induction n; simpl; intros.
  - subst. lia.
  - destruct H0 as (m & Hm & Hr). apply H in Hm. destruct n.
    + simpl in Hr. subst. lia.
    + apply IHn in Hr. lia.
Qed.

(* The matcher against the denotation, for patterns whose repetition bodies consume (rep_ok):
   soundness  — a result comes from a denoted match whose continuation gave that result;
   completeness — if some denoted match has a succeeding continuation, the matcher succeeds. *)
Theorem rm_correct : forall s r, rep_ok r = true -> forall i c,
  (forall e, rm s r i c = Some e -> exists j, den r s i j /\ c j = Some e) /\
  (forall j, den r s i j -> c j <> None -> rm s r i c <> None).
Proof.
  intros s. induction r; intros OK i c; simpl in OK.
  - (* REps *) split; simpl; intros.
    + eauto.
    + subst. auto.
  - (* RSet *) split; simpl; unfold set_step; intros.
    + destruct (char_at s i) eqn:C; [|discriminate].
      destruct (cset_mem ic neg items c0) eqn:M; [|discriminate]. exists (S i). eauto.
    + destruct H as (c0 & -> & -> & ->). auto.
  - (* RAny *) split; simpl; unfold any_step; intros.
    + destruct (char_at s i) eqn:C; [|discriminate].
      destruct (dotall || negb (c0 =? NL)%N) eqn:M; [|discriminate]. exists (S i). eauto.
    + destruct H as (c0 & -> & -> & ->). auto.
  - (* RSeq *) apply andb_true_iff in OK. destruct OK as [O1 O2]. split; simpl; intros.
    + apply (IHr1 O1) in H. destruct H as (m & Hm & H). apply (IHr2 O2) in H. destruct H as (j & Hj & H). eauto.
    + destruct H as (m & H1 & H2). eapply (IHr1 O1); eauto. eapply (IHr2 O2); eauto.
  - (* RAlt *) apply andb_true_iff in OK. destruct OK as [O1 O2]. split; simpl; intros.
    + unfold orelse in H. destruct (rm s r1 i c) eqn:E.
      * inversion H; subst. apply (IHr1 O1) in E. destruct E as (j & Hj & E). eauto.
      * apply (IHr2 O2) in H. destruct H as (j & Hj & H). eauto.
    + destruct H.
      * apply orelse_nn_l. eapply (IHr1 O1); eauto.
      * apply orelse_nn_r. eapply (IHr2 O2); eauto.
  - (* RRep *) apply andb_true_iff in OK. destruct OK as [OK O3]. apply andb_true_iff in OK. destruct OK as [O1 O2]. specialize (IHr O1).
    assert (BS : forall i k e, rm s r i k = Some e -> exists j, den r s i j /\ k j = Some e)
      by (intros; eapply IHr; eauto).
    assert (BC : forall i k j, den r s i j -> k j <> None -> rm s r i k <> None)
      by (intros; eapply IHr; eauto).
    assert (LT : forall i j, den r s i j -> i < j) by (intros; eapply den_consuming; eauto).
    split; simpl; intros.
    + apply (rep_min_sound (rm s r) (den r s) BS) in H. destruct H as (m & Hm & H).
      assert (exists n j, n <= rep_extra s lo hi /\ iter_rel (den r s) n m j /\ c j = Some e) as (n & j & Hn & Hit & Hk).
      { destruct g; [eapply rep_max_sound|eapply rep_lazy_sound]; eauto. }
      exists j. split; auto. exists (lo + n). repeat split; try lia.
      * destruct hi; auto. unfold rep_extra in Hn. apply Nat.leb_le in O3. lia.
      * eapply iter_rel_app; eauto.
    + destruct H as (n & Hlo & Hhi & Hit).
      replace n with (lo + (n - lo)) in Hit by lia. apply iter_rel_split in Hit. destruct Hit as (m & H1 & H2).
      eapply rep_min_complete; eauto.
      assert (Hn : n - lo <= rep_extra s lo hi).
      { unfold rep_extra. destruct hi; [lia|].
        eapply iter_consume in H2; [|intros; eapply den_consuming; eauto]. lia. }
      destruct g.
      * eapply rep_max_complete; eauto.
      * eapply rep_lazy_complete; eauto.
  - (* RGroup *) apply IHr; auto.
  - (* RLook *) specialize (IHr OK). split; simpl; intros.
    + destruct (rm s r i (fun j => Some j)) eqn:E.
      * destruct positive; [|discriminate]. exists i. repeat split; auto.
        apply IHr in E. destruct E as (j & Hj & _). eauto.
      * destruct positive; [discriminate|]. exists i. repeat split; auto.
        intros (e' & He). eapply IHr in He; [apply He; exact E|discriminate].
    + destruct H as (<- & H). destruct positive.
      * destruct H as (e' & He). destruct (rm s r i (fun j => Some j)) eqn:E; auto.
        exfalso. eapply IHr in He; [apply He; exact E|discriminate].
      * destruct (rm s r i (fun j => Some j)) eqn:E; auto.
        exfalso. apply H. apply IHr in E. destruct E as (j' & Hj & _). eauto.
  - (* RAt *) split; simpl; intros.
    + destruct (at_ok k s i) eqn:A; [|discriminate]. eauto.
    + destruct H as (<- & ->). auto.
Qed.

Corollary re_match_sound : forall r s i e, rep_ok r = true -> re_match r s i = Some e -> den r s i e.
Proof.
  intros. unfold re_match in H0. apply rm_correct in H0; auto. destruct H0 as (j & Hj & E). inversion E; subst; auto.
Qed.

Corollary re_match_complete : forall r s i j, rep_ok r = true -> den r s i j -> re_match r s i <> None.
Proof. intros. unfold re_match. eapply rm_correct; eauto. discriminate. Qed.

(* fullmatch accepts exactly the denoted strings *)
Corollary re_fullmatch_iff : forall r s, rep_ok r = true -> (re_fullmatch r s = true <-> den r s 0 (length s)).
Proof.
  intros r s OK. unfold re_fullmatch, re_fullmatch_at. split; intro H.
  - destruct (rm s r 0 _) eqn:E; [|discriminate]. apply rm_correct in E; auto.
    destruct E as (j & Hj & E). destruct (j =? length s) eqn:Q; [|discriminate].
    apply Nat.eqb_eq in Q. subst. auto.
  - destruct (rm s r 0 _) eqn:E; auto. exfalso.
    revert E. eapply (proj2 (rm_correct s r OK 0 _)); [exact H|]. rewrite Nat.eqb_refl. discriminate.
Qed.
