(* Decidable equality on the grammar and argument types: the model of object identity used as packrat cache key. *)
From Coq Require Import List ZArith NArith Bool Arith.
From PP Require Import Model.Str Model.Results Model.Prog Model.Core.
Import ListNotations.

Definition char_eq_dec : forall a b : char, {a = b} + {a <> b} := N.eq_dec.
Definition str_eq_dec : forall a b : str, {a = b} + {a <> b} := list_eq_dec char_eq_dec.

Definition option_eq_dec {T} (d : forall a b : T, {a = b} + {a <> b}) : forall a b : option T, {a = b} + {a <> b}.
Proof. decide equality. Defined.
Definition prod_eq_dec {A B} (da : forall a b : A, {a = b} + {a <> b}) (db : forall a b : B, {a = b} + {a <> b})
  : forall a b : A * B, {a = b} + {a <> b}.
Proof. decide equality. Defined.

Definition presrec_eq_dec {T} (d : forall a b : T, {a = b} + {a <> b}) : forall a b : pres_ T, {a = b} + {a <> b}.
Proof.
  intros [t1 d1 n1 r1 m1] [t2 d2 n2 r2 m2].
  destruct (list_eq_dec d t1 t2); [|right; congruence].
  destruct (list_eq_dec (prod_eq_dec str_eq_dec (list_eq_dec (prod_eq_dec d Z.eq_dec))) d1 d2); [|right; congruence].
  destruct (list_eq_dec str_eq_dec n1 n2); [|right; congruence].
  destruct (option_eq_dec str_eq_dec r1 r2); [|right; congruence].
  destruct (bool_dec m1 m2); [|right; congruence].
  left; congruence.
Defined.

Fixpoint tok_eq_dec (a b : tok) {struct a} : {a = b} + {a <> b}.
Proof.
  destruct a, b; try (right; discriminate).
  - destruct (str_eq_dec s s0); [left|right]; congruence.
  - destruct (Z.eq_dec z z0); [left|right]; congruence.
  - destruct (bool_dec b b0); [left|right]; congruence.
  - left; reflexivity.
  - destruct (list_eq_dec tok_eq_dec l l0); [left|right]; congruence.
  - destruct (presrec_eq_dec tok_eq_dec r r0); [left|right]; congruence.
Defined.

Definition xkind_eq_dec : forall a b : xkind, {a = b} + {a <> b}.
Proof. decide equality. Defined.

Definition action_eq_dec : forall a b : action, {a = b} + {a <> b}.
Proof.
  decide equality; try apply str_eq_dec; try apply tok_eq_dec; try apply xkind_eq_dec;
    try apply Nat.eq_dec; try apply bool_dec; try (apply list_eq_dec; apply tok_eq_dec).
Defined.

Definition attrs_eq_dec : forall a b : attrs, {a = b} + {a <> b}.
Proof.
  decide equality; try apply Nat.eq_dec; try apply bool_dec; try apply str_eq_dec;
    try (apply option_eq_dec; apply str_eq_dec); try (apply list_eq_dec; apply action_eq_dec).
Defined.

Definition tkind_eq_dec : forall a b : tkind, {a = b} + {a <> b}.
Proof.
  decide equality; try apply Nat.eq_dec; try apply bool_dec; try apply str_eq_dec;
    try (apply option_eq_dec; apply Nat.eq_dec).
Defined.

Definition nkind_eq_dec : forall a b : nkind, {a = b} + {a <> b}.
Proof.
  decide equality. apply list_eq_dec. apply prod_eq_dec; [apply bool_dec|]. apply prod_eq_dec; apply Nat.eq_dec.
Defined.

Definition ekind_eq_dec : forall a b : ekind, {a = b} + {a <> b}.
Proof.
  decide equality; try apply Nat.eq_dec; try apply bool_dec; try apply str_eq_dec;
    try (apply option_eq_dec; apply tok_eq_dec).
Defined.

Fixpoint expr_eq_dec (a b : expr) {struct a} : {a = b} + {a <> b}.
Proof.
  destruct a as [a1 i1 t1 | a1 i1 k1 es1 | a1 i1 k1 e1 | a1 i1 z1 e1 n1 | a1 i1 e1 inc1 ig1 f1 | a1 i1 id1],
           b as [a2 i2 t2 | a2 i2 k2 es2 | a2 i2 k2 e2 | a2 i2 z2 e2 n2 | a2 i2 e2 inc2 ig2 f2 | a2 i2 id2];
    try (right; discriminate).
  - destruct (attrs_eq_dec a1 a2); [|right; congruence].
    destruct (list_eq_dec expr_eq_dec i1 i2); [|right; congruence].
    destruct (tkind_eq_dec t1 t2); [left|right]; congruence.
  - destruct (attrs_eq_dec a1 a2); [|right; congruence].
    destruct (list_eq_dec expr_eq_dec i1 i2); [|right; congruence].
    destruct (nkind_eq_dec k1 k2); [|right; congruence].
    destruct (list_eq_dec expr_eq_dec es1 es2); [left|right]; congruence.
  - destruct (attrs_eq_dec a1 a2); [|right; congruence].
    destruct (list_eq_dec expr_eq_dec i1 i2); [|right; congruence].
    destruct (ekind_eq_dec k1 k2); [|right; congruence].
    destruct (expr_eq_dec e1 e2); [left|right]; congruence.
  - destruct (attrs_eq_dec a1 a2); [|right; congruence].
    destruct (list_eq_dec expr_eq_dec i1 i2); [|right; congruence].
    destruct (bool_dec z1 z2); [|right; congruence].
    destruct (expr_eq_dec e1 e2); [|right; congruence].
    destruct n1 as [m1|], n2 as [m2|]; try (right; congruence).
    + destruct (expr_eq_dec m1 m2); [left|right]; congruence.
    + left; congruence.
  - destruct (attrs_eq_dec a1 a2); [|right; congruence].
    destruct (list_eq_dec expr_eq_dec i1 i2); [|right; congruence].
    destruct (expr_eq_dec e1 e2); [|right; congruence].
    destruct (bool_dec inc1 inc2); [|right; congruence].
    destruct (list_eq_dec expr_eq_dec ig1 ig2); [|right; congruence].
    destruct f1 as [m1|], f2 as [m2|]; try (right; congruence).
    + destruct (expr_eq_dec m1 m2); [left|right]; congruence.
    + left; congruence.
  - destruct (attrs_eq_dec a1 a2); [|right; congruence].
    destruct (list_eq_dec expr_eq_dec i1 i2); [|right; congruence].
    destruct (option_eq_dec Nat.eq_dec id1 id2); [left|right]; congruence.
Defined.

Definition args_eq_dec : forall a b : args, {a = b} + {a <> b}.
Proof.
  decide equality; try apply bool_dec; try apply Nat.eq_dec; try apply str_eq_dec; try apply expr_eq_dec.
Defined.

Definition args_eqb (a b : args) : bool := if args_eq_dec a b then true else false.
Lemma args_eqb_spec a b : args_eqb a b = true -> a = b.
Proof. unfold args_eqb. destruct (args_eq_dec a b); [auto|discriminate]. Qed.
Lemma args_eqb_refl a : args_eqb a a = true.
Proof. unfold args_eqb. destruct (args_eq_dec a a); [auto|congruence]. Qed.
