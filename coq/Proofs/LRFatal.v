(* C07 under bounded-recursion ("left recursion") mode: the growth loop of Forward.parseImpl catches ParseException only
   (`except ParseException:` in both places, pinned to the source by Proofs/LRTie.v), so any other exception raised by the
   body - ParseFatalException, ParseSyntaxException, or an internal error - leaves the Forward at once, whatever the memo
   holds and however far the seed has grown. *)
From Coq Require Import List ZArith NArith Bool Arith Lia.
From PP Require Import Model.Str Model.Results Model.Prog Model.Enum Model.Core Model.Entry Model.LR.
Import ListNotations.

Lemma xk_enh_rewrite' a b l x : xk (enh_rewrite a b l x) = xk x.
Proof. unfold enh_rewrite. destruct (xk x) eqn:E; cbn; auto. Qed.

(* super().parseImpl: the body's exception keeps its class *)
Lemma super_impl_err_kind rec a body s loc d m x m1 :
  super_impl rec a body s loc d m = Some (Err x, m1) ->
  exists x0, rec m (mkargs body s loc d false) = Some (Err x0, m1) /\ xk x = xk x0.
Proof.
  unfold super_impl. destruct (rec m (mkargs body s loc d false)) as [[[l r|x0|] m']|] eqn:E; intro H; inversion H; subst.
  exists x0. split; [reflexivity | apply xk_enh_rewrite'].
Qed.

(* the look-ahead evaluation (do_actions=False) of any round raises something that is not a ParseException *)
Lemma lr_loop_peek_escapes rec f a body s loc d pl pp m x m1 :
  super_impl rec a body s loc false m = Some (Err x, m1) -> is_pe (xk x) = false ->
  lr_loop rec (S f) a body s loc d pl pp m = Some (Err x, m1).
Proof. intros H Hk. cbn [lr_loop]. rewrite H, Hk. reflexivity. Qed.

(* the action evaluation (do_actions=True) of a growing round raises something that is not a ParseException *)
Lemma lr_loop_act_escapes rec f a body s loc pl pp m l r m1 x m2 :
  super_impl rec a body s loc false m = Some (Ok l r, m1) -> (pl < Z.of_nat l)%Z ->
  super_impl rec a body s loc true m1 = Some (Err x, m2) -> is_pe (xk x) = false ->
  lr_loop rec (S f) a body s loc true pl pp m = Some (Err x, m2).
Proof.
  intros H Hl H2 Hk. cbn [lr_loop]. rewrite H.
  destruct (Z.of_nat l <=? pl)%Z eqn:E; [apply Z.leb_le in E; lia|].
  rewrite H2, Hk. reflexivity.
Qed.

(* a fatal exception of the body at the first evaluation leaves Forward.parseImpl unchanged in class, for every memo state
   without an entry for this Forward here (with an entry the body is not evaluated at all) *)
Lemma lr_forward_fatal_escapes rec a body s loc d m x0 m1 :
  memo_get m (loc, nid a, d) = None ->
  (forall m', rec m' (mkargs body s loc false false) = Some (Err x0, m1)) ->
  is_fatal (xk x0) = true ->
  exists x, lr_forward rec a body s loc d m = Some (Err x, m1) /\ xk x = xk x0.
Proof.
  intros Hm Hrec Hf. unfold lr_forward. rewrite Hm.
  exists (enh_rewrite a true loc x0). split; [|apply xk_enh_rewrite'].
  assert (Hlen : exists n, length s + 3 = S n) by (exists (length s + 2); lia). destruct Hlen as [n ->].
  apply lr_loop_peek_escapes.
  - unfold super_impl. rewrite Hrec. reflexivity.
  - rewrite xk_enh_rewrite'. destruct (xk x0); cbn in *; congruence.
Qed.
