(* C16: the reference reading `infix_ref` of an operator table, on the rendering of a token list, IS precedence climbing
   over the tokens (Model/Climb.v), provided the spellings do not overlap (`no_overlapb`). *)
From Coq Require Import List ZArith NArith Bool Arith Lia.
From PP Require Import Model.Str Model.Results Model.Prog Model.Core Model.Peg Model.Infix Model.Climb.
From PP Require Import Proofs.PegEquiv Proofs.Insens Proofs.InfixProofs Proofs.ScanProofs.
Import ListNotations.

(* ------------------------------------------------------------------------------------------- *)
(* 1. readings that hold for every sufficiently large fuel, and how they compose                 *)
(* ------------------------------------------------------------------------------------------- *)
Section Comb.
Variable G : env. Variable s : str. Variable dw : list char.
Notation pg := (peg G s).
Definition sw (l : nat) : nat := skip_white s l dw.
Definition WS : bool * list char := (true, dw).

Definition pegF (e : expr) (loc : nat) (r : res) : Prop := exists f0, forall f, f0 <= f -> pg f e loc = r.
Definition firstF (es : list expr) (loc : nat) (r : res) : Prop :=
  exists f0, forall f, f0 <= f -> peg_first (pg f) es loc = r.
Definition seqF (es : list expr) (loc : nat) (acc : list tok) (r : res) : Prop :=
  exists f0, forall f, f0 <= f -> peg_seq (pg f) es loc acc = r.
Definition starF (n : nat) (e : expr) (loc : nat) (acc : list tok) (r : res) : Prop :=
  exists f0, forall f, f0 <= f -> peg_star (pg f) n e loc acc = r.

Lemma pegF_R e loc r : pegF e loc r -> r <> POut -> pegR G s e loc r.
Proof. intros [f0 H] N. exists f0. split; [apply H; lia|exact N]. Qed.
Lemma pegR_F e loc r : pegR G s e loc r -> pegF e loc r.
Proof. intros [f0 [E N]]. exists f0. intros f Hf. apply (peg_mono_eq G s f0 f e loc r E N Hf). Qed.

Lemma effw_WS l : effw s WS l = sw l.
Proof. reflexivity. Qed.

Lemma F_absorb e loc r : wspec (attrs_of e) = WS -> pegF e (sw loc) r -> pegF e loc r.
Proof.
  intros Hw [f0 H]. exists f0. intros f Hf. rewrite <- (peg_at_eff G s f e WS loc Hw). apply H. exact Hf.
Qed.
Lemma F_absorb' e loc r : wspec (attrs_of e) = WS -> pegF e loc r -> pegF e (sw loc) r.
Proof.
  intros Hw [f0 H]. exists f0. intros f Hf. rewrite <- effw_WS. rewrite (peg_at_eff G s f e WS loc Hw). apply H. exact Hf.
Qed.

Lemma F_fwd a i id c loc r : wspec a = WS -> nth_error G id = Some c -> pegF c (sw loc) r -> pegF (Fwd a i (Some id)) loc r.
Proof.
  intros Hw Hn [f0 H]. exists (S f0). intros f Hf. destruct f as [|f]; [lia|].
  rewrite peg_fwd, Hn. rewrite (eff_of_spec s _ WS) by exact Hw. apply H. lia.
Qed.

Lemma F_group_ok a i c loc l ts : wspec a = WS -> pegF c (sw loc) (POk l ts) ->
  pegF (Enh a i (EGroup false) c) loc (POk l [TList ts]).
Proof.
  intros Hw [f0 H]. exists (S f0). intros f Hf. destruct f as [|f]; [lia|].
  rewrite peg_group. rewrite (eff_of_spec s _ WS) by exact Hw. rewrite effw_WS, H by lia. reflexivity.
Qed.
Lemma F_group_fail a i c loc : wspec a = WS -> pegF c (sw loc) PFail -> pegF (Enh a i (EGroup false) c) loc PFail.
Proof.
  intros Hw [f0 H]. exists (S f0). intros f Hf. destruct f as [|f]; [lia|].
  rewrite peg_group. rewrite (eff_of_spec s _ WS) by exact Hw. rewrite effw_WS, H by lia. reflexivity.
Qed.

Lemma F_suppress_fail a i c loc : wspec a = WS -> pegF c (sw loc) PFail -> pegF (Enh a i ESuppress c) loc PFail.
Proof.
  intros Hw [f0 H]. exists (S f0). intros f Hf. destruct f as [|f]; [lia|].
  cbn [peg]. rewrite (eff_of_spec s (Enh a i ESuppress c) WS) by exact Hw. rewrite effw_WS, H by lia. reflexivity.
Qed.

Lemma F_mf a i es loc r : callpre a = false -> firstF es loc r -> pegF (Nary a i NMatchFirst es) loc r.
Proof.
  intros Hc [f0 H]. exists (S f0). intros f Hf. destruct f as [|f]; [lia|].
  rewrite peg_mf. unfold eff. cbn [attrs_of]. rewrite Hc. cbn [andb]. apply H. lia.
Qed.
Lemma F_mf_ws a i es loc r : wspec a = WS -> firstF es (sw loc) r -> pegF (Nary a i NMatchFirst es) loc r.
Proof.
  intros Hw [f0 H]. exists (S f0). intros f Hf. destruct f as [|f]; [lia|].
  rewrite peg_mf. rewrite (eff_of_spec s _ WS) by exact Hw. apply H. lia.
Qed.

Lemma first_nil loc : firstF [] loc PFail.
Proof. exists 0. reflexivity. Qed.
Lemma first_fail e es loc r : pegF e loc PFail -> firstF es loc r -> firstF (e :: es) loc r.
Proof.
  intros [f1 H1] [f2 H2]. exists (Nat.max f1 f2). intros f Hf. cbn [peg_first]. rewrite H1 by lia. apply H2. lia.
Qed.
Lemma first_ok e es loc l ts : pegF e loc (POk l ts) -> firstF (e :: es) loc (POk l ts).
Proof. intros [f1 H1]. exists f1. intros f Hf. cbn [peg_first]. rewrite H1 by lia. reflexivity. Qed.

Lemma F_and a i es loc r : wspec a = WS -> seqF es (sw loc) [] r -> pegF (Nary a i NAnd es) loc r.
Proof.
  intros Hw [f0 H]. exists (S f0). intros f Hf. destruct f as [|f]; [lia|].
  rewrite peg_and. rewrite (eff_of_spec s _ WS) by exact Hw. apply H. lia.
Qed.
Lemma seq_nil loc acc : seqF [] loc acc (POk loc acc).
Proof. exists 0. reflexivity. Qed.
Lemma seq_ok e es loc acc l ts r : pegF e loc (POk l ts) -> seqF es l (acc ++ ts) r -> seqF (e :: es) loc acc r.
Proof.
  intros [f1 H1] [f2 H2]. exists (Nat.max f1 f2). intros f Hf. cbn [peg_seq]. rewrite H1 by lia. apply H2. lia.
Qed.
Lemma seq_fail e es loc acc : pegF e loc PFail -> seqF (e :: es) loc acc PFail.
Proof. intros [f1 H1]. exists f1. intros f Hf. cbn [peg_seq]. rewrite H1 by lia. reflexivity. Qed.

Lemma star_stop n e loc acc : pegF e loc PFail -> starF (S n) e loc acc (POk loc acc).
Proof. intros [f1 H1]. exists f1. intros f Hf. cbn [peg_star]. rewrite H1 by lia. reflexivity. Qed.
Lemma star_step n e loc acc l ts r : pegF e loc (POk l ts) -> l <> loc -> starF n e l (acc ++ ts) r -> starF (S n) e loc acc r.
Proof.
  intros [f1 H1] Hne [f2 H2]. exists (Nat.max f1 f2). intros f Hf. cbn [peg_star]. rewrite H1 by lia.
  destruct (Nat.eqb l loc) eqn:E; [apply Nat.eqb_eq in E; contradiction|]. apply H2. lia.
Qed.

Lemma F_rep_ok a i b loc l ts r : wspec a = WS -> pegF b (sw loc) (POk l ts) -> starF (length s + 3) b l ts r ->
  pegF (Rep a i false b None) loc r.
Proof.
  intros Hw [f1 H1] [f2 H2]. exists (S (Nat.max f1 f2)). intros f Hf. destruct f as [|f]; [lia|].
  rewrite peg_rep. rewrite (eff_of_spec s _ WS) by exact Hw. rewrite effw_WS, H1 by lia. apply H2. lia.
Qed.
Lemma F_rep_fail a i b loc : wspec a = WS -> pegF b (sw loc) PFail -> pegF (Rep a i false b None) loc PFail.
Proof.
  intros Hw [f1 H1]. exists (S f1). intros f Hf. destruct f as [|f]; [lia|].
  rewrite peg_rep. rewrite (eff_of_spec s _ WS) by exact Hw. rewrite effw_WS, H1 by lia. reflexivity.
Qed.
(* ZeroOrMore *)
Lemma F_rep0_ok a i b loc l ts r : wspec a = WS -> pegF b (sw loc) (POk l ts) -> starF (length s + 3) b l ts r ->
  pegF (Rep a i true b None) loc r.
Proof.
  intros Hw [f1 H1] [f2 H2]. exists (S (Nat.max f1 f2)). intros f Hf. destruct f as [|f]; [lia|].
  rewrite peg_rep. rewrite (eff_of_spec s _ WS) by exact Hw. rewrite effw_WS, H1 by lia. apply H2. lia.
Qed.
Lemma F_rep0_fail a i b loc : wspec a = WS -> pegF b (sw loc) PFail -> pegF (Rep a i true b None) loc (POk (sw loc) []).
Proof.
  intros Hw [f1 H1]. exists (S f1). intros f Hf. destruct f as [|f]; [lia|].
  rewrite peg_rep. rewrite (eff_of_spec s _ WS) by exact Hw. rewrite effw_WS, H1 by lia. reflexivity.
Qed.
End Comb.

(* ------------------------------------------------------------------------------------------- *)
(* 2. positions in the rendering of a token list                                                 *)
(* ------------------------------------------------------------------------------------------- *)
Definition tok_wf (dw : list char) (t : token) : Prop :=
  spell t <> [] /\ Forall (fun c => mem_char c dw = false) (spell t).

Definition sep (pre rest : list token) : str :=
  match pre, rest with [], _ => [] | _, [] => [] | _ :: _, _ :: _ => [SP] end.

Lemma render_cons t r : render (t :: r) = spell t ++ sep [t] r ++ render r.
Proof. destruct r; cbn; [rewrite app_nil_r; reflexivity|reflexivity]. Qed.

Lemma sep_cons t pre rest : rest <> [] -> sep (t :: pre) rest = [SP].
Proof. destruct rest; [congruence|reflexivity]. Qed.

Lemma render_app pre : forall rest, render (pre ++ rest) = render pre ++ sep pre rest ++ render rest.
Proof.
  induction pre as [|t pre IH]; intros rest; [reflexivity|].
  cbn [app]. rewrite render_cons, IH, render_cons.
  destruct pre as [|t' pre]; [cbn; destruct rest; cbn; rewrite ?app_nil_r; reflexivity|].
  destruct rest as [|u rest]; cbn [sep app]; rewrite <- ?app_assoc; cbn [app]; rewrite ?app_nil_r; reflexivity.
Qed.

Lemma skip_white_nil w : skip_white [] 0 w = 0.
Proof. reflexivity. Qed.
Lemma skip_white_nonwhite c u w : mem_char c w = false -> skip_white (c :: u) 0 w = 0.
Proof. intros H. unfold skip_white. cbn. rewrite H. reflexivity. Qed.

Section Pos.
Variable dw : list char.
Variable all : list token.
Hypothesis Hsp : mem_char SP dw = true.
Hypothesis Hwf : Forall (tok_wf dw) all.
Let s := render all.

Definition pos (rest : list token) : nat := length (render (firstn (length all - length rest) all)).
Definition spos (rest : list token) : nat := sw s dw (pos rest).
Definition suffix (rest : list token) : Prop := exists pre, all = pre ++ rest.

Lemma pos_pre pre rest : all = pre ++ rest -> pos rest = length (render pre).
Proof.
  intros E. unfold pos. rewrite E, app_length. replace (length pre + length rest - length rest) with (length pre) by lia.
  rewrite firstn_app, Nat.sub_diag, firstn_all. cbn. rewrite app_nil_r. reflexivity.
Qed.

Lemma suffix_tl t r : suffix (t :: r) -> suffix r.
Proof. intros [pre E]. exists (pre ++ [t]). rewrite <- app_assoc. exact E. Qed.
Lemma suffix_all : suffix all.
Proof. exists []. reflexivity. Qed.

Lemma wf_suffix rest : suffix rest -> Forall (tok_wf dw) rest.
Proof. intros [pre E]. rewrite E in Hwf. apply Forall_app in Hwf. apply Hwf. Qed.

Lemma render_head_nonwhite t r : tok_wf dw t -> exists c u, render (t :: r) = c :: u /\ mem_char c dw = false.
Proof.
  intros [Hne Hall]. rewrite render_cons. destruct (spell t) as [|c m]; [congruence|].
  exists c, (m ++ sep [t] r ++ render r). split; [reflexivity|]. inversion Hall; assumption.
Qed.

(* the text from the (whitespace-skipped) position of `rest` on is the rendering of `rest` *)
Lemma spos_split rest : suffix rest -> exists X, s = X ++ render rest /\ spos rest = length X.
Proof.
  intros [pre E]. pose proof (wf_suffix rest (ex_intro _ pre E)) as Hr.
  unfold spos. rewrite (pos_pre pre rest E). unfold s. rewrite E, render_app.
  exists (render pre ++ sep pre rest). split; [rewrite app_assoc; reflexivity|].
  unfold sw. destruct rest as [|t r].
  - assert (sep pre [] = []) as -> by (destruct pre; reflexivity). cbn [render]. rewrite !app_nil_r.
    rewrite <- (Nat.add_0_r (length (render pre))) at 1.
    rewrite <- (app_nil_r (render pre)) at 1. rewrite skip_white_app. cbn. lia.
  - inversion Hr as [|? ? Ht _]; subst.
    destruct (render_head_nonwhite t r Ht) as [c [u [Eu Hc]]]. rewrite Eu.
    destruct pre as [|p pre].
    + cbn [sep render app length]. apply skip_white_nonwhite. exact Hc.
    + rewrite sep_cons by discriminate. rewrite app_length. cbn [length].
      rewrite <- (Nat.add_0_r (length (render (p :: pre)))) at 1. rewrite skip_white_app.
      rewrite (skip_white_absorb [SP] (c :: u) dw).
      * rewrite skip_white_nonwhite by exact Hc. cbn. lia.
      * intros d [<-|[]]. exact Hsp.
Qed.

Lemma pos_next t r : suffix (t :: r) -> pos r = spos (t :: r) + length (spell t).
Proof.
  intros [pre E].
  assert (E' : all = (pre ++ [t]) ++ r) by (rewrite <- app_assoc; exact E).
  rewrite (pos_pre _ _ E'). destruct (spos_split (t :: r) (ex_intro _ pre E)) as [X [EX ->]].
  rewrite render_app, !app_length. cbn [render].
  assert (HX : length X = length (render pre) + length (sep pre (t :: r))).
  { assert (L : length s = length X + length (render (t :: r))) by (rewrite EX, app_length; reflexivity).
    unfold s in L. rewrite E, render_app, !app_length in L. lia. }
  rewrite HX. destruct pre; cbn; lia.
Qed.

Lemma pos_nil : pos [] = length s.
Proof. unfold pos, s. cbn [length]. rewrite Nat.sub_0_r, firstn_all. reflexivity. Qed.
Lemma spos_nil : spos [] = length s.
Proof.
  destruct (spos_split [] (ex_intro _ all (eq_sym (app_nil_r all)))) as [X [EX ->]].
  cbn [render] in EX. rewrite app_nil_r in EX. rewrite EX. reflexivity.
Qed.
Lemma pos_all : pos all = 0.
Proof. unfold pos. rewrite Nat.sub_diag. reflexivity. Qed.

Lemma spos_ge rest : pos rest <= spos rest.
Proof. apply skip_white_ge. Qed.

Lemma pos_lt t r : suffix (t :: r) -> pos (t :: r) < pos r.
Proof.
  intros H. rewrite (pos_next t r H). pose proof (spos_ge (t :: r)).
  pose proof (wf_suffix _ H) as Hr. inversion Hr as [|? ? [Hne _] _]; subst.
  destruct (spell t); [congruence|]. cbn [length]. lia.
Qed.

(* a strictly shorter suffix lies strictly further right *)
Lemma pos_mono r2 : forall m, suffix (m ++ r2) -> m <> [] -> pos (m ++ r2) < pos r2.
Proof.
  induction m as [|t m IH]; intros H1 Hne; [congruence|].
  cbn [app] in *. pose proof (pos_lt _ _ H1) as P1.
  destruct m as [|t' m]; [exact P1|].
  assert (P2 : pos ((t' :: m) ++ r2) < pos r2) by (apply IH; [eapply suffix_tl; exact H1|discriminate]).
  lia.
Qed.

Lemma pos_le_len rest : suffix rest -> pos rest <= length s.
Proof.
  intros [pre E]. rewrite (pos_pre pre rest E). unfold s. rewrite E, render_app, !app_length. lia.
Qed.
Lemma len_tokens_le : forall l : list token, Forall (tok_wf dw) l -> length l <= length (render l).
Proof.
  induction 1 as [|t l [Hne _] _ IH]; [cbn; lia|]. rewrite render_cons, !app_length. cbn [length].
  destruct (spell t); [congruence|]. cbn [length]. lia.
Qed.
End Pos.

(* ------------------------------------------------------------------------------------------- *)
(* 3. facts about `climb_f` alone (token level)                                                  *)
(* ------------------------------------------------------------------------------------------- *)
Lemma peek_some ops ts o r : peek_op ops ts = Some (o, r) -> ts = TOp o :: r /\ mem_str o ops = true.
Proof.
  destruct ts as [|[x|o'] r0]; cbn; try discriminate. destruct (mem_str o' ops) eqn:E; [|discriminate].
  intros H. injection H as <- <-. split; [reflexivity|exact E].
Qed.

(* "the result is what is left after reading at least one token" *)
Definition consumes (ts r : list token) : Prop := exists m, ts = m ++ r /\ m <> [].
Definition consumes0 (ts r : list token) : Prop := exists m, ts = m ++ r.

Lemma consumes_trans0 a b c : consumes a b -> consumes0 b c -> consumes a c.
Proof. intros [m [-> Hm]] [m' ->]. exists (m ++ m'). split; [rewrite app_assoc; reflexivity|destruct m; [congruence|discriminate]]. Qed.
Lemma consumes_trans a b c : consumes a b -> consumes b c -> consumes a c.
Proof. intros H [m' [E _]]. apply (consumes_trans0 a b c H). exists m'. exact E. Qed.
Lemma consumes_cons t r : consumes (t :: r) r.
Proof. exists [t]. split; [reflexivity|discriminate]. Qed.
Lemma consumes0_refl r : consumes0 r r.
Proof. exists []. reflexivity. Qed.
Lemma consumes_0 a b : consumes a b -> consumes0 a b.
Proof. intros [m [E _]]. exists m. exact E. Qed.
Lemma consumes0_trans a b c : consumes0 a b -> consumes0 b c -> consumes0 a c.
Proof. intros [m ->] [m' ->]. exists (m ++ m'). rewrite app_assoc. reflexivity. Qed.
Lemma consumes_len a b : consumes a b -> length b < length a.
Proof. intros [m [-> Hm]]. rewrite app_length. destruct m; [congruence|cbn; lia]. Qed.
Lemma consumes0_len a b : consumes0 a b -> length b <= length a.
Proof. intros [m ->]. rewrite app_length. lia. Qed.

Lemma post_loop_consumes ops : forall r acc acc' r', post_loop ops acc r = (acc', r') -> consumes0 r r'.
Proof.
  induction r as [|[x|o] r IH]; intros acc acc' r' H; cbn in H; try (injection H as _ <-; apply consumes0_refl).
  destruct (mem_str o ops); [|injection H as _ <-; apply consumes0_refl].
  apply IH in H. eapply consumes0_trans; [apply consumes_0, consumes_cons|exact H].
Qed.

Section LoopFacts.
Variable operand : list token -> cres.
Hypothesis Hop : forall r y r2, operand r = COk y r2 -> consumes r r2.

Lemma binl_loop_consumes ops : forall n acc r acc' r', binl_loop operand ops n acc r = Some (acc', r') -> consumes0 r r'.
Proof.
  induction n as [|n IH]; intros acc r acc' r' H; cbn in H; [discriminate|].
  destruct (peek_op ops r) as [[o r1]|] eqn:P; [|injection H as _ <-; apply consumes0_refl].
  apply peek_some in P. destruct P as [-> _].
  destruct (operand r1) as [| |y r2] eqn:O; [discriminate|injection H as _ <-; apply consumes0_refl|].
  apply IH in H. apply Hop in O.
  eapply consumes0_trans; [apply consumes_0, consumes_cons|]. eapply consumes0_trans; [apply consumes_0; exact O|exact H].
Qed.

Lemma ternl_loop_consumes o1 o2 : forall n acc r acc' r', ternl_loop operand o1 o2 n acc r = Some (acc', r') -> consumes0 r r'.
Proof.
  induction n as [|n IH]; intros acc r acc' r' H; cbn in H; [discriminate|].
  destruct (peek_op o1 r) as [[a r1]|] eqn:P; [|injection H as _ <-; apply consumes0_refl].
  apply peek_some in P. destruct P as [-> _].
  destruct (operand r1) as [| |y r2] eqn:O; [discriminate|injection H as _ <-; apply consumes0_refl|].
  destruct (peek_op o2 r2) as [[b r3]|] eqn:P2; [|injection H as _ <-; apply consumes0_refl].
  apply peek_some in P2. destruct P2 as [-> _].
  destruct (operand r3) as [| |z r4] eqn:O2; [discriminate|injection H as _ <-; apply consumes0_refl|].
  apply IH in H. apply Hop in O. apply Hop in O2.
  eapply consumes0_trans; [apply consumes_0, consumes_cons|]. eapply consumes0_trans; [apply consumes_0; exact O|].
  eapply consumes0_trans; [apply consumes_0, consumes_cons|]. eapply consumes0_trans; [apply consumes_0; exact O2|exact H].
Qed.

Lemma juxl_loop_consumes : forall n acc r acc' r', juxl_loop operand n acc r = Some (acc', r') -> consumes0 r r'.
Proof.
  induction n as [|n IH]; intros acc r acc' r' H; cbn in H; [discriminate|].
  destruct (operand r) as [| |y r2] eqn:O; [discriminate|injection H as _ <-; apply consumes0_refl|].
  apply IH in H. apply Hop in O. eapply consumes0_trans; [apply consumes_0; exact O|exact H].
Qed.
End LoopFacts.

Ltac inv_ok H := injection H as <- <-.

Lemma climb_consumes : forall f lv ts t r, climb_f f lv ts = COk t r -> consumes ts r.
Proof.
  induction f as [|f IH]; intros lv ts t r H; [discriminate|].
  destruct lv as [|l tighter]; cbn [climb_f] in H.
  - destruct ts as [|[x|o] r0]; try discriminate. inv_ok H. apply consumes_cons.
  - destruct l.
    + (* postfix *)
      destruct (climb_f f tighter ts) as [| |x r0] eqn:O; try discriminate.
      destruct (post_loop ops [] r0) as [acc r'] eqn:L. inv_ok H.
      eapply consumes_trans0; [apply (IH _ _ _ _ O)|eapply post_loop_consumes; exact L].
    + (* prefix *)
      destruct (peek_op ops ts) as [[o r0]|] eqn:P; [|apply (IH _ _ _ _ H)].
      apply peek_some in P. destruct P as [-> _].
      destruct (climb_f f (CPrefix ops :: tighter) r0) as [| |y r'] eqn:S; [discriminate|apply (IH _ _ _ _ H)|].
      inv_ok H. eapply consumes_trans; [apply consumes_cons|apply (IH _ _ _ _ S)].
    + (* binl *)
      destruct (climb_f f tighter ts) as [| |x r0] eqn:O; try discriminate.
      destruct (binl_loop (climb_f f tighter) ops f [] r0) as [[acc r']|] eqn:L; [|discriminate]. inv_ok H.
      eapply consumes_trans0; [apply (IH _ _ _ _ O)|]. eapply binl_loop_consumes; [|exact L]. intros; eapply IH; eassumption.
    + (* binr *)
      destruct (climb_f f tighter ts) as [| |x r0] eqn:O; try discriminate.
      destruct (peek_op ops r0) as [[o r1]|] eqn:P; [|inv_ok H; apply (IH _ _ _ _ O)].
      apply peek_some in P. destruct P as [-> _].
      destruct (climb_f f (CBinR ops :: tighter) r1) as [| |y r'] eqn:S; [discriminate|inv_ok H; apply (IH _ _ _ _ O)|].
      inv_ok H. eapply consumes_trans; [apply (IH _ _ _ _ O)|]. eapply consumes_trans; [apply consumes_cons|apply (IH _ _ _ _ S)].
    + (* juxl *)
      destruct (climb_f f tighter ts) as [| |x r0] eqn:O; try discriminate.
      destruct (juxl_loop (climb_f f tighter) f [] r0) as [[acc r']|] eqn:L; [|discriminate]. inv_ok H.
      eapply consumes_trans0; [apply (IH _ _ _ _ O)|]. eapply juxl_loop_consumes; [|exact L]. intros; eapply IH; eassumption.
    + (* juxr *)
      destruct (climb_f f tighter ts) as [| |x r0] eqn:O; try discriminate.
      destruct (climb_f f (CJuxR :: tighter) r0) as [| |y r'] eqn:S; [discriminate|inv_ok H; apply (IH _ _ _ _ O)|].
      inv_ok H. eapply consumes_trans; [apply (IH _ _ _ _ O)|apply (IH _ _ _ _ S)].
    + (* ternl *)
      destruct (climb_f f tighter ts) as [| |x r0] eqn:O; try discriminate.
      destruct (ternl_loop (climb_f f tighter) o1 o2 f [] r0) as [[acc r']|] eqn:L; [|discriminate]. inv_ok H.
      eapply consumes_trans0; [apply (IH _ _ _ _ O)|]. eapply ternl_loop_consumes; [|exact L]. intros; eapply IH; eassumption.
    + (* ternr *)
      destruct (climb_f f tighter ts) as [| |x r0] eqn:O; try discriminate.
      destruct (peek_op o1 r0) as [[a r1]|] eqn:P; [|inv_ok H; apply (IH _ _ _ _ O)].
      apply peek_some in P. destruct P as [-> _].
      destruct (climb_f f (CTernR o1 o2 :: tighter) r1) as [| |y r2] eqn:S; [discriminate|inv_ok H; apply (IH _ _ _ _ O)|].
      destruct (peek_op o2 r2) as [[b r3]|] eqn:P2; [|inv_ok H; apply (IH _ _ _ _ O)].
      apply peek_some in P2. destruct P2 as [-> _].
      destruct (climb_f f (CTernR o1 o2 :: tighter) r3) as [| |z r'] eqn:S2; [discriminate|inv_ok H; apply (IH _ _ _ _ O)|].
      inv_ok H. eapply consumes_trans; [apply (IH _ _ _ _ O)|]. eapply consumes_trans; [apply consumes_cons|].
      eapply consumes_trans; [apply (IH _ _ _ _ S)|]. eapply consumes_trans; [apply consumes_cons|apply (IH _ _ _ _ S2)].
Qed.

(* more fuel does not change an answer *)
Definition cle (c1 c2 : cres) : Prop := c1 = COut \/ c1 = c2.
Lemma binl_loop_mono op1 op2 ops : (forall r, cle (op1 r) (op2 r)) ->
  forall n acc r x, binl_loop op1 ops n acc r = Some x -> binl_loop op2 ops (S n) acc r = Some x.
Proof.
  intros Hle. induction n as [|n IH]; intros acc r x H; [discriminate|].
  cbn [binl_loop] in H. cbn [binl_loop]. destruct (peek_op ops r) as [[o r1]|]; [|exact H].
  destruct (Hle r1) as [E|E]; [rewrite E in H; discriminate|]. rewrite <- E.
  destruct (op1 r1); [discriminate|exact H|]. apply IH. exact H.
Qed.
Lemma ternl_loop_mono op1 op2 o1 o2 : (forall r, cle (op1 r) (op2 r)) ->
  forall n acc r x, ternl_loop op1 o1 o2 n acc r = Some x -> ternl_loop op2 o1 o2 (S n) acc r = Some x.
Proof.
  intros Hle. induction n as [|n IH]; intros acc r x H; [discriminate|].
  cbn [ternl_loop] in H. cbn [ternl_loop]. destruct (peek_op o1 r) as [[a r1]|]; [|exact H].
  destruct (Hle r1) as [E|E]; [rewrite E in H; discriminate|]. rewrite <- E.
  destruct (op1 r1) as [| |y r2]; [discriminate|exact H|].
  destruct (peek_op o2 r2) as [[b r3]|]; [|exact H].
  destruct (Hle r3) as [E3|E3]; [rewrite E3 in H; discriminate|]. rewrite <- E3.
  destruct (op1 r3); [discriminate|exact H|]. apply IH. exact H.
Qed.
Lemma juxl_loop_mono op1 op2 : (forall r, cle (op1 r) (op2 r)) ->
  forall n acc r x, juxl_loop op1 n acc r = Some x -> juxl_loop op2 (S n) acc r = Some x.
Proof.
  intros Hle. induction n as [|n IH]; intros acc r x H; [discriminate|].
  cbn [juxl_loop] in H. cbn [juxl_loop].
  destruct (Hle r) as [E|E]; [rewrite E in H; discriminate|]. rewrite <- E.
  destruct (op1 r); [discriminate|exact H|]. apply IH. exact H.
Qed.

(* one unfolding of climb_f, as a functional of the two recursive calls *)
Definition climb_step (operand self : list token -> cres) (n : nat) (l : clevel) (ts : list token) : cres :=
  let fin := fun x (o : option (list tok * list token)) =>
               match o with Some (acc, r') => COk (group x acc) r' | None => COut end in
  match l with
  | CPrefix ops =>
    match peek_op ops ts with
    | Some (o, r) => match self r with COk y r' => COk (TList [TStr o; y]) r' | CFail => operand ts | COut => COut end
    | None => operand ts
    end
  | CPostfix ops => match operand ts with COk x r => let '(acc, r') := post_loop ops [] r in COk (group x acc) r' | other => other end
  | CBinL ops => match operand ts with COk x r => fin x (binl_loop operand ops n [] r) | other => other end
  | CBinR ops =>
    match operand ts with
    | COk x r =>
      match peek_op ops r with
      | Some (o, r1) => match self r1 with COk y r' => COk (TList [x; TStr o; y]) r' | CFail => COk x r | COut => COut end
      | None => COk x r
      end
    | other => other
    end
  | CJuxL => match operand ts with COk x r => fin x (juxl_loop operand n [] r) | other => other end
  | CJuxR =>
    match operand ts with
    | COk x r => match self r with COk y r' => COk (TList [x; y]) r' | CFail => COk x r | COut => COut end
    | other => other
    end
  | CTernL o1 o2 => match operand ts with COk x r => fin x (ternl_loop operand o1 o2 n [] r) | other => other end
  | CTernR o1 o2 =>
    match operand ts with
    | COk x r =>
      match peek_op o1 r with
      | Some (a, r1) =>
        match self r1 with
        | COk y r2 =>
          match peek_op o2 r2 with
          | Some (b, r3) => match self r3 with COk z r' => COk (TList [x; TStr a; y; TStr b; z]) r' | CFail => COk x r | COut => COut end
          | None => COk x r
          end
        | CFail => COk x r
        | COut => COut
        end
      | None => COk x r
      end
    | other => other
    end
  end.

Lemma climb_f_S f l tighter ts :
  climb_f (S f) (l :: tighter) ts = climb_step (climb_f f tighter) (climb_f f (l :: tighter)) f l ts.
Proof. destruct l; reflexivity. Qed.
Lemma climb_f_S0 f ts : climb_f (S f) [] ts = match ts with TOperand x :: r => COk (TStr x) r | _ => CFail end.
Proof. reflexivity. Qed.

Lemma climb_step_mono o1 o2 s1 s2 n l ts :
  (forall r, cle (o1 r) (o2 r)) -> (forall r, cle (s1 r) (s2 r)) ->
  cle (climb_step o1 s1 n l ts) (climb_step o2 s2 (S n) l ts).
Proof.
  intros Ho Hs.
  assert (Hcase : forall ts', o1 ts' = COut \/ o2 ts' = o1 ts').
  { intros ts'. destruct (Ho ts') as [E|E]; [left; exact E|right; symmetry; exact E]. }
  assert (Hself : forall ts', s1 ts' = COut \/ s2 ts' = s1 ts').
  { intros ts'. destruct (Hs ts') as [E|E]; [left; exact E|right; symmetry; exact E]. }
  unfold climb_step. destruct l.
  - destruct (Hcase ts) as [E|E]; rewrite E; [left; reflexivity|right; reflexivity].
  - destruct (peek_op ops ts) as [[o r]|].
    + destruct (Hself r) as [E|E]; rewrite E; [left; reflexivity|].
      destruct (s1 r); [left; reflexivity| |right; reflexivity].
      destruct (Hcase ts) as [E2|E2]; rewrite E2; [left; reflexivity|right; reflexivity].
    + destruct (Hcase ts) as [E|E]; rewrite E; [left; reflexivity|right; reflexivity].
  - destruct (Hcase ts) as [E|E]; rewrite E; [left; reflexivity|].
    destruct (o1 ts) as [| |x r]; try (right; reflexivity).
    destruct (binl_loop o1 ops n [] r) as [p|] eqn:L; [|left; reflexivity].
    rewrite (binl_loop_mono _ _ ops Ho n [] r p L). right; reflexivity.
  - destruct (Hcase ts) as [E|E]; rewrite E; [left; reflexivity|].
    destruct (o1 ts) as [| |x r]; try (right; reflexivity).
    destruct (peek_op ops r) as [[o r1]|]; [|right; reflexivity].
    destruct (Hself r1) as [E2|E2]; rewrite E2; [left; reflexivity|right; reflexivity].
  - destruct (Hcase ts) as [E|E]; rewrite E; [left; reflexivity|].
    destruct (o1 ts) as [| |x r]; try (right; reflexivity).
    destruct (juxl_loop o1 n [] r) as [p|] eqn:L; [|left; reflexivity].
    rewrite (juxl_loop_mono _ _ Ho n [] r p L). right; reflexivity.
  - destruct (Hcase ts) as [E|E]; rewrite E; [left; reflexivity|].
    destruct (o1 ts) as [| |x r]; try (right; reflexivity).
    destruct (Hself r) as [E2|E2]; rewrite E2; [left; reflexivity|right; reflexivity].
  - destruct (Hcase ts) as [E|E]; rewrite E; [left; reflexivity|].
    destruct (o1 ts) as [| |x r]; try (right; reflexivity).
    destruct (ternl_loop o1 o0 o3 n [] r) as [p|] eqn:L; [|left; reflexivity].
    rewrite (ternl_loop_mono _ _ o0 o3 Ho n [] r p L). right; reflexivity.
  - destruct (Hcase ts) as [E|E]; rewrite E; [left; reflexivity|].
    destruct (o1 ts) as [| |x r]; try (right; reflexivity).
    destruct (peek_op o0 r) as [[a r1]|]; [|right; reflexivity].
    destruct (Hself r1) as [E2|E2]; rewrite E2; [left; reflexivity|].
    destruct (s1 r1) as [| |y r2]; try (right; reflexivity).
    destruct (peek_op o3 r2) as [[b r3]|]; [|right; reflexivity].
    destruct (Hself r3) as [E3|E3]; rewrite E3; [left; reflexivity|right; reflexivity].
Qed.

Lemma climb_mono_S : forall f lv ts, cle (climb_f f lv ts) (climb_f (S f) lv ts).
Proof.
  induction f as [|f IH]; intros lv ts; [left; reflexivity|].
  destruct lv as [|l tighter]; [right; reflexivity|].
  rewrite !climb_f_S. apply climb_step_mono; intros r; apply IH.
Qed.

Lemma climb_mono f f' lv ts c : f <= f' -> climb_f f lv ts = c -> c <> COut -> climb_f f' lv ts = c.
Proof.
  induction 1 as [|f' _ IH]; intros E N; [exact E|].
  destruct (climb_mono_S f' lv ts) as [X|X]; [rewrite IH in X by assumption; congruence|].
  rewrite <- X. apply IH; assumption.
Qed.

(* a right-associative level has read everything it can: what follows its result cannot continue it *)
Lemma climb_stop_binr ops tighter : forall f r1 y r2 o' r3,
  climb_f f (CBinR ops :: tighter) r1 = COk y r2 -> peek_op ops r2 = Some (o', r3) ->
  climb_f f (CBinR ops :: tighter) r3 = CFail.
Proof.
  induction f as [|f IH]; intros r1 y r2 o' r3 H P; [discriminate|].
  rewrite climb_f_S in H. unfold climb_step in H.
  destruct (climb_f f tighter r1) as [| |x ra] eqn:O; try discriminate.
  destruct (peek_op ops ra) as [[o1 rb]|] eqn:P1.
  - destruct (climb_f f (CBinR ops :: tighter) rb) as [| |y' rc] eqn:Sf; [discriminate| |].
    + injection H as <- <-. rewrite P1 in P. injection P as <- <-.
      apply (climb_mono f (S f)); [lia|exact Sf|discriminate].
    + injection H as <- <-. apply (climb_mono f (S f)); [lia|apply (IH _ _ _ _ _ Sf P)|discriminate].
  - injection H as <- <-. rewrite P1 in P. discriminate.
Qed.

Lemma climb_stop_juxr tighter : forall f r1 y r2,
  climb_f f (CJuxR :: tighter) r1 = COk y r2 -> climb_f f (CJuxR :: tighter) r2 = CFail.
Proof.
  induction f as [|f IH]; intros r1 y r2 H; [discriminate|].
  rewrite climb_f_S in H. unfold climb_step in H.
  destruct (climb_f f tighter r1) as [| |x ra] eqn:O; try discriminate.
  destruct (climb_f f (CJuxR :: tighter) ra) as [| |y' rc] eqn:Sf; [discriminate| |].
  - injection H as <- <-. apply (climb_mono f (S f)); [lia|exact Sf|discriminate].
  - injection H as <- <-. apply (climb_mono f (S f)); [lia|apply (IH _ _ _ Sf)|discriminate].
Qed.

(* ---- the environment that infix_gen lays out, and the root ---- *)
Definition ret_of (dw : list char) (ids : nat -> nat * nat) (rsk : bool) : expr := mk_fwd dw ids (code 0 rRET) rsk 0.
Definition operand_of (dw : list char) (ids : nat -> nat * nat) (base lpar rpar : expr) (rsk : bool) : expr :=
  let nested_sk := first_sk lpar (sk_of lpar) in
  let ret := ret_of dw ids rsk in
  let nested0 := mk_and dw ids (code 0 rNESTED) (sk_of lpar) lpar [lpar; ret; rpar] [] in
  let nested := match nested0 with
                | Nary a i k es => Nary (mka ids (code 0 rNESTED) (aslist a) (skipws a) (white a) (callpre a) (mayidx a) true true []) i k es
                | other => other end in
  let operand2 := if is_suppress lpar && is_suppress rpar then nested
                  else mk_enh ids (code 0 rNGROUP) (EGroup false) true nested_sk nested in
  mk_mf dw ids (code 0 rOPERAND) false [base; operand2].

Lemma infix_gen_eq la dw ids base table lpar rpar :
  infix_gen la dw ids base table lpar rpar =
  let sk0 := sk_of base && first_sk lpar (sk_of lpar) in
  let rsk := fold_left this_skip table sk0 in
  let operand := operand_of dw ids base lpar rpar rsk in
  let '(last, _, bodies) := mk_levels la dw ids (length table) 1 operand sk0 table [] in
  (match table with [] => [operand] | _ => last :: bodies end, ret_of dw ids rsk).
Proof.
  unfold infix_gen, operand_of, ret_of. cbv zeta.
  destruct (mk_levels la dw ids (length table) 1 _ _ table []) as [[last sk] bodies]. destruct table; reflexivity.
Qed.

Lemma mk_levels_snd_app la dw ids n : forall table k last lsk acc,
  snd (mk_levels la dw ids n k last lsk table acc) = snd (mk_levels la dw ids n k last lsk table []) ++ acc.
Proof.
  induction table as [|lv rest IH]; intros k last lsk acc; cbn [mk_levels]; [reflexivity|].
  destruct (mk_level la dw ids k (n - k + 1) last lsk lv) as [this body].
  rewrite (IH (S k) this _ (body :: acc)), (IH (S k) this _ [body]). rewrite <- app_assoc. reflexivity.
Qed.
Lemma mk_levels_len la dw ids n : forall table k last lsk acc,
  length (snd (mk_levels la dw ids n k last lsk table acc)) = length table + length acc.
Proof.
  induction table as [|lv rest IH]; intros k last lsk acc; cbn [mk_levels]; [reflexivity|].
  destruct (mk_level la dw ids k (n - k + 1) last lsk lv) as [this body]. rewrite IH. cbn [length]. lia.
Qed.
Lemma mk_levels_nil_last la dw ids n k last lsk acc : mk_levels la dw ids n k last lsk [] acc = (last, lsk, acc).
Proof. reflexivity. Qed.

(* ------------------------------------------------------------------------------------------- *)
(* 4. one level of the reference grammar against one step of climbing                             *)
(* ------------------------------------------------------------------------------------------- *)
Section Levels.
Variable dw : list char.
Variable all : list token.
Hypothesis Hsp : mem_char SP dw = true.
Hypothesis Hwf : Forall (tok_wf dw) all.
Let s := render all.
Variable G : env.
Notation F := (pegF G s).
Notation ps := (pos all).
Notation sps := (spos dw all).
Notation suf := (suffix all).

Definition atp (rest : list token) (loc : nat) : Prop := loc = ps rest \/ loc = sps rest.
Lemma sw_at rest loc : atp rest loc -> sw s dw loc = sps rest.
Proof. intros [->| ->]; [reflexivity|]. unfold spos, sw. apply skip_white_idem. Qed.
Lemma atp_pos rest : atp rest (ps rest).
Proof. left; reflexivity. Qed.
Lemma atp_spos rest : atp rest (sps rest).
Proof. right; reflexivity. Qed.
Lemma atp_eff rest loc e : white (attrs_of e) = dw -> atp rest loc -> atp rest (eff s e loc).
Proof.
  intros Hw H. unfold eff. rewrite Hw. destruct (callpre (attrs_of e) && skipws (attrs_of e)); [|exact H].
  right. apply (sw_at rest loc H).
Qed.

Definition res_of (c : cres) : res := match c with COk t r => POk (ps r) [t] | _ => PFail end.
(* the element reads as the token-level function fn, from the raw and from the whitespace-skipped position *)
Definition reads (X : expr) (fn : list token -> cres) : Prop :=
  forall rest, suf rest -> fn rest <> COut -> forall loc, atp rest loc -> F X loc (res_of (fn rest)).
Definition op_res (ms : list str) (rest : list token) : res :=
  match peek_op ms rest with Some (o, r) => POk (ps r) [TStr o] | None => PFail end.
Definition reads_op (e : expr) (ms : list str) : Prop :=
  forall rest, suf rest -> forall loc, atp rest loc -> F e loc (op_res ms rest).

Lemma suf_consumes0 a b : suf a -> consumes0 a b -> suf b.
Proof. intros [pre E] [m ->]. exists (pre ++ m). rewrite <- app_assoc. exact E. Qed.
Lemma suf_consumes a b : suf a -> consumes a b -> suf b.
Proof. intros H C. apply (suf_consumes0 a b H (consumes_0 _ _ C)). Qed.
Lemma pos_consumes a b : suf a -> consumes a b -> ps a < ps b.
Proof. intros H [m [-> Hm]]. apply (pos_mono dw all Hsp Hwf b m H Hm). Qed.
Lemma len_suf r : suf r -> length r < length s + 3.
Proof.
  intros [pre E]. pose proof (len_tokens_le dw all Hwf) as L. unfold s.
  assert (length r <= length all) by (rewrite E, app_length; lia). lia.
Qed.

Section Shape.
Variables last this : expr.
Variables opnd self : list token -> cres.
Hypothesis Hlast : reads last opnd.
Hypothesis Hself : reads this self.
Hypothesis Hco : forall r y r2, opnd r = COk y r2 -> consumes r r2.
Hypothesis Hcs : forall r y r2, self r = COk y r2 -> consumes r r2.
Hypothesis Htail : forall loc r, F last loc r -> firstF G s (mf_items last) loc r.
Variables a1 aG aA : attrs.
Hypothesis Ha1 : callpre a1 = false.
Hypothesis HaG : wspec aG = WS dw.
Hypothesis HaA : wspec aA = WS dw.

Definition bodyS (seq : list expr) : expr :=
  Nary a1 [] NMatchFirst (Enh aG [] (EGroup false) (Nary aA [] NAnd seq) :: mf_items last).

Lemma sw_sps rest : sw s dw (sps rest) = sps rest.
Proof. apply (sw_at rest). apply atp_spos. Qed.

Lemma body_grp_ok seq rest l ts : seqF G s seq (sps rest) [] (POk l ts) -> F (bodyS seq) (sps rest) (POk l [TList ts]).
Proof.
  intros H. apply F_mf; [exact Ha1|]. apply first_ok. apply F_group_ok with (dw := dw); [exact HaG|].
  rewrite sw_sps. apply F_and with (dw := dw); [exact HaA|]. rewrite sw_sps. exact H.
Qed.
Lemma body_grp_fail seq rest r : seqF G s seq (sps rest) [] PFail -> F last (sps rest) r -> F (bodyS seq) (sps rest) r.
Proof.
  intros H HL. apply F_mf; [exact Ha1|]. apply first_fail; [|apply Htail; exact HL].
  apply F_group_fail with (dw := dw); [exact HaG|].
  rewrite sw_sps. apply F_and with (dw := dw); [exact HaA|]. rewrite sw_sps. exact H.
Qed.

(* Group(last + rep) | last, where `rep` reads as `loopfn` *)
Definition rep_reads (rep : expr) (loopfn : list token -> option (list tok * list token)) : Prop :=
  forall r, suf r -> forall acc r', loopfn r = Some (acc, r') ->
    match acc with
    | [] => r' = r /\ F rep (ps r) PFail
    | _ :: _ => F rep (ps r) (POk (ps r') acc)
    end.

Lemma shape_last_rep rep loopfn rest :
  rep_reads rep loopfn -> suf rest ->
  let result := match opnd rest with
                | COk x r => match loopfn r with Some (acc, r') => COk (group x acc) r' | None => COut end
                | other => other
                end in
  result <> COut -> F (bodyS [last; rep]) (sps rest) (res_of result).
Proof.
  intros Hrep Hs result N. subst result.
  pose proof (Hlast rest Hs) as HL.
  destruct (opnd rest) as [| |x r] eqn:O; [congruence| |].
  - specialize (HL ltac:(discriminate) _ (atp_spos rest)). cbn [res_of] in *.
    apply body_grp_fail; [apply seq_fail; exact HL|exact HL].
  - specialize (HL ltac:(discriminate) _ (atp_spos rest)). cbn [res_of] in HL.
    assert (Hr : suf r) by (eapply suf_consumes; [exact Hs|eapply Hco; exact O]).
    destruct (loopfn r) as [[acc r']|] eqn:L; [|congruence].
    pose proof (Hrep r Hr acc r' L) as HR. destruct acc as [|a acc].
    + destruct HR as [-> HR]. cbn [group res_of].
      apply body_grp_fail; [|exact HL]. eapply seq_ok; [exact HL|]. apply seq_fail. exact HR.
    + cbn [group res_of]. apply body_grp_ok.
      eapply seq_ok; [exact HL|]. eapply seq_ok; [exact HR|]. cbn [app]. apply seq_nil.
Qed.
End Shape.

(* ---- the repeated parts ---- *)
Lemma F_rep_ok' a i b loc l ts r :
  F b (eff s (Rep a i false b None) loc) (POk l ts) -> starF G s (length s + 3) b l ts r -> F (Rep a i false b None) loc r.
Proof.
  intros [f1 H1] [f2 H2]. exists (S (Nat.max f1 f2)). intros f Hf. destruct f as [|f]; [lia|].
  rewrite peg_rep. rewrite H1 by lia. apply H2. lia.
Qed.
Lemma F_rep_fail' a i b loc : F b (eff s (Rep a i false b None) loc) PFail -> F (Rep a i false b None) loc PFail.
Proof.
  intros [f1 H1]. exists (S f1). intros f Hf. destruct f as [|f]; [lia|]. rewrite peg_rep. rewrite H1 by lia. reflexivity.
Qed.

Lemma star_stop' e loc acc : F e loc PFail -> starF G s (length s + 3) e loc acc (POk loc acc).
Proof. replace (length s + 3) with (S (length s + 2)) by lia. apply star_stop. Qed.

Lemma peek_suf ops r o r1 : suf r -> peek_op ops r = Some (o, r1) -> suf r1 /\ consumes r r1.
Proof. intros H P. apply peek_some in P. destruct P as [-> _]. split; [eapply suffix_tl; exact H|apply consumes_cons]. Qed.

(* postfix: op[1, ...] *)
Section Post.
Variables (op : expr) (ops : list str).
Hypothesis Hop : reads_op op ops.
Variable aR : attrs.
Variable iR : list expr.
Hypothesis HaRw : white aR = dw.

Lemma post_loop_acc : forall r acc acc' r', post_loop ops acc r = (acc', r') -> exists more, acc' = acc ++ more.
Proof.
  induction r as [|[x|o] r IH]; intros acc acc' r' H; cbn in H; try (injection H as <- _; exists []; rewrite app_nil_r; reflexivity).
  destruct (mem_str o ops); [|injection H as <- _; exists []; rewrite app_nil_r; reflexivity].
  apply IH in H. destruct H as [more ->]. exists ([TStr o] ++ more). rewrite app_assoc. reflexivity.
Qed.

Lemma star_post : forall r acc acc' r', post_loop ops acc r = (acc', r') -> suf r ->
  forall N, length r < N -> starF G s N op (ps r) acc (POk (ps r') acc').
Proof.
  induction r as [|t r IH]; intros acc acc' r' H Hs N HN; (destruct N as [|N]; [lia|]).
  - cbn in H. injection H as <- <-. apply star_stop. apply (Hop [] Hs _ (atp_pos [])).
  - pose proof (Hop (t :: r) Hs _ (atp_pos (t :: r))) as HO. unfold op_res in HO.
    destruct t as [x|o]; cbn [post_loop peek_op] in H, HO.
    + injection H as <- <-. apply star_stop. exact HO.
    + destruct (mem_str o ops).
      * eapply star_step; [exact HO| |].
        -- pose proof (pos_lt dw all Hsp Hwf _ _ Hs). lia.
        -- apply IH; [exact H|eapply suffix_tl; exact Hs|cbn in HN; lia].
      * injection H as <- <-. apply star_stop. exact HO.
Qed.

Lemma rep_post : rep_reads (Rep aR iR false op None) (fun r => Some (post_loop ops [] r)).
Proof.
  intros r Hr acc r' L. injection L as L.
  assert (Hat : atp r (eff s (Rep aR iR false op None) (ps r))) by (apply atp_eff; [exact HaRw|apply atp_pos]).
  pose proof (Hop r Hr _ Hat) as HO. unfold op_res in HO.
  destruct r as [|[x|o] r0]; cbn [post_loop peek_op] in L, HO.
  - injection L as <- <-. split; [reflexivity|]. apply F_rep_fail'. exact HO.
  - injection L as <- <-. split; [reflexivity|]. apply F_rep_fail'. exact HO.
  - destruct (mem_str o ops).
    + destruct (post_loop_acc _ _ _ _ L) as [more ->]. cbn [app].
      eapply F_rep_ok'; [exact HO|]. change (TStr o :: more) with (([] ++ [TStr o]) ++ more).
      apply star_post; [exact L|eapply suffix_tl; exact Hr|]. apply len_suf. eapply suffix_tl; exact Hr.
    + injection L as <- <-. split; [reflexivity|]. apply F_rep_fail'. exact HO.
Qed.
End Post.

(* And([op; X]) where X reads as fn *)
Section OpX.
Variables (op : expr) (ops : list str).
Hypothesis Hop : reads_op op ops.
Variables (X : expr) (fn : list token -> cres).
Hypothesis HX : reads X fn.
Hypothesis Hcx : forall r y r2, fn r = COk y r2 -> consumes r r2.
Variable aB : attrs.
Hypothesis HaB : wspec aB = WS dw.

Definition opx_res (r : list token) : res :=
  match peek_op ops r with
  | Some (o, r1) => match fn r1 with COk y r2 => POk (ps r2) [TStr o; y] | _ => PFail end
  | None => PFail
  end.

Lemma B_opx r loc : suf r -> atp r loc -> (forall o r1, peek_op ops r = Some (o, r1) -> fn r1 <> COut) ->
  F (Nary aB [] NAnd [op; X]) loc (opx_res r).
Proof.
  intros Hr Hat Hn. apply F_and with (dw := dw); [exact HaB|]. rewrite (sw_at r loc Hat).
  pose proof (Hop r Hr _ (atp_spos r)) as HO. unfold op_res in HO. unfold opx_res.
  destruct (peek_op ops r) as [[o r1]|] eqn:P; [|apply seq_fail; exact HO].
  destruct (peek_suf _ _ _ _ Hr P) as [Hr1 _].
  pose proof (HX r1 Hr1 (Hn o r1 eq_refl) _ (atp_pos r1)) as H1.
  destruct (fn r1) as [| |y r2] eqn:E; [exfalso; apply (Hn o r1 eq_refl); exact E| |]; cbn [res_of] in H1.
  - eapply seq_ok; [exact HO|]. apply seq_fail. exact H1.
  - eapply seq_ok; [exact HO|]. eapply seq_ok; [exact H1|]. apply seq_nil.
Qed.
End OpX.

(* left-associative binary: (op + last)[1, ...] *)
Section BinL.
Variables (last : expr) (opnd : list token -> cres).
Hypothesis Hlast : reads last opnd.
Hypothesis Hco : forall r y r2, opnd r = COk y r2 -> consumes r r2.
Variables (op : expr) (ops : list str).
Hypothesis Hop : reads_op op ops.
Variables aB aR : attrs.
Hypothesis HaB : wspec aB = WS dw.
Hypothesis HaR : wspec aR = WS dw.
Notation B := (Nary aB [] NAnd [op; last]).

Lemma binl_loop_acc : forall n acc r acc' r', binl_loop opnd ops n acc r = Some (acc', r') -> exists more, acc' = acc ++ more.
Proof.
  induction n as [|n IH]; intros acc r acc' r' H; cbn in H; [discriminate|].
  destruct (peek_op ops r) as [[o r1]|]; [|injection H as <- _; exists []; rewrite app_nil_r; reflexivity].
  destruct (opnd r1) as [| |y r2]; [discriminate|injection H as <- _; exists []; rewrite app_nil_r; reflexivity|].
  apply IH in H. destruct H as [more ->]. exists ([TStr o; y] ++ more). rewrite app_assoc. reflexivity.
Qed.

Lemma star_binl : forall n acc r acc' r', binl_loop opnd ops n acc r = Some (acc', r') -> suf r ->
  forall N, length r < N -> starF G s N B (ps r) acc (POk (ps r') acc').
Proof.
  induction n as [|n IH]; intros acc r acc' r' H Hr N HN; [discriminate|]. destruct N as [|N]; [lia|].
  cbn [binl_loop] in H.
  assert (HB : (forall o r1, peek_op ops r = Some (o, r1) -> opnd r1 <> COut) -> F B (ps r) (opx_res ops opnd r)).
  { intros Hn. apply (B_opx op ops Hop last opnd Hlast aB HaB r _ Hr (atp_pos r) Hn). }
  unfold opx_res in HB.
  destruct (peek_op ops r) as [[o r1]|] eqn:P.
  - destruct (peek_suf _ _ _ _ Hr P) as [Hr1 Hc1].
    destruct (opnd r1) as [| |y r2] eqn:O; [discriminate| |].
    + injection H as <- <-. apply star_stop. apply HB. intros o' r1' E. injection E as <- <-. rewrite O. discriminate.
    + pose proof (Hco _ _ _ O) as Hc2.
      eapply star_step; [apply HB; intros o' r1' E; injection E as <- <-; rewrite O; discriminate| |].
      * pose proof (pos_consumes _ _ Hr (consumes_trans _ _ _ Hc1 Hc2)). lia.
      * apply IH; [exact H|eapply suf_consumes; [exact Hr1|exact Hc2]|].
        pose proof (consumes_len _ _ Hc1). pose proof (consumes_len _ _ Hc2). lia.
  - injection H as <- <-. apply star_stop. apply HB. intros o r1 E. discriminate.
Qed.

Lemma rep_binl n : rep_reads (Rep aR [] false B None) (binl_loop opnd ops n []).
Proof.
  intros r Hr acc r' L. destruct n as [|n]; [discriminate|]. cbn [binl_loop] in L.
  assert (HB : (forall o r1, peek_op ops r = Some (o, r1) -> opnd r1 <> COut) -> F B (sw s dw (ps r)) (opx_res ops opnd r)).
  { intros Hn. apply (B_opx op ops Hop last opnd Hlast aB HaB r _ Hr (atp_spos r) Hn). }
  unfold opx_res in HB.
  destruct (peek_op ops r) as [[o r1]|] eqn:P.
  - destruct (peek_suf _ _ _ _ Hr P) as [Hr1 Hc1].
    destruct (opnd r1) as [| |y r2] eqn:O; [discriminate| |].
    + injection L as <- <-. split; [reflexivity|]. apply F_rep_fail with (dw := dw); [exact HaR|].
      apply HB. intros o' r1' E. injection E as <- <-. rewrite O. discriminate.
    + destruct (binl_loop_acc _ _ _ _ _ L) as [more ->]. cbn [app].
      eapply F_rep_ok with (dw := dw); [exact HaR|apply HB; intros o' r1' E; injection E as <- <-; rewrite O; discriminate|].
      change (TStr o :: y :: more) with (([] ++ [TStr o; y]) ++ more).
      pose proof (Hco _ _ _ O) as Hc2. assert (Hr2 : suf r2) by (eapply suf_consumes; eassumption).
      apply star_binl with (n := n); [exact L|exact Hr2|apply len_suf; exact Hr2].
  - injection L as <- <-. split; [reflexivity|]. apply F_rep_fail with (dw := dw); [exact HaR|].
    apply HB. intros o r1 E. discriminate.
Qed.
End BinL.

(* right-associative binary: (op + this)[1, ...] iterates exactly once *)
Section BinR.
Variables (this : expr) (self : list token -> cres).
Hypothesis Hself : reads this self.
Variables (op : expr) (ops : list str).
Hypothesis Hop : reads_op op ops.
Hypothesis Hstop : forall r1 y r2 o' r3, self r1 = COk y r2 -> peek_op ops r2 = Some (o', r3) -> self r3 = CFail.
Hypothesis Hcs : forall r y r2, self r = COk y r2 -> consumes r r2.
Variables aB aR : attrs.
Hypothesis HaB : wspec aB = WS dw.
Hypothesis HaR : wspec aR = WS dw.
Notation B := (Nary aB [] NAnd [op; this]).

Definition binr_loop (r : list token) : option (list tok * list token) :=
  match peek_op ops r with
  | Some (o, r1) => match self r1 with COk y r' => Some ([TStr o; y], r') | CFail => Some ([], r) | COut => None end
  | None => Some ([], r)
  end.

Lemma rep_binr : rep_reads (Rep aR [] false B None) binr_loop.
Proof.
  intros r Hr acc r' L. unfold binr_loop in L.
  assert (HB : forall r0 loc, suf r0 -> atp r0 loc -> (forall o r1, peek_op ops r0 = Some (o, r1) -> self r1 <> COut) ->
                              F B loc (opx_res ops self r0)).
  { intros r0 loc H0 Hat Hn. apply (B_opx op ops Hop this self Hself aB HaB r0 loc H0 Hat Hn). }
  pose proof (HB r _ Hr (atp_spos r)) as HB1. unfold opx_res in HB1.
  destruct (peek_op ops r) as [[o r1]|] eqn:P.
  - destruct (peek_suf _ _ _ _ Hr P) as [Hr1 Hc1].
    destruct (self r1) as [| |y r2] eqn:O; [discriminate| |].
    + injection L as <- <-. split; [reflexivity|]. apply F_rep_fail with (dw := dw); [exact HaR|].
      apply HB1. intros o' r1' E. injection E as <- <-. rewrite O. discriminate.
    + injection L as <- <-.
      pose proof (Hcs _ _ _ O) as Hc2. assert (Hr2 : suf r2) by (eapply suf_consumes; eassumption).
      eapply F_rep_ok with (dw := dw); [exact HaR|apply HB1; intros o' r1' E; injection E as <- <-; rewrite O; discriminate|].
      apply star_stop'.
      assert (Hn2 : forall o' r3, peek_op ops r2 = Some (o', r3) -> self r3 <> COut).
      { intros o' r3 P2. rewrite (Hstop _ _ _ _ _ O P2). discriminate. }
      pose proof (HB r2 _ Hr2 (atp_pos r2) Hn2) as HB2. unfold opx_res in HB2.
      destruct (peek_op ops r2) as [[o' r3]|] eqn:P2; [|exact HB2].
      rewrite (Hstop _ _ _ _ _ O P2) in HB2. exact HB2.
  - injection L as <- <-. split; [reflexivity|]. apply F_rep_fail with (dw := dw); [exact HaR|].
    apply HB1. intros o r1 E. discriminate.
Qed.
End BinR.

(* right-associative juxtaposition: this[1, ...] iterates exactly once *)
Section JuxR.
Variables (this : expr) (self : list token -> cres).
Hypothesis Hself : reads this self.
Hypothesis Hstop : forall r y r', self r = COk y r' -> self r' = CFail.
Hypothesis Hcs : forall r y r2, self r = COk y r2 -> consumes r r2.
Variable aR : attrs.
Hypothesis HaR : wspec aR = WS dw.

Definition juxr_loop (r : list token) : option (list tok * list token) :=
  match self r with COk y r' => Some ([y], r') | CFail => Some ([], r) | COut => None end.

Lemma rep_juxr : rep_reads (Rep aR [] false this None) juxr_loop.
Proof.
  intros r Hr acc r' L. unfold juxr_loop in L.
  destruct (self r) as [| |y r2] eqn:O; [discriminate| |].
  - injection L as <- <-. split; [reflexivity|]. apply F_rep_fail with (dw := dw); [exact HaR|].
    pose proof (Hself r Hr ltac:(rewrite O; discriminate) _ (atp_spos r)) as H. rewrite O in H. exact H.
  - injection L as <- <-.
    pose proof (Hcs _ _ _ O) as Hc2. assert (Hr2 : suf r2) by (eapply suf_consumes; eassumption).
    eapply F_rep_ok with (dw := dw); [exact HaR| |].
    + pose proof (Hself r Hr ltac:(rewrite O; discriminate) _ (atp_spos r)) as H. rewrite O in H. exact H.
    + apply star_stop'.
      pose proof (Hself r2 Hr2 ltac:(rewrite (Hstop _ _ _ O); discriminate) _ (atp_pos r2)) as H.
      rewrite (Hstop _ _ _ O) in H. exact H.
Qed.
End JuxR.

(* prefix operator: Group(op + this) | last *)
Section Prefix.
Variables last this : expr.
Variables opnd self : list token -> cres.
Hypothesis Hlast : reads last opnd.
Hypothesis Hself : reads this self.
Hypothesis Htail : forall loc r, F last loc r -> firstF G s (mf_items last) loc r.
Variables a1 aG aA : attrs.
Hypothesis Ha1 : callpre a1 = false.
Hypothesis HaG : wspec aG = WS dw.
Hypothesis HaA : wspec aA = WS dw.
Variables (op : expr) (ops : list str).
Hypothesis Hop : reads_op op ops.

Lemma shape_prefix rest : suf rest ->
  let result := match peek_op ops rest with
                | Some (o, r) => match self r with COk y r' => COk (TList [TStr o; y]) r' | CFail => opnd rest | COut => COut end
                | None => opnd rest
                end in
  result <> COut -> F (bodyS last a1 aG aA [op; this]) (sps rest) (res_of result).
Proof.
  intros Hs result N. subst result.
  pose proof (Hop rest Hs _ (atp_spos rest)) as HO. unfold op_res in HO.
  destruct (peek_op ops rest) as [[o r]|] eqn:P.
  - destruct (peek_suf _ _ _ _ Hs P) as [Hr _].
    destruct (self r) as [| |y r'] eqn:O; [congruence| |].
    + apply (body_grp_fail last Htail a1 aG aA Ha1 HaG HaA).
      * eapply seq_ok; [exact HO|]. apply seq_fail.
        pose proof (Hself r Hr ltac:(rewrite O; discriminate) _ (atp_pos r)) as H. rewrite O in H. exact H.
      * apply (Hlast rest Hs N _ (atp_spos rest)).
    + cbn [res_of]. apply (body_grp_ok last a1 aG aA Ha1 HaG HaA).
      eapply seq_ok; [exact HO|]. eapply seq_ok; [|apply seq_nil].
      pose proof (Hself r Hr ltac:(rewrite O; discriminate) _ (atp_pos r)) as H. rewrite O in H. exact H.
  - apply (body_grp_fail last Htail a1 aG aA Ha1 HaG HaA); [apply seq_fail; exact HO|].
    apply (Hlast rest Hs N _ (atp_spos rest)).
Qed.
End Prefix.

(* left-associative ternary: (op1 + last + op2 + last)[1, ...] *)
Section TernL.
Variables (last : expr) (opnd : list token -> cres).
Hypothesis Hlast : reads last opnd.
Hypothesis Hco : forall r y r2, opnd r = COk y r2 -> consumes r r2.
Variables (op1 op2 : expr) (ops1 ops2 : list str).
Hypothesis Hop1 : reads_op op1 ops1.
Hypothesis Hop2 : reads_op op2 ops2.
Variables aB aR : attrs.
Hypothesis HaB : wspec aB = WS dw.
Hypothesis HaR : wspec aR = WS dw.
Notation B := (Nary aB [] NAnd [op1; last; op2; last]).

(* the four-element sequence against one round of `ternl_loop` (nothing is claimed when the operand runs out of fuel) *)
Lemma B_tern r loc : suf r -> atp r loc ->
  match peek_op ops1 r with
  | Some (a, r1) =>
    match opnd r1 with
    | COut => True
    | CFail => F B loc PFail
    | COk y r2 =>
      match peek_op ops2 r2 with
      | Some (b, r3) =>
        match opnd r3 with
        | COut => True
        | CFail => F B loc PFail
        | COk z r4 => F B loc (POk (ps r4) [TStr a; y; TStr b; z])
        end
      | None => F B loc PFail
      end
    end
  | None => F B loc PFail
  end.
Proof.
  intros Hr Hat.
  assert (HA : forall res, seqF G s [op1; last; op2; last] (sps r) [] res -> F B loc res).
  { intros res H. apply F_and with (dw := dw); [exact HaB|]. rewrite (sw_at r loc Hat). exact H. }
  pose proof (Hop1 r Hr _ (atp_spos r)) as HO. unfold op_res in HO.
  destruct (peek_op ops1 r) as [[a r1]|] eqn:P; [|apply HA; apply seq_fail; exact HO].
  destruct (peek_suf _ _ _ _ Hr P) as [Hr1 _].
  destruct (opnd r1) as [| |y r2] eqn:E1; [exact I| |].
  - apply HA. eapply seq_ok; [exact HO|]. apply seq_fail.
    pose proof (Hlast r1 Hr1 ltac:(rewrite E1; discriminate) _ (atp_pos r1)) as H1. rewrite E1 in H1. exact H1.
  - pose proof (Hlast r1 Hr1 ltac:(rewrite E1; discriminate) _ (atp_pos r1)) as H1. rewrite E1 in H1. cbn [res_of] in H1.
    assert (Hr2 : suf r2) by (eapply suf_consumes; [exact Hr1|eapply Hco; exact E1]).
    pose proof (Hop2 r2 Hr2 _ (atp_pos r2)) as HO2. unfold op_res in HO2.
    destruct (peek_op ops2 r2) as [[b r3]|] eqn:P2;
      [|apply HA; eapply seq_ok; [exact HO|]; eapply seq_ok; [exact H1|]; apply seq_fail; exact HO2].
    destruct (peek_suf _ _ _ _ Hr2 P2) as [Hr3 _].
    destruct (opnd r3) as [| |z r4] eqn:E3; [exact I| |].
    + apply HA. eapply seq_ok; [exact HO|]. eapply seq_ok; [exact H1|]. eapply seq_ok; [exact HO2|]. apply seq_fail.
      pose proof (Hlast r3 Hr3 ltac:(rewrite E3; discriminate) _ (atp_pos r3)) as H3. rewrite E3 in H3. exact H3.
    + pose proof (Hlast r3 Hr3 ltac:(rewrite E3; discriminate) _ (atp_pos r3)) as H3. rewrite E3 in H3. cbn [res_of] in H3.
      apply HA. eapply seq_ok; [exact HO|]. eapply seq_ok; [exact H1|]. eapply seq_ok; [exact HO2|].
      eapply seq_ok; [exact H3|]. apply seq_nil.
Qed.

Lemma ternl_loop_acc : forall n acc r acc' r', ternl_loop opnd ops1 ops2 n acc r = Some (acc', r') -> exists more, acc' = acc ++ more.
Proof.
  induction n as [|n IH]; intros acc r acc' r' H; cbn in H; [discriminate|].
  destruct (peek_op ops1 r) as [[a r1]|]; [|injection H as <- _; exists []; rewrite app_nil_r; reflexivity].
  destruct (opnd r1) as [| |y r2]; [discriminate|injection H as <- _; exists []; rewrite app_nil_r; reflexivity|].
  destruct (peek_op ops2 r2) as [[b r3]|]; [|injection H as <- _; exists []; rewrite app_nil_r; reflexivity].
  destruct (opnd r3) as [| |z r4]; [discriminate|injection H as <- _; exists []; rewrite app_nil_r; reflexivity|].
  apply IH in H. destruct H as [more ->]. exists ([TStr a; y; TStr b; z] ++ more). rewrite app_assoc. reflexivity.
Qed.

Lemma star_ternl : forall n acc r acc' r', ternl_loop opnd ops1 ops2 n acc r = Some (acc', r') -> suf r ->
  forall N, length r < N -> starF G s N B (ps r) acc (POk (ps r') acc').
Proof.
  induction n as [|n IH]; intros acc r acc' r' H Hr N HN; [discriminate|]. destruct N as [|N]; [lia|].
  cbn [ternl_loop] in H.
  pose proof (B_tern r _ Hr (atp_pos r)) as HB.
  destruct (peek_op ops1 r) as [[a r1]|] eqn:P; [|injection H as <- <-; apply star_stop; exact HB].
  destruct (peek_suf _ _ _ _ Hr P) as [Hr1 Hc1].
  destruct (opnd r1) as [| |y r2] eqn:O; [discriminate|injection H as <- <-; apply star_stop; exact HB|].
  pose proof (Hco _ _ _ O) as Hc2. assert (Hr2 : suf r2) by (eapply suf_consumes; eassumption).
  destruct (peek_op ops2 r2) as [[b r3]|] eqn:P2; [|injection H as <- <-; apply star_stop; exact HB].
  destruct (peek_suf _ _ _ _ Hr2 P2) as [Hr3 Hc3].
  destruct (opnd r3) as [| |z r4] eqn:O3; [discriminate|injection H as <- <-; apply star_stop; exact HB|].
  pose proof (Hco _ _ _ O3) as Hc4. assert (Hr4 : suf r4) by (eapply suf_consumes; eassumption).
  eapply star_step; [exact HB| |].
  - pose proof (pos_consumes _ _ Hr (consumes_trans _ _ _ Hc1 (consumes_trans _ _ _ Hc2 (consumes_trans _ _ _ Hc3 Hc4)))). lia.
  - apply IH; [exact H|exact Hr4|].
    pose proof (consumes_len _ _ Hc1). pose proof (consumes_len _ _ Hc2).
    pose proof (consumes_len _ _ Hc3). pose proof (consumes_len _ _ Hc4). lia.
Qed.

Lemma rep_ternl n : rep_reads (Rep aR [] false B None) (ternl_loop opnd ops1 ops2 n []).
Proof.
  intros r Hr acc r' L. destruct n as [|n]; [discriminate|]. cbn [ternl_loop] in L.
  pose proof (B_tern r (sw s dw (ps r)) Hr (atp_spos r)) as HB.
  destruct (peek_op ops1 r) as [[a r1]|] eqn:P;
    [|injection L as <- <-; split; [reflexivity|]; apply F_rep_fail with (dw := dw); [exact HaR|exact HB]].
  destruct (peek_suf _ _ _ _ Hr P) as [Hr1 Hc1].
  destruct (opnd r1) as [| |y r2] eqn:O;
    [discriminate|injection L as <- <-; split; [reflexivity|]; apply F_rep_fail with (dw := dw); [exact HaR|exact HB]|].
  pose proof (Hco _ _ _ O) as Hc2. assert (Hr2 : suf r2) by (eapply suf_consumes; eassumption).
  destruct (peek_op ops2 r2) as [[b r3]|] eqn:P2;
    [|injection L as <- <-; split; [reflexivity|]; apply F_rep_fail with (dw := dw); [exact HaR|exact HB]].
  destruct (peek_suf _ _ _ _ Hr2 P2) as [Hr3 Hc3].
  destruct (opnd r3) as [| |z r4] eqn:O3;
    [discriminate|injection L as <- <-; split; [reflexivity|]; apply F_rep_fail with (dw := dw); [exact HaR|exact HB]|].
  pose proof (Hco _ _ _ O3) as Hc4. assert (Hr4 : suf r4) by (eapply suf_consumes; eassumption).
  destruct (ternl_loop_acc _ _ _ _ _ L) as [more ->]. cbn [app].
  eapply F_rep_ok with (dw := dw); [exact HaR|exact HB|].
  change (TStr a :: y :: TStr b :: z :: more) with (([] ++ [TStr a; y; TStr b; z]) ++ more).
  apply star_ternl with (n := n); [exact L|exact Hr4|apply len_suf; exact Hr4].
Qed.
End TernL.

(* right-associative ternary: Group(last + op1 + this + op2 + this) | last  (no repetition) *)
Section TernR.
Variables last this : expr.
Variables opnd self : list token -> cres.
Hypothesis Hlast : reads last opnd.
Hypothesis Hself : reads this self.
Hypothesis Hco : forall r y r2, opnd r = COk y r2 -> consumes r r2.
Hypothesis Hcs : forall r y r2, self r = COk y r2 -> consumes r r2.
Hypothesis Htail : forall loc r, F last loc r -> firstF G s (mf_items last) loc r.
Variables a1 aG aA : attrs.
Hypothesis Ha1 : callpre a1 = false.
Hypothesis HaG : wspec aG = WS dw.
Hypothesis HaA : wspec aA = WS dw.
Variables (op1 op2 : expr) (ops1 ops2 : list str).
Hypothesis Hop1 : reads_op op1 ops1.
Hypothesis Hop2 : reads_op op2 ops2.

Lemma shape_ternr rest : suf rest ->
  let result := match opnd rest with
                | COk x r =>
                  match peek_op ops1 r with
                  | Some (a, r1) =>
                    match self r1 with
                    | COk y r2 =>
                      match peek_op ops2 r2 with
                      | Some (b, r3) =>
                        match self r3 with
                        | COk z r' => COk (TList [x; TStr a; y; TStr b; z]) r'
                        | CFail => COk x r
                        | COut => COut
                        end
                      | None => COk x r
                      end
                    | CFail => COk x r
                    | COut => COut
                    end
                  | None => COk x r
                  end
                | other => other
                end in
  result <> COut -> F (bodyS last a1 aG aA [last; op1; this; op2; this]) (sps rest) (res_of result).
Proof.
  intros Hs result N. subst result.
  pose proof (Hlast rest Hs) as HL.
  destruct (opnd rest) as [| |x r] eqn:O; [congruence| |].
  - specialize (HL ltac:(discriminate) _ (atp_spos rest)). cbn [res_of] in *.
    apply (body_grp_fail last Htail a1 aG aA Ha1 HaG HaA); [apply seq_fail; exact HL|exact HL].
  - specialize (HL ltac:(discriminate) _ (atp_spos rest)). cbn [res_of] in HL.
    assert (Hr : suf r) by (eapply suf_consumes; [exact Hs|eapply Hco; exact O]).
    pose proof (Hop1 r Hr _ (atp_pos r)) as HO1. unfold op_res in HO1.
    destruct (peek_op ops1 r) as [[a r1]|] eqn:P1.
    2:{ cbn [res_of]. apply (body_grp_fail last Htail a1 aG aA Ha1 HaG HaA); [|exact HL].
        eapply seq_ok; [exact HL|]. apply seq_fail. exact HO1. }
    destruct (peek_suf _ _ _ _ Hr P1) as [Hr1 _].
    destruct (self r1) as [| |y r2] eqn:S1; [congruence| |].
    + cbn [res_of]. apply (body_grp_fail last Htail a1 aG aA Ha1 HaG HaA); [|exact HL].
      eapply seq_ok; [exact HL|]. eapply seq_ok; [exact HO1|]. apply seq_fail.
      pose proof (Hself r1 Hr1 ltac:(rewrite S1; discriminate) _ (atp_pos r1)) as H. rewrite S1 in H. exact H.
    + pose proof (Hself r1 Hr1 ltac:(rewrite S1; discriminate) _ (atp_pos r1)) as H1. rewrite S1 in H1. cbn [res_of] in H1.
      assert (Hr2 : suf r2) by (eapply suf_consumes; [exact Hr1|eapply Hcs; exact S1]).
      pose proof (Hop2 r2 Hr2 _ (atp_pos r2)) as HO2. unfold op_res in HO2.
      destruct (peek_op ops2 r2) as [[b r3]|] eqn:P2.
      2:{ cbn [res_of]. apply (body_grp_fail last Htail a1 aG aA Ha1 HaG HaA); [|exact HL].
          eapply seq_ok; [exact HL|]. eapply seq_ok; [exact HO1|]. eapply seq_ok; [exact H1|]. apply seq_fail. exact HO2. }
      destruct (peek_suf _ _ _ _ Hr2 P2) as [Hr3 _].
      destruct (self r3) as [| |z r'] eqn:S2; [congruence| |].
      * cbn [res_of]. apply (body_grp_fail last Htail a1 aG aA Ha1 HaG HaA); [|exact HL].
        eapply seq_ok; [exact HL|]. eapply seq_ok; [exact HO1|]. eapply seq_ok; [exact H1|]. eapply seq_ok; [exact HO2|].
        apply seq_fail.
        pose proof (Hself r3 Hr3 ltac:(rewrite S2; discriminate) _ (atp_pos r3)) as H. rewrite S2 in H. exact H.
      * pose proof (Hself r3 Hr3 ltac:(rewrite S2; discriminate) _ (atp_pos r3)) as H3. rewrite S2 in H3. cbn [res_of] in H3.
        cbn [res_of]. apply (body_grp_ok last a1 aG aA Ha1 HaG HaA).
        eapply seq_ok; [exact HL|]. eapply seq_ok; [exact HO1|]. eapply seq_ok; [exact H1|]. eapply seq_ok; [exact HO2|].
        eapply seq_ok; [exact H3|]. apply seq_nil.
Qed.
End TernR.

(* ---- the levels that mk_level builds ---- *)
Section Forms.
Variables (ids : nat -> nat * nat) (k idx : nat) (last : expr).
Hypothesis Hl : and_items last = [last].
Hypothesis Hlw : is_white_tok last = false.
Hypothesis Hlwh : white (attrs_of last) = dw.
Hypothesis Htail : forall loc r, F last loc r -> firstF G s (mf_items last) loc r.
Variable tighter : list clevel.
Hypothesis HL : forall f, reads last (climb_f f tighter).

(* what is required of an operator expression *)
Definition op_ok (op : expr) (ops : list str) : Prop :=
  and_items op = [op] /\ is_white_tok op = false /\ sk_of op = true /\ white (attrs_of op) = dw /\ reads_op op ops.

Notation lvl lv := (mk_level false dw ids k idx last true lv).

Lemma this_reads lv fn : this_skip true lv = true -> nth_error G idx = Some (snd (lvl lv)) ->
  (forall rest, suf rest -> fn rest <> COut -> F (snd (lvl lv)) (sps rest) (res_of (fn rest))) ->
  reads (fst (lvl lv)) fn.
Proof.
  intros Hts HG H rest Hs N loc Hat.
  assert (E : fst (lvl lv) = mk_fwd dw ids (code k rTHIS) (this_skip true lv) idx) by (destruct lv; reflexivity).
  rewrite E. unfold mk_fwd. eapply F_fwd with (dw := dw); [unfold wspec; cbn; rewrite Hts; reflexivity|exact HG|].
  rewrite (sw_at rest loc Hat). apply H; assumption.
Qed.

Ltac solve_ws :=
  unfold wspec, first_sk, sk_of in *; cbn;
  repeat match goal with
         | H : is_white_tok _ = false |- _ => rewrite H
         | H : white (attrs_of _) = dw |- _ => rewrite H
         | H : skipws (attrs_of _) = true |- _ => rewrite H
         end; cbn; reflexivity.

Lemma climb_cons f lv r y r2 : climb_f f lv r = COk y r2 -> consumes r r2.
Proof. apply climb_consumes. Qed.

Lemma level_BinL op pa ops : op_ok op ops ->
  nth_error G idx = Some (snd (lvl (LBinL op pa))) ->
  forall f, reads (fst (lvl (LBinL op pa))) (climb_f f (CBinL ops :: tighter)).
Proof.
  intros (Ho & Hwo & Hso & Hwho & Hop) HG f. apply this_reads; [reflexivity|exact HG|].
  intros rest Hs N. destruct f as [|f]; [exfalso; apply N; reflexivity|].
  rewrite climb_f_S in N |- *. unfold climb_step in N |- *.
  unfold mk_level, mk_rep_of, mk_and. cbn [snd]. items. unfold mk_mf, mk_enh, mk_rep. cbn [flat_map mf_items app]. rewrite app_nil_r.
  eapply (shape_last_rep last (climb_f f tighter) (HL f) (climb_cons f tighter) Htail) with (loopfn := binl_loop (climb_f f tighter) ops f []);
    [reflexivity|solve_ws|solve_ws| |exact Hs|exact N].
  apply (rep_binl last (climb_f f tighter) (HL f) (climb_cons f tighter) op ops Hop); solve_ws.
Qed.

Lemma level_Postfix op pa ops : op_ok op ops ->
  nth_error G idx = Some (snd (lvl (LPostfix op pa))) ->
  forall f, reads (fst (lvl (LPostfix op pa))) (climb_f f (CPostfix ops :: tighter)).
Proof.
  intros (Ho & Hwo & Hso & Hwho & Hop) HG f. apply this_reads; [reflexivity|exact HG|].
  intros rest Hs N. destruct f as [|f]; [exfalso; apply N; reflexivity|].
  rewrite climb_f_S in N |- *. unfold climb_step in N |- *.
  unfold mk_level, mk_rep_of, mk_and. cbn [snd]. items. unfold mk_mf, mk_enh, mk_rep. cbn [flat_map mf_items app]. rewrite app_nil_r.
  eapply (shape_last_rep last (climb_f f tighter) (HL f) (climb_cons f tighter) Htail) with (loopfn := fun r => Some (post_loop ops [] r));
    [reflexivity|solve_ws|solve_ws| |exact Hs|exact N].
  apply (rep_post op ops Hop). exact Hwho.
Qed.

Lemma binr_step_eq opnd self n ops ts :
  climb_step opnd self n (CBinR ops) ts =
  match opnd ts with
  | COk x r => match binr_loop self ops r with Some (acc, r') => COk (group x acc) r' | None => COut end
  | other => other
  end.
Proof.
  unfold climb_step, binr_loop. destruct (opnd ts) as [| |x r]; try reflexivity.
  destruct (peek_op ops r) as [[o r1]|]; [|reflexivity]. destruct (self r1); reflexivity.
Qed.

Lemma level_BinR op pa ops : op_ok op ops ->
  nth_error G idx = Some (snd (lvl (LBinR op pa))) ->
  forall f, reads (fst (lvl (LBinR op pa))) (climb_f f (CBinR ops :: tighter)).
Proof.
  intros (Ho & Hwo & Hso & Hwho & Hop) HG. induction f as [|f IH]; [intros rest _ N; exfalso; apply N; reflexivity|].
  apply this_reads; [reflexivity|exact HG|].
  intros rest Hs N. rewrite climb_f_S, binr_step_eq in N |- *.
  unfold mk_level, mk_rep_of, mk_and. cbn [snd]. items. unfold mk_mf, mk_enh, mk_rep. cbn [flat_map mf_items app]. rewrite app_nil_r.
  eapply (shape_last_rep last (climb_f f tighter) (HL f) (climb_cons f tighter) Htail)
    with (loopfn := binr_loop (climb_f f (CBinR ops :: tighter)) ops);
    [reflexivity|solve_ws|solve_ws| |exact Hs|exact N].
  apply (rep_binr _ (climb_f f (CBinR ops :: tighter)) IH op ops Hop (climb_stop_binr ops tighter f) (climb_cons f _)); solve_ws.
Qed.

Lemma juxr_step_eq opnd self n ts :
  climb_step opnd self n CJuxR ts =
  match opnd ts with
  | COk x r => match juxr_loop self r with Some (acc, r') => COk (group x acc) r' | None => COut end
  | other => other
  end.
Proof.
  unfold climb_step, juxr_loop. destruct (opnd ts) as [| |x r]; try reflexivity. destruct (self r); reflexivity.
Qed.

Lemma level_JuxR pa :
  nth_error G idx = Some (snd (lvl (LJuxR pa))) ->
  forall f, reads (fst (lvl (LJuxR pa))) (climb_f f (CJuxR :: tighter)).
Proof.
  intros HG. induction f as [|f IH]; [intros rest _ N; exfalso; apply N; reflexivity|].
  apply this_reads; [reflexivity|exact HG|].
  intros rest Hs N. rewrite climb_f_S, juxr_step_eq in N |- *.
  unfold mk_level, mk_rep_of, mk_and. cbn [snd]. items. unfold mk_mf, mk_enh, mk_rep. cbn [flat_map mf_items app]. rewrite app_nil_r.
  eapply (shape_last_rep last (climb_f f tighter) (HL f) (climb_cons f tighter) Htail)
    with (loopfn := juxr_loop (climb_f f (CJuxR :: tighter)));
    [reflexivity|solve_ws|solve_ws| |exact Hs|exact N].
  apply (rep_juxr _ (climb_f f (CJuxR :: tighter)) IH (climb_stop_juxr tighter f) (climb_cons f _)). reflexivity.
Qed.

Lemma level_Prefix op pa ops : op_ok op ops ->
  nth_error G idx = Some (snd (lvl (LPrefix op pa))) ->
  forall f, reads (fst (lvl (LPrefix op pa))) (climb_f f (CPrefix ops :: tighter)).
Proof.
  intros (Ho & Hwo & Hso & Hwho & Hop) HG. induction f as [|f IH]; [intros rest _ N; exfalso; apply N; reflexivity|].
  assert (Hts : this_skip true (LPrefix op pa) = true) by (unfold this_skip, first_sk; rewrite Hwo, Hso; reflexivity).
  apply this_reads; [exact Hts|exact HG|].
  intros rest Hs N. rewrite climb_f_S in N |- *. unfold climb_step in N |- *.
  unfold mk_level, mk_rep_of, mk_and. cbn [snd]. items. unfold mk_mf, mk_enh, mk_rep. cbn [flat_map mf_items app]. rewrite app_nil_r.
  eapply (shape_prefix last _ (climb_f f tighter) (climb_f f (CPrefix ops :: tighter)) (HL f) IH Htail);
    [reflexivity|solve_ws|solve_ws|exact Hop|exact Hs|exact N].
Qed.

Lemma level_TernL o1 o2 pa ops1 ops2 : op_ok o1 ops1 -> op_ok o2 ops2 ->
  nth_error G idx = Some (snd (lvl (LTernL o1 o2 pa))) ->
  forall f, reads (fst (lvl (LTernL o1 o2 pa))) (climb_f f (CTernL ops1 ops2 :: tighter)).
Proof.
  intros (Ho & Hwo & Hso & Hwho & Hop) (Ho2 & Hwo2 & Hso2 & Hwho2 & Hop2) HG f. apply this_reads; [reflexivity|exact HG|].
  intros rest Hs N. destruct f as [|f]; [exfalso; apply N; reflexivity|].
  rewrite climb_f_S in N |- *. unfold climb_step in N |- *.
  unfold mk_level, mk_rep_of, mk_and. cbn [snd]. items. unfold mk_mf, mk_enh, mk_rep. cbn [flat_map mf_items app]. rewrite app_nil_r.
  eapply (shape_last_rep last (climb_f f tighter) (HL f) (climb_cons f tighter) Htail)
    with (loopfn := ternl_loop (climb_f f tighter) ops1 ops2 f []);
    [reflexivity|solve_ws|solve_ws| |exact Hs|exact N].
  apply (rep_ternl last (climb_f f tighter) (HL f) (climb_cons f tighter) o1 o2 ops1 ops2 Hop Hop2); solve_ws.
Qed.

Lemma level_TernR o1 o2 pa ops1 ops2 : op_ok o1 ops1 -> op_ok o2 ops2 ->
  nth_error G idx = Some (snd (lvl (LTernR o1 o2 pa))) ->
  forall f, reads (fst (lvl (LTernR o1 o2 pa))) (climb_f f (CTernR ops1 ops2 :: tighter)).
Proof.
  intros (Ho & Hwo & Hso & Hwho & Hop) (Ho2 & Hwo2 & Hso2 & Hwho2 & Hop2) HG.
  induction f as [|f IH]; [intros rest _ N; exfalso; apply N; reflexivity|].
  apply this_reads; [reflexivity|exact HG|].
  intros rest Hs N. rewrite climb_f_S in N |- *. unfold climb_step in N |- *.
  unfold mk_level, mk_rep_of, mk_and. cbn [snd]. items. unfold mk_mf, mk_enh, mk_rep. cbn [flat_map mf_items app]. rewrite app_nil_r.
  eapply (shape_ternr last _ (climb_f f tighter) (climb_f f (CTernR ops1 ops2 :: tighter)) (HL f) IH
            (climb_cons f tighter) (climb_cons f _) Htail);
    [reflexivity|solve_ws|solve_ws|exact Hop|exact Hop2|exact Hs|exact N].
Qed.
End Forms.

(* ---- the whole table ---- *)
Section Table.
Variable ids : nat -> nat * nat.

Definition lv_rel (lv : level) (cl : clevel) : Prop :=
  match lv, cl with
  | LPostfix op _, CPostfix ops => op_ok op ops
  | LPrefix op _, CPrefix ops => op_ok op ops
  | LBinL op _, CBinL ops => op_ok op ops
  | LBinR op _, CBinR ops => op_ok op ops
  | LJuxR _, CJuxR => True
  | LTernL o1 o2 _, CTernL ops1 ops2 => op_ok o1 ops1 /\ op_ok o2 ops2
  | LTernR o1 o2 _, CTernR ops1 ops2 => op_ok o1 ops1 /\ op_ok o2 ops2
  | _, _ => False
  end.

Lemma lv_rel_skip lv cl : lv_rel lv cl -> this_skip true lv = true.
Proof.
  destruct lv, cl; cbn; try contradiction; try reflexivity.
  intros (_ & Hw & Hs & _). unfold first_sk. rewrite Hw, Hs. reflexivity.
Qed.

Fixpoint bodies_in (n k : nat) (last : expr) (table : list level) : Prop :=
  match table with
  | [] => True
  | lv :: rest =>
    nth_error G (n - k + 1) = Some (snd (mk_level false dw ids k (n - k + 1) last true lv)) /\
    bodies_in n (S k) (fst (mk_level false dw ids k (n - k + 1) last true lv)) rest
  end.

Definition last_ok (last : expr) : Prop :=
  and_items last = [last] /\ is_white_tok last = false /\ white (attrs_of last) = dw /\
  (forall loc r, F last loc r -> firstF G s (mf_items last) loc r).

Lemma this_ok k idx last lv : last_ok (fst (mk_level false dw ids k idx last true lv)).
Proof.
  repeat split; try (destruct lv; reflexivity).
  intros loc r [f0 H]. assert (E : mf_items (fst (mk_level false dw ids k idx last true lv)) = [fst (mk_level false dw ids k idx last true lv)])
    by (destruct lv; reflexivity).
  rewrite E. exists f0. intros f Hf. cbn [peg_first]. rewrite H by exact Hf. destruct r; reflexivity.
Qed.

Lemma level_reads k idx last tighter lv cl :
  last_ok last -> (forall f, reads last (climb_f f tighter)) -> lv_rel lv cl ->
  nth_error G idx = Some (snd (mk_level false dw ids k idx last true lv)) ->
  forall f, reads (fst (mk_level false dw ids k idx last true lv)) (climb_f f (cl :: tighter)).
Proof.
  intros (Hl & Hlw & Hlwh & Htail) HL Hrel HG.
  destruct lv, cl; cbn [lv_rel] in Hrel; try contradiction.
  - apply level_Postfix; assumption.
  - apply level_Prefix; assumption.
  - apply level_BinL; assumption.
  - apply level_BinR; assumption.
  - apply level_JuxR; assumption.
  - destruct Hrel as [H1 H2]. apply level_TernL; assumption.
  - destruct Hrel as [H1 H2]. apply level_TernR; assumption.
Qed.

Lemma levels_reads n : forall table ctab, Forall2 lv_rel table ctab ->
  forall k last acc tighter, last_ok last -> (forall f, reads last (climb_f f tighter)) -> bodies_in n k last table ->
  forall f, reads (fst (fst (mk_levels false dw ids n k last true table acc))) (climb_f f (rev ctab ++ tighter)).
Proof.
  induction 1 as [|lv cl table ctab Hrel _ IH]; intros k last acc tighter Hok HL HB; cbn [mk_levels rev app].
  - exact HL.
  - destruct HB as [HG HB].
    pose proof (level_reads k (n - k + 1) last tighter lv cl Hok HL Hrel HG) as HT.
    pose proof (this_ok k (n - k + 1) last lv) as Hok'.
    destruct (mk_level false dw ids k (n - k + 1) last true lv) as [this body] eqn:E. cbn [fst snd] in *.
    rewrite (lv_rel_skip lv cl Hrel). rewrite <- app_assoc. cbn [app].
    apply IH; assumption.
Qed.
End Table.

Section Root.
Variable ids : nat -> nat * nat.

Lemma bodies_in_env n : forall table ctab, Forall2 lv_rel table ctab ->
  forall k last acc X, n + 1 = k + length table ->
  G = X :: snd (mk_levels false dw ids n k last true table acc) -> bodies_in ids n k last table.
Proof.
  induction 1 as [|lv cl table ctab Hrel _ IH]; intros k last acc X Hn HG; cbn [bodies_in]; [exact I|].
  cbn [mk_levels] in HG. cbn [length] in Hn.
  destruct (mk_level false dw ids k (n - k + 1) last true lv) as [this body] eqn:E. cbn [fst snd].
  rewrite (lv_rel_skip lv cl Hrel) in HG. split.
  - rewrite HG. replace (n - k + 1) with (S (length table)) by lia. cbn [nth_error].
    rewrite mk_levels_snd_app. rewrite nth_error_app2 by (rewrite mk_levels_len; cbn; lia).
    rewrite mk_levels_len. cbn [length]. rewrite Nat.add_0_r, Nat.sub_diag. reflexivity.
  - apply (IH (S k) this (body :: acc) X); [lia|exact HG].
Qed.

Lemma fold_skip table ctab : Forall2 lv_rel table ctab -> fold_left this_skip table true = true.
Proof. induction 1 as [|lv cl table ctab Hrel _ IH]; [reflexivity|]. cbn [fold_left]. rewrite (lv_rel_skip lv cl Hrel). exact IH. Qed.

Variables (base lpar rpar : expr) (table : list level) (ctab : ctable).
Hypothesis Hbase : sk_of base = true.
Hypothesis Hlpar : first_sk lpar (sk_of lpar) = true.
Hypothesis Hrel : Forall2 lv_rel table ctab.
Hypothesis HG : G = fst (infix_ref dw ids base table lpar rpar).
Hypothesis Hoperand : last_ok (operand_of dw ids base lpar rpar true).
Hypothesis Hoperand_reads : forall f, reads (operand_of dw ids base lpar rpar true) (climb_f f []).

Lemma root_reads : forall f, reads (snd (infix_ref dw ids base table lpar rpar)) (climb_f f (rev ctab)).
Proof.
  unfold infix_ref in *. rewrite infix_gen_eq in *. cbv zeta in *. rewrite Hbase, Hlpar in *. cbn [andb] in *.
  rewrite (fold_skip table ctab Hrel) in *.
  set (operand := operand_of dw ids base lpar rpar true) in *.
  pose proof (levels_reads ids (length table) table ctab Hrel 1 operand [] [] Hoperand Hoperand_reads) as HLv.
  destruct (mk_levels false dw ids (length table) 1 operand true table []) as [[lastN sk] bodies] eqn:E.
  cbn [fst snd] in *.
  assert (HG' : G = lastN :: bodies).
  { rewrite HG. destruct table; [|reflexivity]. cbn in E. injection E as <- _ <-. reflexivity. }
  rewrite app_nil_r in HLv.
  assert (HB : bodies_in ids (length table) 1 operand table).
  { apply (bodies_in_env (length table) table ctab Hrel 1 operand [] lastN); [lia|]. rewrite E. exact HG'. }
  specialize (HLv HB).
  intros f rest Hs N loc Hat. unfold ret_of, mk_fwd.
  eapply F_fwd with (dw := dw); [reflexivity|rewrite HG'; reflexivity|].
  apply (HLv f rest Hs N). right. apply (sw_at rest loc Hat).
Qed.
End Root.

(* ---- the lexical layer: Literal operators, MatchFirst of Literals, a Word operand, a Literal parenthesis ---- *)
Section Lex.
Lemma nth_skipn {A} (u : list A) : forall k d, nth_error u k = Some d -> skipn k u = d :: skipn (S k) u.
Proof. induction u as [|x u IH]; intros [|k] d H; cbn in *; try discriminate; [injection H as <-; reflexivity|apply IH; exact H]. Qed.
Lemma nth_skipn_none {A} (u : list A) : forall k, nth_error u k = None -> skipn k u = [].
Proof. induction u as [|x u IH]; intros [|k] H; cbn in *; try discriminate; [reflexivity|reflexivity|apply IH; exact H]. Qed.

Lemma startswith_prefix u : forall m k, startswith_at u k m = is_prefix m (skipn k u).
Proof.
  induction m as [|c m IH]; intros k; [reflexivity|]. cbn [startswith_at]. unfold at_.
  destruct (nth_error u k) as [d|] eqn:E.
  - rewrite (nth_skipn u k d E). cbn [is_prefix]. rewrite IH. reflexivity.
  - rewrite (nth_skipn_none u k E). reflexivity.
Qed.

Lemma str_eqb_rfl (a : str) : str_eqb a a = true.
Proof. induction a as [|c a IH]; [reflexivity|]. cbn. rewrite N.eqb_refl. exact IH. Qed.
Lemma is_prefix_refl (a : str) : is_prefix a a = true.
Proof. induction a as [|c a IH]; [reflexivity|]. cbn. rewrite N.eqb_refl. exact IH. Qed.

(* a whitespace-free spelling sees only the first token *)
Lemma prefix_tok m : Forall (fun c => mem_char c dw = false) m ->
  forall v tail, (tail = [] \/ exists tl, tail = SP :: tl) -> is_prefix m (v ++ tail) = is_prefix m v.
Proof.
  induction 1 as [|c m Hc _ IH]; intros v tail Ht; [reflexivity|].
  destruct v as [|d v]; cbn [app is_prefix].
  - destruct Ht as [->|[tl ->]]; [reflexivity|]. cbn [is_prefix].
    destruct (N.eqb c SP) eqn:E; [|reflexivity]. apply N.eqb_eq in E. subst c. rewrite Hsp in Hc. discriminate.
  - rewrite (IH v tail Ht). reflexivity.
Qed.

Lemma render_tail t r : exists tail, render (t :: r) = spell t ++ tail /\ (tail = [] \/ exists tl, tail = SP :: tl).
Proof.
  rewrite render_cons. exists (sep [t] r ++ render r). split; [reflexivity|].
  destruct r as [|t' r]; [left; reflexivity|right]. cbn [sep app]. eexists; reflexivity.
Qed.

Definition lit_res (m : str) (rest : list token) : res :=
  match rest with
  | t :: r => if is_prefix m (spell t) then POk (sps rest + length m) [TStr m] else PFail
  | [] => PFail
  end.

Lemma lit_at0 a m u : m <> [] ->
  tok_peg a (KLit m) u 0 = if is_prefix m u then Some (length m, [TStr m]) else None.
Proof.
  intros Hm. unfold tok_peg, tok_impl. destruct m as [|c [|c2 m']]; [congruence| |].
  - unfold at_. destruct u as [|d u]; cbn; [reflexivity|]. rewrite N.eqb_sym.
    destruct (N.eqb c d); reflexivity.
  - unfold at_. destruct u as [|d u]; [reflexivity|]. cbn [nth_error].
    rewrite startswith_prefix. cbn [skipn]. destruct (is_prefix (c :: c2 :: m') (d :: u)); reflexivity.
Qed.

Lemma lit_reads_gen a m : wspec a = WS dw -> m <> [] -> Forall (fun c => mem_char c dw = false) m ->
  forall rest, suf rest -> forall loc, atp rest loc -> F (Tok a [] (KLit m)) loc (lit_res m rest).
Proof.
  intros Ha Hm Hmw rest Hs loc Hat. exists 1. intros f Hf. destruct f as [|f]; [lia|]. cbn [peg].
  rewrite (eff_of_spec s (Tok a [] (KLit m)) (WS dw)) by exact Ha. rewrite effw_WS, (sw_at rest loc Hat).
  destruct (spos_split dw all Hsp Hwf rest Hs) as [X [EX EL]]. rewrite EL. cbn [attrs_of].
  pose proof (tok_shift a (KLit m) X (render rest) 0 eq_refl) as TS. rewrite Nat.add_0_r in TS.
  fold s in EX. rewrite <- EX in TS. unfold tok_peg in TS at 1.
  rewrite (lit_at0 a m (render rest) Hm) in TS. unfold lit_res.
  destruct rest as [|t r].
  - cbn [render] in TS. destruct m; [congruence|]. cbn [is_prefix] in TS.
    destruct (tok_impl a (KLit (c :: m)) s (length X)); [discriminate|reflexivity|reflexivity].
  - destruct (render_tail t r) as [tail [ER Ht]]. rewrite ER, (prefix_tok m Hmw (spell t) tail Ht) in TS.
    destruct (is_prefix m (spell t)).
    + destruct (tok_impl a (KLit m) s (length X)) as [l r0| |]; [|discriminate|discriminate].
      injection TS as -> ->. rewrite EL. reflexivity.
    + destruct (tok_impl a (KLit m) s (length X)); [discriminate|reflexivity|reflexivity].
Qed.

(* the tokens of the input and the spelling m do not overlap *)
Definition exact_spelling (m : str) : Prop :=
  forall t, In t all -> is_prefix m (spell t) = true -> t = TOp m.

Lemma suf_in t r : suf (t :: r) -> In t all.
Proof. intros [pre E]. rewrite E. apply in_or_app. right. left. reflexivity. Qed.

Lemma lit_reads a m : wspec a = WS dw -> m <> [] -> Forall (fun c => mem_char c dw = false) m -> exact_spelling m ->
  reads_op (Tok a [] (KLit m)) [m].
Proof.
  intros Ha Hm Hmw Hex rest Hs loc Hat. pose proof (lit_reads_gen a m Ha Hm Hmw rest Hs loc Hat) as H.
  unfold lit_res in H. unfold op_res. destruct rest as [|t r]; [exact H|].
  destruct (is_prefix m (spell t)) eqn:E.
  - rewrite (Hex t (suf_in t r Hs) E). cbn [peek_op mem_str existsb]. rewrite str_eqb_rfl. cbn [orb].
    rewrite (Hex t (suf_in t r Hs) E) in Hs. rewrite (pos_next dw all Hsp Hwf _ _ Hs). exact H.
  - destruct t as [x|o]; [exact H|]. cbn [peek_op mem_str existsb].
    destruct (str_eqb o m) eqn:E2; [|exact H]. apply str_eqb_eq in E2. subst o. cbn [spell] in E.
    rewrite is_prefix_refl in E. discriminate.
Qed.

Lemma mf_reads a : callpre a = false -> forall es ms, Forall2 (fun e m => reads_op e [m]) es ms ->
  reads_op (Nary a [] NMatchFirst es) ms.
Proof.
  intros Ha es ms H rest Hs loc Hat. apply F_mf; [exact Ha|].
  induction H as [|e m es ms He _ IH]; [unfold op_res; destruct rest as [|[x|o] r]; apply first_nil|].
  pose proof (He rest Hs loc Hat) as H1. unfold op_res in *.
  destruct rest as [|[x|o] r]; cbn [peek_op] in *; try (apply first_fail; [exact H1|exact IH]).
  cbn [mem_str existsb] in *. destruct (str_eqb o m); cbn [orb] in *.
  - apply first_ok. exact H1.
  - apply first_fail; [exact H1|exact IH].
Qed.

(* never matches at a token boundary *)
Definition never_spelling (m : str) : Prop := forall t, In t all -> is_prefix m (spell t) = false.
Lemma lit_never a m : wspec a = WS dw -> m <> [] -> Forall (fun c => mem_char c dw = false) m -> never_spelling m ->
  forall rest, suf rest -> forall loc, atp rest loc -> F (Tok a [] (KLit m)) loc PFail.
Proof.
  intros Ha Hm Hmw Hn rest Hs loc Hat. pose proof (lit_reads_gen a m Ha Hm Hmw rest Hs loc Hat) as H.
  unfold lit_res in H. destruct rest as [|t r]; [exact H|]. rewrite (Hn t (suf_in t r Hs)) in H. exact H.
Qed.

(* the operand: Word(cs) *)
Variable cs : list char.
Hypothesis Hcs : forall c, mem_char c cs = true -> mem_char c dw = false.
Definition operand_tok (x : str) : Prop := x <> [] /\ Forall (fun c => mem_char c cs = true) x.
Hypothesis Htoks : forall t, In t all ->
  match t with TOperand x => operand_tok x | TOp o => exists c m, o = c :: m /\ mem_char c cs = false end.

Definition base_res (rest : list token) : res :=
  match rest with TOperand x :: r => POk (ps r) [TStr x] | _ => PFail end.

Lemma run_while_end fuel (u : str) p : run_while fuel u (length u) (length u) p = length u.
Proof. destruct fuel; cbn [run_while]; [reflexivity|]. rewrite Nat.ltb_irrefl. reflexivity. Qed.
Lemma run_while_sp fuel (x tl : str) p : p SP = false ->
  run_while fuel (x ++ SP :: tl) (length x) (length (x ++ SP :: tl)) p = length x.
Proof.
  intros Hp. destruct fuel; cbn [run_while]; [reflexivity|].
  destruct (Nat.ltb (length x) (length (x ++ SP :: tl))); [|reflexivity].
  unfold at_. rewrite nth_error_app2 by lia. rewrite Nat.sub_diag. cbn [nth_error]. rewrite Hp. reflexivity.
Qed.

Lemma run_word x tail : Forall (fun c => mem_char c cs = true) x -> x <> [] -> (tail = [] \/ exists tl, tail = SP :: tl) ->
  run_while (length (x ++ tail)) (x ++ tail) 1 (length (x ++ tail)) (fun c => mem_char c cs) = length x.
Proof.
  intros Hx Hne Ht.
  rewrite (run_while_all x (fun c => mem_char c cs)); [| |rewrite app_length; lia|destruct x; [congruence|cbn; lia]].
  - destruct Ht as [->|[tl ->]].
    + rewrite app_nil_r. apply run_while_end.
    + apply run_while_sp. destruct (mem_char SP cs) eqn:E2; [|reflexivity]. rewrite (Hcs SP E2) in Hsp. discriminate.
  - intros c Hc. rewrite Forall_forall in Hx. apply Hx. exact Hc.
Qed.

Lemma word_reads a ure : wspec a = WS dw ->
  forall rest, suf rest -> forall loc, atp rest loc -> F (Tok a [] (KWord cs cs 1 None false false ure)) loc (base_res rest).
Proof.
  intros Ha rest Hs loc Hat. exists 1. intros f Hf. destruct f as [|f]; [lia|]. cbn [peg].
  rewrite (eff_of_spec s (Tok a [] (KWord cs cs 1 None false false ure)) (WS dw)) by exact Ha. rewrite effw_WS, (sw_at rest loc Hat).
  destruct (spos_split dw all Hsp Hwf rest Hs) as [X [EX EL]]. rewrite EL. cbn [attrs_of].
  pose proof (tok_shift a (KWord cs cs 1 None false false ure) X (render rest) 0 eq_refl) as TS. rewrite Nat.add_0_r in TS.
  fold s in EX. rewrite <- EX in TS. unfold tok_peg in TS at 1.
  assert (T0 : tok_peg a (KWord cs cs 1 None false false ure) (render rest) 0 =
               match rest with TOperand x :: r => Some (length x, [TStr x]) | _ => None end).
  { destruct rest as [|t r].
    - unfold tok_peg, tok_impl. cbn. destruct ure; reflexivity.
    - destruct (render_tail t r) as [tail [ER Ht]]. rewrite ER.
      pose proof (Htoks t (suf_in t r Hs)) as Hk. destruct t as [x|o]; cbn [spell] in *.
      + destruct Hk as [Hne Hx]. unfold tok_peg, tok_impl. cbv zeta.
        destruct x as [|c0 x']; [congruence|]. unfold at_ at 1. cbn [app nth_error].
        inversion Hx as [|? ? Hc0 Hx']; subst. rewrite Hc0. cbn [negb].
        change (c0 :: x' ++ tail) with ((c0 :: x') ++ tail).
        unfold len_cap. rewrite (run_word (c0 :: x') tail Hx Hne Ht).
        cbn [length Nat.sub Nat.ltb Nat.leb andb orb negb].
        assert (ES : slice_ ((c0 :: x') ++ tail) 0 (S (length x')) = c0 :: x').
        { unfold slice_. cbn [skipn Nat.sub]. change (S (length x')) with (length (c0 :: x')).
          rewrite firstn_app, Nat.sub_diag, firstn_all. cbn. rewrite app_nil_r. reflexivity. }
        destruct ure; cbn [Nat.sub Nat.ltb Nat.leb negb orb andb]; rewrite ?ES; reflexivity.
      + destruct Hk as [c [m [-> Hc]]]. unfold tok_peg, tok_impl. cbv zeta. unfold at_ at 1. cbn [app nth_error].
        rewrite Hc. cbn [negb]. destruct ure; reflexivity. }
  rewrite T0 in TS. unfold base_res.
  destruct rest as [|[x|o] r];
    try (destruct (tok_impl a _ s (length X)); [discriminate|reflexivity|reflexivity]).
  destruct (tok_impl a _ s (length X)) as [l r0| |]; [|discriminate|discriminate].
  injection TS as -> ->. rewrite (pos_next dw all Hsp Hwf _ _ Hs), EL. reflexivity.
Qed.
End Lex.

(* ---- level 0: base | nested ---- *)
Ltac solve_ws :=
  unfold wspec, first_sk, sk_of in *; cbn;
  repeat match goal with
         | H : is_white_tok _ = false |- _ => rewrite H
         | H : white (attrs_of _) = dw |- _ => rewrite H
         | H : skipws (attrs_of _) = true |- _ => rewrite H
         end; cbn; reflexivity.
Section Operand.
Variables (ids : nat -> nat * nat) (base lpar rpar : expr) (cs : list char).
Hypothesis Hcs : forall c, mem_char c cs = true -> mem_char c dw = false.
Hypothesis Htoks : forall t, In t all ->
  match t with TOperand x => operand_tok cs x | TOp o => exists c m, o = c :: m /\ mem_char c cs = false end.
Variables (ab : attrs) (ure : bool).
Hypothesis Hbase : base = Tok ab [] (KWord cs cs 1 None false false ure).
Hypothesis Hab : wspec ab = WS dw.
Hypothesis Hlp_items : and_items lpar = [lpar].
Hypothesis Hrp_items : and_items rpar = [rpar].
Hypothesis Hlp_w : is_white_tok lpar = false.
Hypothesis Hlp_sk : sk_of lpar = true.
Hypothesis Hlp_wh : white (attrs_of lpar) = dw.
Hypothesis Hlp_fail : forall rest, suf rest -> forall loc, atp rest loc -> F lpar loc PFail.

Lemma operand_last_ok : last_ok (operand_of dw ids base lpar rpar true).
Proof.
  subst base. unfold operand_of. cbv zeta. unfold mk_mf. repeat split.
  intros loc r [f0 H]. cbn [mf_items plainb mka acts rsname].
  exists f0. intros f Hf. specialize (H (S f) ltac:(lia)). rewrite peg_mf in H. exact H.
Qed.

Lemma operand_reads : forall f, reads (operand_of dw ids base lpar rpar true) (climb_f f []).
Proof.
  intros f rest Hs N loc Hat. destruct f as [|f]; [exfalso; apply N; reflexivity|].
  rewrite climb_f_S0.
  assert (E : res_of (match rest with TOperand x :: r => COk (TStr x) r | _ => CFail end) = base_res rest)
    by (destruct rest as [|[x|o] r]; reflexivity).
  rewrite E. clear E N.
  pose proof (word_reads cs Hcs Htoks ab ure Hab rest Hs loc Hat) as HB.
  subst base. unfold operand_of. cbv zeta. unfold mk_mf. apply F_mf; [reflexivity|].
  cbn [flat_map mf_items app].
  assert (Hnest : forall a i es loc', atp rest loc' -> wspec a = WS dw -> F (Nary a i NAnd (lpar :: es)) loc' PFail).
  { intros a i es loc' Hat' Ha. apply F_and with (dw := dw); [exact Ha|]. apply seq_fail.
    apply (Hlp_fail rest Hs). right. apply (sw_at rest loc' Hat'). }
  unfold base_res in *.
  assert (H2 : firstF G s (mf_items (if is_suppress lpar && is_suppress rpar
      then match mk_and dw ids (code 0 rNESTED) (sk_of lpar) lpar [lpar; ret_of dw ids true; rpar] [] with
           | Nary a i k es => Nary (mka ids (code 0 rNESTED) (aslist a) (skipws a) (white a) (callpre a) (mayidx a) true true []) i k es
           | other => other end
      else mk_enh ids (code 0 rNGROUP) (EGroup false) true (first_sk lpar (sk_of lpar))
            match mk_and dw ids (code 0 rNESTED) (sk_of lpar) lpar [lpar; ret_of dw ids true; rpar] [] with
            | Nary a i k es => Nary (mka ids (code 0 rNESTED) (aslist a) (skipws a) (white a) (callpre a) (mayidx a) true true []) i k es
            | other => other end) ++ []) loc PFail).
  { unfold mk_and, mk_enh. cbn [flat_map]. rewrite Hlp_items, Hrp_items. cbn [and_items ret_of mk_fwd app].
    destruct (is_suppress lpar && is_suppress rpar); cbn [mf_items app].
    - apply first_fail; [|apply first_nil]. apply Hnest; [exact Hat|solve_ws].
    - apply first_fail; [|apply first_nil]. apply F_group_fail with (dw := dw); [solve_ws|].
      apply Hnest; [right; apply (sw_at rest loc Hat)|solve_ws]. }
  destruct rest as [|[x|o] r]; try (apply first_fail; [exact HB|exact H2]).
  apply first_ok. exact HB.
Qed.
End Operand.
End Levels.

(* ------------------------------------------------------------------------------------------- *)
(* 5. from the decidable conditions to the theorem                                               *)
(* ------------------------------------------------------------------------------------------- *)
Lemma ws_attrs_inv dw cp a : ws_attrs dw cp a = true -> callpre a = cp /\ skipws a = true /\ white a = dw.
Proof.
  unfold ws_attrs. intros H. apply andb_true_iff in H. destruct H as [H H3]. apply andb_true_iff in H. destruct H as [H1 H2].
  repeat split; [apply Bool.eqb_prop; exact H1|exact H2|apply str_eqb_eq; exact H3].
Qed.
Lemma ws_attrs_wspec dw a : ws_attrs dw true a = true -> wspec a = WS dw.
Proof. intros H. destruct (ws_attrs_inv dw true a H) as (H1 & H2 & H3). unfold wspec, WS. rewrite H1, H2, H3. reflexivity. Qed.

Lemma lit_spelling_inv dw e m : lit_spelling dw e = Some m -> exists a, e = Tok a [] (KLit m) /\ ws_attrs dw true a = true.
Proof.
  destruct e as [a [|? ?] t| | | | |]; try discriminate. destruct t; try discriminate. cbn.
  destruct (ws_attrs dw true a) eqn:E; [|discriminate]. intros H. injection H as <-. exists a. split; [reflexivity|exact E].
Qed.

Lemma all_some_inv {A B} (f : A -> option B) : forall l ys, all_some (map f l) = Some ys -> Forall2 (fun x y => f x = Some y) l ys.
Proof.
  induction l as [|x l IH]; intros ys H; cbn in H.
  - injection H as <-. constructor.
  - destruct (f x) as [y|] eqn:E; [|discriminate]. destruct (all_some (map f l)) as [ys'|] eqn:E2; [|discriminate].
    injection H as <-. constructor; [exact E|apply IH; reflexivity].
Qed.

Lemma mem_char_in c cs : mem_char c cs = true -> In c cs.
Proof.
  unfold mem_char. intros H. apply existsb_exists in H. destruct H as [d [Hd E]]. apply N.eqb_eq in E. subst d. exact Hd.
Qed.
Lemma mem_str_in o ops : mem_str o ops = true -> In o ops.
Proof.
  unfold mem_str. intros H. apply existsb_exists in H. destruct H as [d [Hd E]]. apply str_eqb_eq in E. subst d. exact Hd.
Qed.
Lemma forallb_Forall_neg dw (m : str) : forallb (fun d => negb (mem_char d dw)) m = true -> Forall (fun c => mem_char c dw = false) m.
Proof.
  intros H. rewrite forallb_forall in H. apply Forall_forall. intros c Hc. specialize (H c Hc). apply negb_true_iff in H. exact H.
Qed.
Lemma is_prefix_head m u : is_prefix m u = true -> m = [] \/ exists c m' u', m = c :: m' /\ u = c :: u'.
Proof.
  destruct m as [|c m']; [left; reflexivity|]. destruct u as [|d u']; [discriminate|]. cbn.
  intros H. apply andb_true_iff in H. destruct H as [H _]. apply N.eqb_eq in H. subst d. right. exists c, m', u'. split; reflexivity.
Qed.

Section Final.
Variables (dw : list char) (ids : nat -> nat * nat) (base : expr) (table : list level) (lpar rpar : expr).
Variables (cs : list char) (ctab : ctable) (lp : str) (ts : list token).
Hypothesis Hb : base_chars dw base = Some cs.
Hypothesis Ht : ctable_of dw table = Some ctab.
Hypothesis Hp : par_spelling dw lpar = Some lp.
Hypothesis Hr : not_plain_and rpar = true.
Hypothesis Hno : no_overlapb dw cs lp ctab = true.
Hypothesis Htk : forallb (token_okb cs ctab) ts = true.
Let G := fst (infix_ref dw ids base table lpar rpar).
Let s := render ts.

Lemma no_parts : mem_char SP dw = true /\ forallb (fun c => negb (mem_char c dw)) cs = true /\
  forallb (spelling_okb dw cs) (lp :: table_ops ctab) = true /\
  forallb (fun o => negb (is_prefix lp o)) (table_ops ctab) = true /\
  forallb (fun m => forallb (fun o => negb (is_prefix m o) || str_eqb m o) (table_ops ctab)) (table_ops ctab) = true.
Proof.
  pose proof Hno as H. unfold no_overlapb in H. cbv zeta in H.
  apply andb_true_iff in H; destruct H as [H H5]. apply andb_true_iff in H; destruct H as [H H4].
  apply andb_true_iff in H; destruct H as [H H3]. apply andb_true_iff in H; destruct H as [H H2].
  repeat split; assumption.
Qed.

Lemma F_Hsp : mem_char SP dw = true.
Proof. apply no_parts. Qed.
Lemma F_Hcs : forall c, mem_char c cs = true -> mem_char c dw = false.
Proof.
  destruct no_parts as (_ & H & _). intros c Hc. rewrite forallb_forall in H. apply negb_true_iff. apply H. apply mem_char_in. exact Hc.
Qed.
Lemma F_spelling m : In m (lp :: table_ops ctab) ->
  (exists c m', m = c :: m' /\ mem_char c cs = false) /\ Forall (fun c => mem_char c dw = false) m.
Proof.
  destruct no_parts as (_ & _ & H & _). intros Hm. rewrite forallb_forall in H. specialize (H m Hm).
  unfold spelling_okb in H. destruct m as [|c m']; [discriminate|]. apply andb_true_iff in H. destruct H as [H1 H2].
  split; [exists c, m'; split; [reflexivity|apply negb_true_iff; exact H1]|apply forallb_Forall_neg; exact H2].
Qed.
Lemma F_tok t : In t ts ->
  match t with TOperand x => operand_tok cs x | TOp o => In o (table_ops ctab) end.
Proof.
  intros Hin. rewrite forallb_forall in Htk. specialize (Htk t Hin). destruct t as [x|o]; cbn in Htk.
  - unfold operand_okb in Htk. destruct x as [|c x]; [discriminate|]. split; [discriminate|].
    apply Forall_forall. intros d Hd. rewrite forallb_forall in Htk. apply Htk. exact Hd.
  - apply mem_str_in. exact Htk.
Qed.
Lemma F_toks : forall t, In t ts ->
  match t with TOperand x => operand_tok cs x | TOp o => exists c m, o = c :: m /\ mem_char c cs = false end.
Proof.
  intros t Hin. pose proof (F_tok t Hin) as H. destruct t as [x|o]; [exact H|].
  apply (F_spelling o). right. exact H.
Qed.
Lemma F_Hwf : Forall (tok_wf dw) ts.
Proof.
  apply Forall_forall. intros t Hin. pose proof (F_tok t Hin) as H. destruct t as [x|o]; unfold tok_wf; cbn [spell].
  - destruct H as [Hne Hx]. split; [exact Hne|]. apply Forall_forall. intros c Hc. apply F_Hcs.
    rewrite Forall_forall in Hx. apply Hx. exact Hc.
  - destruct (F_spelling o (or_intror H)) as [[c [m' [-> _]]] Hw]. split; [discriminate|exact Hw].
Qed.

Lemma F_not_operand m x : In m (lp :: table_ops ctab) -> operand_tok cs x -> is_prefix m x = false.
Proof.
  intros Hm [Hne Hx]. destruct (F_spelling m Hm) as [[c [m' [-> Hc]]] _].
  destruct (is_prefix (c :: m') x) eqn:E; [|reflexivity]. exfalso.
  destruct (is_prefix_head _ _ E) as [X|[c' [m'' [u' [E1 ->]]]]]; [discriminate|]. injection E1 as <- <-.
  inversion Hx as [|? ? Hc' _]; subst. rewrite Hc in Hc'. discriminate.
Qed.

Lemma F_exact m : In m (table_ops ctab) -> exact_spelling ts m.
Proof.
  intros Hm t Hin E. pose proof (F_tok t Hin) as H. destruct t as [x|o]; cbn [spell] in E.
  - rewrite (F_not_operand m x (or_intror Hm) H) in E. discriminate.
  - destruct no_parts as (_ & _ & _ & _ & Hpp). rewrite forallb_forall in Hpp. specialize (Hpp m Hm).
    rewrite forallb_forall in Hpp. specialize (Hpp o H). rewrite E in Hpp. cbn in Hpp. apply str_eqb_eq in Hpp. subst o. reflexivity.
Qed.
Lemma F_never : never_spelling ts lp.
Proof.
  intros t Hin. pose proof (F_tok t Hin) as H. destruct t as [x|o]; cbn [spell].
  - apply F_not_operand; [left; reflexivity|exact H].
  - destruct no_parts as (_ & _ & _ & Hpp & _). rewrite forallb_forall in Hpp. apply negb_true_iff. apply Hpp. exact H.
Qed.

Lemma F_lit_op e m : lit_spelling dw e = Some m -> In m (table_ops ctab) -> op_ok dw ts G e [m].
Proof.
  intros H Hm. destruct (lit_spelling_inv dw e m H) as [a [-> Ha]]. destruct (ws_attrs_inv dw true a Ha) as (H1 & H2 & H3).
  destruct (F_spelling m (or_intror Hm)) as [[c [m' [E _]]] Hw].
  repeat split; try reflexivity; try assumption.
  apply (lit_reads dw ts F_Hsp F_Hwf G a m (ws_attrs_wspec dw a Ha)); [rewrite E; discriminate|exact Hw|apply F_exact; exact Hm].
Qed.

Lemma F_op e ops : op_spellings dw e = Some ops -> (forall m, In m ops -> In m (table_ops ctab)) -> op_ok dw ts G e ops.
Proof.
  intros H Hin. destruct e as [a i t|a i k es| | | |]; try discriminate.
  - cbn [op_spellings] in H. destruct (lit_spelling dw (Tok a i t)) as [m|] eqn:E; [|discriminate]. injection H as <-.
    apply F_lit_op; [exact E|apply Hin; left; reflexivity].
  - cbn [op_spellings] in H. destruct i; [|discriminate]. destruct k; try discriminate.
    destruct (ws_attrs dw false a) eqn:Ha; [|discriminate]. destruct (ws_attrs_inv dw false a Ha) as (H1 & H2 & H3).
    repeat split; try reflexivity; try assumption.
    apply (mf_reads dw ts G a H1). apply all_some_inv in H.
    revert Hin. induction H as [|e m es ms He _ IH]; intros Hin; constructor.
    + destruct (F_lit_op e m He (Hin m (or_introl eq_refl))) as (_ & _ & _ & _ & X). exact X.
    + apply IH. intros m' Hm'. apply Hin. right. exact Hm'.
Qed.

Lemma F_level lv cl : clevel_of dw lv = Some cl -> (forall m, In m (level_ops cl) -> In m (table_ops ctab)) -> lv_rel dw ts G lv cl.
Proof.
  intros H Hin. destruct lv; cbn [clevel_of] in H; try discriminate;
    try (destruct (op_spellings dw op) as [ops|] eqn:E; [|discriminate]; injection H as <-; cbn [lv_rel]; apply F_op; [exact E|exact Hin]).
  - injection H as <-. exact I.
  - unfold tern_spellings in H.
    destruct (op_spellings dw op1) as [a|] eqn:E1; [|discriminate]. destruct (op_spellings dw op2) as [b|] eqn:E2; [|discriminate].
    injection H as <-. cbn [lv_rel level_ops] in *.
    split; (apply F_op; [eassumption|]); intros m Hm; apply Hin; apply in_or_app; [left|right]; exact Hm.
  - unfold tern_spellings in H.
    destruct (op_spellings dw op1) as [a|] eqn:E1; [|discriminate]. destruct (op_spellings dw op2) as [b|] eqn:E2; [|discriminate].
    injection H as <-. cbn [lv_rel level_ops] in *.
    split; (apply F_op; [eassumption|]); intros m Hm; apply Hin; apply in_or_app; [left|right]; exact Hm.
Qed.

Lemma F_rel_gen : forall tb ct, Forall2 (fun lv cl => clevel_of dw lv = Some cl) tb ct ->
  (forall cl, In cl ct -> forall m, In m (level_ops cl) -> In m (table_ops ctab)) -> Forall2 (lv_rel dw ts G) tb ct.
Proof.
  induction 1 as [|lv cl tb ct Hl _ IH]; intros Hsub; constructor.
  - apply F_level; [exact Hl|]. apply Hsub. left. reflexivity.
  - apply IH. intros cl' Hcl. apply Hsub. right. exact Hcl.
Qed.
Lemma F_rel : Forall2 (lv_rel dw ts G) table ctab.
Proof.
  apply F_rel_gen; [apply all_some_inv; exact Ht|].
  intros cl Hcl m Hm. unfold table_ops. apply in_flat_map. exists cl. split; assumption.
Qed.

(* the base and the parentheses *)
Lemma F_base : exists ab ure, base = Tok ab [] (KWord cs cs 1 None false false ure) /\ ws_attrs dw true ab = true.
Proof.
  unfold base_chars in Hb. destruct base as [a [|? ?] t| | | | |]; try discriminate. destruct t; try discriminate.
  destruct minl as [|[|?]]; try discriminate. destruct maxl; try discriminate. destruct maxspec; try discriminate.
  destruct askw; try discriminate.
  destruct (ws_attrs dw true a) eqn:Ha; [|discriminate]. cbn [andb] in Hb. destruct (str_eqb init body) eqn:E; [|discriminate].
  apply str_eqb_eq in E. subst body. injection Hb as <-. exists a, use_re. split; [reflexivity|exact Ha].
Qed.

Lemma F_rpar : and_items rpar = [rpar].
Proof.
  destruct rpar as [|a i k es| | | |]; try reflexivity. destruct k; try reflexivity. cbn in *.
  unfold plainb. destruct (acts a), (rsname a); cbn in Hr; try discriminate; reflexivity.
Qed.

Lemma F_lpar : and_items lpar = [lpar] /\ is_white_tok lpar = false /\ sk_of lpar = true /\ white (attrs_of lpar) = dw /\
  (forall rest, suffix ts rest -> forall loc, atp dw ts rest loc -> pegF G s lpar loc PFail).
Proof.
  destruct (F_spelling lp (or_introl eq_refl)) as [[c [m' [E _]]] Hw].
  assert (Hne : lp <> []) by (rewrite E; discriminate).
  unfold par_spelling in Hp. destruct lpar as [a i t| |a i k c0| | |]; try discriminate.
  - destruct (lit_spelling_inv dw _ lp Hp) as [a' [E' Ha]]. injection E' as -> -> ->.
    destruct (ws_attrs_inv dw true a' Ha) as (H1 & H2 & H3). repeat split; try reflexivity; try assumption.
    intros rest Hs loc Hat.
    apply (lit_never dw ts F_Hsp F_Hwf G a' lp (ws_attrs_wspec dw a' Ha) Hne Hw F_never rest Hs loc Hat).
  - destruct i; [|discriminate]. destruct k; try discriminate.
    destruct (ws_attrs dw true a) eqn:Ha; [|discriminate].
    destruct (lit_spelling_inv dw _ lp Hp) as [a' [-> Ha']].
    destruct (ws_attrs_inv dw true a Ha) as (H1 & H2 & H3). repeat split; try reflexivity; try assumption.
    intros rest Hs loc Hat. apply F_suppress_fail with (dw := dw); [apply ws_attrs_wspec; exact Ha|].
    apply (lit_never dw ts F_Hsp F_Hwf G a' lp (ws_attrs_wspec dw a' Ha') Hne Hw F_never rest Hs).
    right. apply (sw_at dw ts rest loc Hat).
Qed.

(* the reference reading of the table on the rendering of the tokens IS climbing over the tokens *)
Theorem climb_reads : forall f, reads dw ts G (snd (infix_ref dw ids base table lpar rpar)) (climb_f f (rev ctab)).
Proof.
  destruct F_base as [ab [ure [Eb Hab]]]. destruct F_lpar as (L1 & L2 & L3 & L4 & L5).
  destruct (ws_attrs_inv dw true ab Hab) as (B1 & B2 & B3).
  apply (root_reads dw ts F_Hsp F_Hwf G ids base lpar rpar table ctab).
  - rewrite Eb. exact B2.
  - unfold first_sk. rewrite L2. exact L3.
  - exact F_rel.
  - reflexivity.
  - apply (operand_last_ok dw ts G ids base lpar rpar cs ab ure Eb).
  - apply (operand_reads dw ts F_Hsp F_Hwf G ids base lpar rpar cs F_Hcs F_toks ab ure Eb (ws_attrs_wspec dw ab Hab)
             L1 F_rpar L2 L3 L4 L5).
Qed.

Definition consumed (r : list token) : list token := firstn (length ts - length r) ts.

Theorem climb_pegR f :
  (forall t r, climb_f f (rev ctab) ts = COk t r ->
     pegR G s (snd (infix_ref dw ids base table lpar rpar)) 0 (POk (length (render (consumed r))) [t])) /\
  (climb_f f (rev ctab) ts = CFail -> pegR G s (snd (infix_ref dw ids base table lpar rpar)) 0 PFail).
Proof.
  pose proof (climb_reads f ts (suffix_all ts)) as H. split.
  - intros t r E. rewrite E in H. specialize (H ltac:(discriminate) 0 (or_introl (eq_sym (pos_all ts)))).
    apply pegF_R; [exact H|discriminate].
  - intros E. rewrite E in H. specialize (H ltac:(discriminate) 0 (or_introl (eq_sym (pos_all ts)))).
    apply pegF_R; [exact H|discriminate].
Qed.
End Final.

(* ------------------------------------------------------------------------------------------- *)
(* 6. the fuel of `climb` is sufficient; statements about `climb` / `climb_all`                  *)
(* ------------------------------------------------------------------------------------------- *)
Section Total.
Variable opnd : list token -> cres.
Hypothesis Hc : forall r y r2, opnd r = COk y r2 -> consumes r r2.

Lemma binl_loop_total ops : forall n acc r, length r < n -> (forall r', length r' <= length r -> opnd r' <> COut) ->
  binl_loop opnd ops n acc r <> None.
Proof.
  induction n as [|n IH]; intros acc r Hn Ht; [lia|]. cbn [binl_loop].
  destruct (peek_op ops r) as [[o r1]|] eqn:P; [|discriminate]. apply peek_some in P. destruct P as [-> _]. cbn [length] in *.
  destruct (opnd r1) as [| |y r2] eqn:O; [exfalso; apply (Ht r1); [lia|exact O]|discriminate|].
  pose proof (consumes_len _ _ (Hc _ _ _ O)). apply IH; [lia|]. intros r' Hr'. apply Ht. lia.
Qed.
Lemma juxl_loop_total : forall n acc r, length r < n -> (forall r', length r' <= length r -> opnd r' <> COut) ->
  juxl_loop opnd n acc r <> None.
Proof.
  induction n as [|n IH]; intros acc r Hn Ht; [lia|]. cbn [juxl_loop].
  destruct (opnd r) as [| |y r2] eqn:O; [exfalso; apply (Ht r); [lia|exact O]|discriminate|].
  pose proof (consumes_len _ _ (Hc _ _ _ O)). apply IH; [lia|]. intros r' Hr'. apply Ht. lia.
Qed.
Lemma ternl_loop_total o1 o2 : forall n acc r, length r < n -> (forall r', length r' <= length r -> opnd r' <> COut) ->
  ternl_loop opnd o1 o2 n acc r <> None.
Proof.
  induction n as [|n IH]; intros acc r Hn Ht; [lia|]. cbn [ternl_loop].
  destruct (peek_op o1 r) as [[a r1]|] eqn:P; [|discriminate]. apply peek_some in P. destruct P as [-> _]. cbn [length] in *.
  destruct (opnd r1) as [| |y r2] eqn:O; [exfalso; apply (Ht r1); [lia|exact O]|discriminate|].
  pose proof (consumes_len _ _ (Hc _ _ _ O)).
  destruct (peek_op o2 r2) as [[b r3]|] eqn:P2; [|discriminate]. apply peek_some in P2. destruct P2 as [-> _]. cbn [length] in *.
  destruct (opnd r3) as [| |z r4] eqn:O2; [exfalso; apply (Ht r3); [lia|exact O2]|discriminate|].
  pose proof (consumes_len _ _ (Hc _ _ _ O2)). apply IH; [lia|]. intros r' Hr'. apply Ht. lia.
Qed.
End Total.

Lemma climb_total : forall f lv ts, length lv + length ts < f -> climb_f f lv ts <> COut.
Proof.
  induction f as [|f IH]; intros lv ts Hf; [lia|].
  destruct lv as [|l tighter]; [rewrite climb_f_S0; destruct ts as [|[x|o] r]; discriminate|].
  rewrite climb_f_S. cbn [length] in Hf.
  assert (Ho : forall r, length r <= length ts -> climb_f f tighter r <> COut) by (intros r Hr; apply IH; lia).
  assert (Hs : forall r, length r < length ts -> climb_f f (l :: tighter) r <> COut) by (intros r Hr; apply IH; cbn [length]; lia).
  pose proof (climb_consumes f tighter) as Hco. pose proof (climb_consumes f (l :: tighter)) as Hcs.
  unfold climb_step. destruct l.
  - destruct (climb_f f tighter ts) as [| |x r] eqn:O; [exfalso; apply (Ho ts); [lia|exact O]|discriminate|].
    destruct (post_loop ops [] r). discriminate.
  - destruct (peek_op ops ts) as [[o r]|] eqn:P; [|apply Ho; lia]. apply peek_some in P. destruct P as [-> _]. cbn [length] in *.
    destruct (climb_f f (CPrefix ops :: tighter) r) as [| |y r'] eqn:S1; [exfalso; apply (Hs r); [lia|exact S1]|apply Ho; cbn; lia|discriminate].
  - destruct (climb_f f tighter ts) as [| |x r] eqn:O; [exfalso; apply (Ho ts); [lia|exact O]|discriminate|].
    pose proof (consumes_len _ _ (Hco _ _ _ O)).
    destruct (binl_loop (climb_f f tighter) ops f [] r) as [[acc r']|] eqn:L; [discriminate|].
    exfalso. apply (binl_loop_total _ Hco ops f [] r); [lia| |exact L]. intros r' Hr'. apply Ho. lia.
  - destruct (climb_f f tighter ts) as [| |x r] eqn:O; [exfalso; apply (Ho ts); [lia|exact O]|discriminate|].
    pose proof (consumes_len _ _ (Hco _ _ _ O)).
    destruct (peek_op ops r) as [[o r1]|] eqn:P; [|discriminate]. apply peek_some in P. destruct P as [-> _]. cbn [length] in *.
    destruct (climb_f f (CBinR ops :: tighter) r1) eqn:S1; [exfalso; apply (Hs r1); [lia|exact S1]|discriminate|discriminate].
  - destruct (climb_f f tighter ts) as [| |x r] eqn:O; [exfalso; apply (Ho ts); [lia|exact O]|discriminate|].
    pose proof (consumes_len _ _ (Hco _ _ _ O)).
    destruct (juxl_loop (climb_f f tighter) f [] r) as [[acc r']|] eqn:L; [discriminate|].
    exfalso. apply (juxl_loop_total _ Hco f [] r); [lia| |exact L]. intros r' Hr'. apply Ho. lia.
  - destruct (climb_f f tighter ts) as [| |x r] eqn:O; [exfalso; apply (Ho ts); [lia|exact O]|discriminate|].
    pose proof (consumes_len _ _ (Hco _ _ _ O)).
    destruct (climb_f f (CJuxR :: tighter) r) eqn:S1; [exfalso; apply (Hs r); [lia|exact S1]|discriminate|discriminate].
  - destruct (climb_f f tighter ts) as [| |x r] eqn:O; [exfalso; apply (Ho ts); [lia|exact O]|discriminate|].
    pose proof (consumes_len _ _ (Hco _ _ _ O)).
    destruct (ternl_loop (climb_f f tighter) o1 o2 f [] r) as [[acc r']|] eqn:L; [discriminate|].
    exfalso. apply (ternl_loop_total _ Hco o1 o2 f [] r); [lia| |exact L]. intros r' Hr'. apply Ho. lia.
  - destruct (climb_f f tighter ts) as [| |x r] eqn:O; [exfalso; apply (Ho ts); [lia|exact O]|discriminate|].
    pose proof (consumes_len _ _ (Hco _ _ _ O)).
    destruct (peek_op o1 r) as [[a r1]|] eqn:P; [|discriminate]. apply peek_some in P. destruct P as [-> _]. cbn [length] in *.
    destruct (climb_f f (CTernR o1 o2 :: tighter) r1) as [| |y r2] eqn:S1; [exfalso; apply (Hs r1); [lia|exact S1]|discriminate|].
    pose proof (consumes_len _ _ (Hcs _ _ _ S1)).
    destruct (peek_op o2 r2) as [[b r3]|] eqn:P2; [|discriminate]. apply peek_some in P2. destruct P2 as [-> _]. cbn [length] in *.
    destruct (climb_f f (CTernR o1 o2 :: tighter) r3) eqn:S2; [exfalso; apply (Hs r3); [lia|exact S2]|discriminate|discriminate].
Qed.

Lemma climb_spec table ts :
  match climb table ts with
  | Some (t, r) => climb_f (climb_fuel table ts) (rev table) ts = COk t r
  | None => climb_f (climb_fuel table ts) (rev table) ts = CFail
  end.
Proof.
  unfold climb. pose proof (climb_total (climb_fuel table ts) (rev table) ts) as T.
  destruct (climb_f (climb_fuel table ts) (rev table) ts); [|reflexivity|reflexivity].
  exfalso. apply T; [|reflexivity]. unfold climb_fuel. rewrite rev_length. lia.
Qed.

(* C16_climb_partial *)
Theorem climb_partial dw ids base table lpar rpar cs ctab lp ts :
  base_chars dw base = Some cs -> ctable_of dw table = Some ctab -> par_spelling dw lpar = Some lp ->
  not_plain_and rpar = true -> no_overlapb dw cs lp ctab = true -> forallb (token_okb cs ctab) ts = true ->
  let G := fst (infix_ref dw ids base table lpar rpar) in
  let root := snd (infix_ref dw ids base table lpar rpar) in
  match climb ctab ts with
  | Some (t, r) => pegR G (render ts) root 0 (POk (length (render (firstn (length ts - length r) ts))) [t])
  | None => pegR G (render ts) root 0 PFail
  end.
Proof.
  intros Hb Ht Hp Hr Hno Htk G root.
  pose proof (climb_pegR dw ids base table lpar rpar cs ctab lp ts Hb Ht Hp Hr Hno Htk (climb_fuel ctab ts)) as [H1 H2].
  pose proof (climb_spec ctab ts) as S. destruct (climb ctab ts) as [[t r]|]; [apply H1; exact S|apply H2; exact S].
Qed.

(* the whole input is read iff climbing uses every token, with the same tree *)
Theorem climb_all_partial dw ids base table lpar rpar cs ctab lp ts :
  base_chars dw base = Some cs -> ctable_of dw table = Some ctab -> par_spelling dw lpar = Some lp ->
  not_plain_and rpar = true -> no_overlapb dw cs lp ctab = true -> forallb (token_okb cs ctab) ts = true ->
  forall t, pegR (fst (infix_ref dw ids base table lpar rpar)) (render ts) (snd (infix_ref dw ids base table lpar rpar)) 0
                 (POk (length (render ts)) [t]) <->
            climb_all ctab ts = Some t.
Proof.
  intros Hb Ht Hp Hr Hno Htk t.
  pose proof (climb_partial dw ids base table lpar rpar cs ctab lp ts Hb Ht Hp Hr Hno Htk) as H. cbv zeta in H.
  pose proof (climb_spec ctab ts) as S. unfold climb_all.
  pose proof (F_Hwf dw cs ctab lp ts Hno Htk) as Hwf. pose proof (F_Hsp dw cs ctab lp Hno) as Hsp.
  destruct (climb ctab ts) as [[t' r]|].
  - split.
    + intros HR. pose proof (pegR_fun _ _ _ _ _ _ H HR) as E. injection E as E1 E2. subst t'.
      destruct r as [|u r]; [reflexivity|]. exfalso.
      pose proof (climb_consumes _ _ _ _ _ S) as [m [Em _]].
      assert (Hs : suffix ts (u :: r)) by (exists m; exact Em).
      pose proof (pos_mono dw ts Hsp Hwf [] (u :: r)) as PM. rewrite app_nil_r in PM.
      specialize (PM Hs ltac:(discriminate)). rewrite pos_nil in PM. unfold pos in PM. lia.
    + intros E. destruct r; [|discriminate]. injection E as ->. cbn [length] in H. rewrite Nat.sub_0_r, firstn_all in H. exact H.
  - split; [|discriminate]. intros HR. pose proof (pegR_fun _ _ _ _ _ _ H HR). discriminate.
Qed.

(* composed with table_equiv: the grammar that infix_notation BUILDS reads as climbing *)
Theorem climb_partial_elab dw ids base table lpar rpar cs ctab lp ts :
  table_okb dw (start_skip base lpar) table = true ->
  base_chars dw base = Some cs -> ctable_of dw table = Some ctab -> par_spelling dw lpar = Some lp ->
  not_plain_and rpar = true -> no_overlapb dw cs lp ctab = true -> forallb (token_okb cs ctab) ts = true ->
  let G := fst (infix_elab dw ids base table lpar rpar) in
  let root := snd (infix_elab dw ids base table lpar rpar) in
  match climb ctab ts with
  | Some (t, r) => pegR G (render ts) root 0 (POk (length (render (firstn (length ts - length r) ts))) [t])
  | None => pegR G (render ts) root 0 PFail
  end.
Proof.
  intros Hok Hb Ht Hp Hr Hno Htk G root.
  pose proof (climb_partial dw ids base table lpar rpar cs ctab lp ts Hb Ht Hp Hr Hno Htk) as H. cbv zeta in H.
  destruct (table_equiv_b (render ts) dw ids base table lpar rpar Hok) as [ER EQ].
  unfold G, root. rewrite ER.
  destruct (climb ctab ts) as [[t r]|]; apply EQ; exact H.
Qed.
