(* C05, end to end: on every grammar of `in_class_n` (results names allowed, no actions), every input, every location,
   every fuel, the parser (Model/Core.v `step`, run by `parse`) returns results whose abstract view (token list with the
   nested sub-results, name table, list-all set) is the one the reference reading `names_of` (Model/NamesSpec.v) computes
   from the derivation.  The induction is that of Proofs/PegEquiv.v (`peg_equiv`), with the name table as an extra
   component of the relation; every step uses the view lemmas of Proofs/ResultsProofs.v (`iadd_view`, `setname_view`)
   and the `pr_init` view lemmas below. *)
From Coq Require Import List ZArith NArith Bool Arith Lia.
From PP Require Import Model.Str Model.Results Model.ResultsAPI Model.ResultsSpec Model.Prog Model.Core Model.Peg Model.NamesSpec.
From PP Require Import Proofs.ResultsProofs Proofs.PegEquiv Proofs.OrCombineFacts.
Import ListNotations.

(* ------------------------------------------------------------------------------------------- *)
(* `ParseResults(tokens, name, asList, modal)` seen through `view`                               *)
(* ------------------------------------------------------------------------------------------- *)
Lemma dict_set_same_view d k occ occ' :
  dict_get d k = Some occ -> occ_view occ' = occ_view occ -> dict_view (dict_set d k occ') = dict_view d.
Proof.
  induction d as [|[k0 v0] d IH]; simpl; [discriminate|].
  destruct (str_eqb k0 k) eqn:E.
  - intros [= ->] Ho. unfold dict_view, dmap. simpl. rewrite Ho. reflexivity.
  - intros Hg Ho. unfold dict_view, dmap in *. simpl. f_equal. apply IH; assumption.
Qed.

(* `self[name]._name = name` only touches `_name` of the stored value: invisible in the views *)
Lemma set_last_value_name_view r k : view (set_last_value_name r k) = view r.
Proof.
  unfold set_last_value_name. destruct (name_in k (allnames r)); [reflexivity|].
  destruct (dict_get (dict r) k) as [occ|] eqn:Eg; [|reflexivity].
  destruct (rev occ) as [|[v p] rest] eqn:Er; [reflexivity|].
  destruct v; try reflexivity.
  rewrite !view_eq. cbn [toks dict allnames]. f_equal.
  apply dict_set_same_view with (occ := occ); [exact Eg|].
  assert (occ = rev rest ++ [(TPR r0, p)]) as ->.
  { rewrite <- (rev_involutive occ), Er. reflexivity. }
  unfold occ_view. rewrite !map_app. reflexivity.
Qed.

(* a results object handed to `ParseResults(...)` : And, MatchFirst, Or, repetitions, Opt, Forward, ... *)
Lemma init_view_rpr p nm asl m :
  view (pr_init (RPR p) nm asl m) = nt_bind (view p) nm m (seq_value asl (av_list (view p))).
Proof.
  unfold pr_init, pr_init_gen. destruct nm as [[|c n]|]; try reflexivity.
  cbn [pr_new raw_is_null toks dict allnames rname nt_bind].
  match goal with |- context [pr_setname ?S _ _ _] => set (self2 := S) end.
  assert (H2 : view self2 = nt_flag (view p) (c :: n) m) by reflexivity.
  destruct asl; cbn [seq_value].
  - assert (forall X : pres, (if name_in (c :: n) (allnames self2) then X else X) = X) as -> by (intros; destruct (name_in _ _); reflexivity).
    rewrite set_last_value_name_view, setname_view, H2. reflexivity.
  - cbn [av_list view]. destruct (toks p) as [|v rest]; cbn [map hd_error].
    + exact H2.
    + rewrite setname_view, H2. reflexivity.
Qed.

(* a token string *)
Lemma init_view_rstr s0 nm m :
  view (pr_init (RStr s0) nm false m) = nt_bind (AV [VStr s0] [] []) nm m (Some (VStr s0)).
Proof. unfold pr_init, pr_init_gen. destruct nm as [[|c n]|]; reflexivity. Qed.

(* no tokens (`[]`): nothing is bound, whatever the flags *)
Lemma init_view_null nm asl m :
  view (pr_init (RList []) nm asl m) = nt_bind nt_empty nm m None.
Proof. unfold pr_init, pr_init_gen. destruct nm as [[|c n]|]; reflexivity. Qed.

(* Group: the one nested token is also the value of the name *)
Lemma init_view_group p nm asl m :
  view (pr_init (RList [TPR p]) nm asl m) = nt_bind (AV [vpr (view p)] [] []) nm m (Some (vpr (view p))).
Proof.
  unfold pr_init, pr_init_gen. destruct nm as [[|c n]|]; try reflexivity.
  cbn [pr_new raw_is_null toks dict allnames rname nt_bind pr_of_list pr_of_value].
  destruct asl.
  - match goal with |- context [set_last_value_name ?X ?K] => set (r3 := set_last_value_name X K); assert (H3 : view r3 = view X) by apply set_last_value_name_view end.
    assert (Hv : forall X : pres, view (PR (rename_head (c :: n) (toks X)) (dict X) (allnames X) (rname X) (modal X)) = view X).
    { intros X. rewrite !view_eq. cbn [toks dict allnames]. f_equal.
      destruct (toks X) as [|t rest]; [reflexivity|]. cbn [rename_head map]. f_equal. destruct t; reflexivity. }
    destruct (name_in (c :: n) _); [|rewrite Hv]; rewrite H3, setname_view; destruct m; reflexivity.
  - rewrite setname_view. destruct m; reflexivity.
Qed.

(* the default value of an unmatched Opt (a scalar) *)
Lemma init_view_scalar v nm asl m : default_ok v = true ->
  view (pr_init (RList [v]) nm asl m) = nt_bind (AV [tview v] [] []) nm m (seq_value asl [tview v]).
Proof.
  intros Hs. unfold pr_init, pr_init_gen. destruct nm as [[|c n]|]; try reflexivity.
  cbn [pr_new raw_is_null toks dict allnames rname nt_bind pr_of_list].
  destruct asl; cbn [seq_value hd_error].
  - match goal with |- context [set_last_value_name ?X ?K] => set (r3 := set_last_value_name X K); assert (H3 : view r3 = view X) by apply set_last_value_name_view end.
    assert (Hv : forall X : pres, toks X = [v] -> view (PR (rename_head (c :: n) (toks X)) (dict X) (allnames X) (rname X) (modal X)) = view X).
    { intros X HX. rewrite !view_eq. cbn [toks dict allnames]. f_equal. rewrite HX.
      destruct v; try discriminate Hs; reflexivity. }
    assert (Ht : toks r3 = [v]).
    { unfold r3, set_last_value_name. repeat match goal with |- context [match ?x with _ => _ end] => destruct x end; reflexivity. }
    destruct (name_in (c :: n) _); [|rewrite (Hv _ Ht)]; rewrite H3, setname_view;
      destruct v; try discriminate Hs; destruct m; reflexivity.
  - rewrite setname_view. destruct m; reflexivity.
Qed.

Lemma view_del_all r : view (pr_del_all r) = AV [] (av_map (view r)) (av_all (view r)).
Proof.
  unfold pr_del_all. rewrite view_PR.
  match goal with |- context [dict_view (map ?F (dict r))] =>
    change (map F (dict r)) with (map_positions (fun p : Z => fold_left (fun q j => if (Z.of_nat j <? q)%Z then (q - 1)%Z else q) (rev (seq 0 (length (toks r)))) p) (dict r)) end.
  rewrite dict_view_map_positions. reflexivity.
Qed.

(* ------------------------------------------------------------------------------------------- *)
(* the class: no actions, no ignorables                                                          *)
(* ------------------------------------------------------------------------------------------- *)
Section Equiv.
Variable G : env.
Variable s : str.
Hypothesis HG : env_in_class_n G = true.

Notation pparse := (parse (step G)).
Notation nnames := (names_of G s).
Notation all_n := (fix all (l : list expr) : bool := match l with [] => true | x :: r => in_class_n G x && all r end).

Definition ngood (o : option outcome) (r : nres) : Prop := nproj o = Some r.

Definition ninv (f : nat) : Prop := forall e, in_class_n G e = true -> forall loc d,
  ngood (pparse f (mkargs e s loc d true)) (nnames f e loc) /\
  (stable s e loc -> ngood (pparse f (mkargs e s loc d false)) (nnames f e loc)).

Lemma in_class_n_plain e : in_class_n G e = true -> acts (attrs_of e) = [] /\ ign_of e = [].
Proof.
  assert (Hn : forall a, names_attrs a = true -> acts a = []) by (intros a; unfold names_attrs; destruct (acts a); [auto|discriminate]).
  assert (Hi : forall i, no_ign i = true -> i = []) by (intros i; destruct i; [auto|discriminate]).
  destruct e as [a i t|a i k es|a i k c|a i z b ne|a i c inc ig fo|a i id]; simpl; intros H; try discriminate H.
  - repeat (apply andb_prop in H as [H ?]). auto.
  - destruct k; try discriminate H; repeat (apply andb_prop in H as [H ?]); auto.
  - repeat (apply andb_prop in H as [H ?]). auto.
  - destruct ne; [discriminate H|]. repeat (apply andb_prop in H as [H ?]). auto.
  - destruct id; [|discriminate H]. repeat (apply andb_prop in H as [H ?]). auto.
Qed.

Lemma pre_parse_n fail e loc k : in_class_n G e = true ->
  pre_parse fail e s loc k = k (if skipws (attrs_of e) then skip_white s loc (white (attrs_of e)) else loc).
Proof.
  intros H. destruct (in_class_n_plain e H) as [_ Hi].
  destruct e as [a i t|a i kk es|a i kk c|a i z b ne|a i c inc ig fo|a i id]; simpl in *; subst i; try reflexivity.
  all: try (unfold pre_parse; cbn [ign_of attrs_of]; rewrite skip_ignorables_nil; reflexivity).
  destruct t; simpl in H; rewrite ?andb_false_r in H; try discriminate H;
    unfold pre_parse; cbn [ign_of attrs_of]; rewrite skip_ignorables_nil; reflexivity.
Qed.

Lemma finish_n e d pl l r : in_class_n G e = true ->
  finish e d pl l r = Ret (Ok l (pr_init (post_parse e r) (rsname (attrs_of e)) (aslist (attrs_of e)) (modalr (attrs_of e)))).
Proof. intros H. destruct (in_class_n_plain e H) as [Ha _]. unfold finish. rewrite Ha. reflexivity. Qed.

Lemma step_n e loc d pre : in_class_n G e = true ->
  step G (mkargs e s loc d pre) =
  let L := if pre then eff s e loc else loc in
  impl G e s L d (step_k e s d L).
Proof.
  intros H. unfold step. cbn [a_e a_s a_do a_pre a_loc mkargs]. unfold eff.
  destruct pre; cbn [andb].
  - destruct (callpre (attrs_of e)); cbn [andb]; [|reflexivity].
    rewrite pre_parse_n by exact H. reflexivity.
  - reflexivity.
Qed.

(* an element that hands its content's results object on unchanged (postParse is the identity) *)
Definition passes (e : expr) : Prop := forall p, post_parse e (RPR p) = RPR p.

Lemma step_k_rpr f e d L l acc : in_class_n G e = true -> passes e ->
  ngood (run (pparse f) (step_k e s d L (inr (l, RPR acc)))) (NOk l (nt_name (attrs_of e) (view acc))).
Proof.
  intros He Hp. unfold step_k. rewrite finish_n by exact He. rewrite Hp.
  unfold ngood. cbn [run nproj]. rewrite init_view_rpr. reflexivity.
Qed.

Section Level.
Variable f : nat.
Hypothesis IH : ninv f.

Lemma fail_ngood e d L x : is_pe (xk x) = true ->
  ngood (run (pparse f) (fail_of (step_k e s d L) x)) NFail.
Proof. intros K. rewrite fail_pe by exact K. unfold ngood. simpl. rewrite K. reflexivity. Qed.

Lemma not_errorstop_n c : in_class_n G c = true ->
  match c with Tok _ _ KErrorStop => False | _ => True end.
Proof.
  destruct c as [a i t| | | | |]; try exact (fun _ => I). destruct t; try exact (fun _ => I).
  simpl. intros H. repeat (apply andb_prop in H as [H ?]). discriminate.
Qed.

Lemma all_in_n l c : all_n l = true -> In c l -> in_class_n G c = true.
Proof.
  induction l as [|x l IHl]; intros H [].
  - subst. apply andb_prop in H as [H _]. exact H.
  - apply andb_prop in H as [_ H]. apply IHl; assumption.
Qed.

Lemma and_go_n e d L a0 : in_class_n G e = true -> passes e ->
  forall rest, all_n rest = true ->
  forall loc acc,
  ngood (run (pparse f) (and_go (step_k e s d L) a0 s d rest loc acc false))
        (nwrap (attrs_of e) (nt_seq (nnames f) rest loc (view acc))).
Proof.
  intros He Hp. induction rest as [|c rest IHr]; intros Hall loc acc.
  - cbn [and_go nt_seq nwrap]. apply step_k_rpr; assumption.
  - apply andb_prop in Hall as [Hc Hall].
    pose proof (not_errorstop_n c Hc) as NE.
    assert (and_go (step_k e s d L) a0 s d (c :: rest) loc acc false =
            call c s loc d true (fun o =>
              match o with
              | Ok loc' r => and_go (step_k e s d L) a0 s d rest loc' (pr_iadd acc r) false
              | Div => Ret Div
              | Err x => fail_of (step_k e s d L) x
              end)) as ->.
    { destruct c as [a i t| | | | |]; try reflexivity. destruct t; try reflexivity. contradiction. }
    unfold call. cbn [run nt_seq].
    destruct (IH c Hc loc d) as [H1 _]. unfold ngood in H1.
    destruct (pparse f (mkargs c s loc d true)) as [[l r|x|]|]; simpl in H1.
    + injection H1 as <-. rewrite <- iadd_view. apply IHr. exact Hall.
    + destruct (is_pe (xk x)) eqn:K; [|discriminate]. injection H1 as <-.
      cbn [nwrap]. apply fail_ngood. exact K.
    + injection H1 as <-. reflexivity.
    + injection H1 as <-. reflexivity.
Qed.

Definition best_pe (best : option exn) : Prop := match best with Some b => is_pe (xk b) = true | None => True end.

Lemma alt_fail_n e d L L1 best : in_class_n G e = true -> best_pe best ->
  ngood (run (pparse f) (alt_fail (fail_of (step_k e s d L)) e s L1 best)) NFail.
Proof.
  intros He Hb. unfold alt_fail. destruct best as [b|].
  - rewrite pre_parse_n by exact He.
    match goal with |- context [fail_of _ ?X] => set (bx := X) end.
    assert (is_pe (xk bx) = true) as Kb.
    { unfold bx. destruct (xloc b =? _)%Z; [exact Hb|exact Hb]. }
    apply fail_ngood. exact Kb.
  - apply fail_ngood. reflexivity.
Qed.

Lemma better_pe best x : best_pe best -> is_pe (xk x) = true -> best_pe (better best x).
Proof. unfold better, best_pe. destruct best as [b|]; [destruct (xloc b <? xloc x)%Z|]; auto. Qed.

Lemma mf_go_n e d L : in_class_n G e = true -> passes e ->
  forall es, all_n es = true ->
  forall best, best_pe best ->
  ngood (run (pparse f) (mf_go (step_k e s d L) e s L d es best)) (nwrap (attrs_of e) (nt_first (nnames f) es L)).
Proof.
  intros He Hp. induction es as [|c rest IHr]; intros Hall best Hb.
  - cbn [mf_go nt_first nwrap]. apply alt_fail_n; assumption.
  - apply andb_prop in Hall as [Hc Hall]. cbn [mf_go nt_first]. unfold call. cbn [run].
    destruct (IH c Hc L d) as [H1 _]. unfold ngood in H1.
    destruct (pparse f (mkargs c s L d true)) as [[l r|x|]|]; simpl in H1.
    + injection H1 as <-. cbn [nwrap]. apply step_k_rpr; assumption.
    + destruct (is_pe (xk x)) eqn:K; [|discriminate]. injection H1 as <-.
      rewrite (is_pe_not_fatal _ K). rewrite ?K. apply IHr; [exact Hall|]. apply better_pe; assumption.
    + injection H1 as <-. reflexivity.
    + injection H1 as <-. reflexivity.
Qed.

(* ---- Or ('^') : as in PegEquiv.v; the alternative parsed again in the second pass returns the same view ---- *)
Definition or_k (e : expr) (d : bool) (L L1 : nat) : list (nat * expr) -> list (exn * nat) -> option exn -> prg :=
  fun matches fatals best =>
    let tail (best : option exn) : prg :=
      match pick_fatal fatals with
      | Some fx => fail_of (step_k e s d L) fx
      | None => alt_fail (fail_of (step_k e s d L)) e s L1 best
      end in
    match matches with
    | [] => tail best
    | _ =>
      let sorted := sort_desc (fun p => Z.of_nat (fst p)) matches in
      if negb d then
        match sorted with
        | (_, c) :: _ => call c s L1 false true (fun o => match o with Ok l r => step_k e s d L (inr (l, RPR r)) | _ => failo_of (step_k e s d L) o end)
        | [] => tail best
        end
      else or_go2 (step_k e s d L) tail s L1 sorted None best
    end.

Definition or_rel (L1 : nat) (matches : list (nat * expr)) (pb : option (nat * aview)) : Prop :=
  match pb with
  | None => matches = []
  | Some (l, v) => exists c rest, sort_desc (fun p => Z.of_nat (fst p)) matches = (l, c) :: rest /\
                                  in_class_n G c = true /\ nnames f c L1 = NOk l v
  end.

Lemma or_k_n e d L L1 : in_class_n G e = true -> passes e ->
  forall matches best pb, or_rel L1 matches pb -> best_pe best ->
  ngood (run (pparse f) (or_k e d L L1 matches [] best))
        (nwrap (attrs_of e) (match pb with Some (l, v) => NOk l v | None => NFail end)).
Proof.
  intros He Hp matches best pb HR Hb. destruct pb as [[l v]|]; cbn [or_rel] in HR.
  - destruct HR as (c & rest & Hs & Hc & Hpn).
    destruct matches as [|m ms]; [discriminate Hs|].
    unfold or_k. cbv zeta. rewrite Hs.
    assert (Hcall : forall d0, exists r, pparse f (mkargs c s L1 d0 true) = Some (Ok l r) /\ view r = v).
    { intros d0. destruct (IH c Hc L1 d0) as [H1 _]. unfold ngood in H1. rewrite Hpn in H1.
      destruct (pparse f (mkargs c s L1 d0 true)) as [[l' r|x|]|]; simpl in H1.
      - injection H1 as -> <-. eexists. split; reflexivity.
      - destruct (is_pe (xk x)); discriminate H1.
      - discriminate H1.
      - discriminate H1. }
    destruct d; cbn [negb].
    + cbn [or_go2]. unfold call. cbn [run]. destruct (Hcall true) as (r & -> & <-).
      rewrite Nat.leb_refl. cbn [nwrap]. apply step_k_rpr; assumption.
    + unfold call. cbn [run]. destruct (Hcall false) as (r & -> & <-). cbn [nwrap]. apply step_k_rpr; assumption.
  - subst matches. unfold or_k. cbv zeta. cbn [pick_fatal sort_desc fold_left nwrap]. apply alt_fail_n; assumption.
Qed.

Lemma or_pass1_n e d L L1 : in_class_n G e = true -> passes e ->
  forall es, all_n es = true ->
  forall matches best pb, or_rel L1 matches pb -> best_pe best ->
  ngood (run (pparse f) (or_pass1 (fail_of (step_k e s d L)) e es s L1 matches [] best (or_k e d L L1)))
        (nwrap (attrs_of e) (nt_longest (nnames f) es L1 pb)).
Proof.
  intros He Hp. induction es as [|c rest IHr]; intros Hall matches best pb HR Hb.
  - cbn [or_pass1 nt_longest]. apply or_k_n; assumption.
  - apply andb_prop in Hall as [Hc Hall]. cbn [or_pass1 nt_longest]. unfold try_parse, call. cbn [run].
    destruct (IH c Hc L1 false) as [H1 _]. unfold ngood in H1.
    destruct (pparse f (mkargs c s L1 false true)) as [[l r|x|]|]; simpl in H1.
    + injection H1 as H1. rewrite <- H1. apply IHr; [exact Hall| |exact Hb].
      destruct pb as [[bl bv]|]; cbn [or_rel] in HR |- *.
      * destruct HR as (c0 & rest0 & Hs & Hc0 & Hp0).
        destruct (sort_desc_head_step matches bl c0 rest0 l c Hs) as (rest' & Hs').
        destruct (Nat.ltb bl l); cbn [or_rel]; eexists; eexists; (split; [exact Hs'|]); split; auto.
      * subst matches. exists c, []. split; [reflexivity|]. split; auto.
    + destruct (is_pe (xk x)) eqn:K; [|discriminate]. injection H1 as H1. rewrite <- H1.
      rewrite (is_pe_not_fatal _ K). rewrite ?K. apply IHr; [exact Hall|exact HR|]. apply better_pe; assumption.
    + injection H1 as <-. reflexivity.
    + injection H1 as <-. reflexivity.
Qed.

Lemma rep_go_n e body d L foe : in_class_n G e = true -> passes e -> in_class_n G body = true ->
  forall n loc acc,
  ngood (run (pparse f) (rep_go (step_k e s d L) foe e body None s d n loc acc))
        (nwrap (attrs_of e) (nt_star (nnames f) n body loc (view acc))).
Proof.
  intros He Hp Hb. destruct (in_class_n_plain e He) as [_ Hi].
  induction n as [|n IHn]; intros loc acc; [reflexivity|].
  cbn [rep_go nt_star]. unfold check_ender. rewrite Hi. rewrite skip_ignorables_nil. unfold call. cbn [run].
  destruct (IH body Hb loc d) as [H1 _]. unfold ngood in H1.
  destruct (pparse f (mkargs body s loc d true)) as [[l r|x|]|]; simpl in H1.
  - injection H1 as <-. destruct (Nat.eqb l loc); [reflexivity|]. rewrite <- iadd_view. apply IHn.
  - destruct (is_pe (xk x)) eqn:K; [|discriminate]. injection H1 as <-.
    rewrite ?K. cbn [orb nwrap]. apply step_k_rpr; assumption.
  - injection H1 as <-. reflexivity.
  - injection H1 as <-. reflexivity.
Qed.

Lemma env_lookup_n id c : nth_error G id = Some c -> in_class_n G c = true.
Proof.
  intros H. unfold env_in_class_n in HG. rewrite forallb_forall in HG. apply HG. eapply nth_error_In. exact H.
Qed.

Lemma enh_rewrite_pe a b L x : is_pe (xk x) = true -> is_pe (xk (enh_rewrite a b L x)) = true.
Proof. intros K. unfold enh_rewrite. rewrite (is_pe_kind _ K). reflexivity. Qed.

Lemma tok_raw a t L l r : tok_in_class t = true -> tok_impl a t s L = IOk l r ->
  (exists s0, r = RStr s0) \/ r = RList [].
Proof.
  intros Hc. destruct t; try discriminate Hc; unfold tok_impl, pexc, pexc_sfx; cbv zeta;
    brk; intros H; try discriminate H; injection H as <- <-; eauto.
Qed.

Lemma level_step_n e : in_class_n G e = true -> forall loc0 d pre,
  (pre = false -> stable s e loc0) ->
  ngood (run (pparse f) (step G (mkargs e s loc0 d pre))) (nnames (S f) e loc0).
Proof.
  intros He loc0 d pre Hst.
  rewrite step_n by exact He. cbv zeta.
  assert ((if pre then eff s e loc0 else loc0) = eff s e loc0) as ->.
  { destruct pre; [reflexivity|]. symmetry. apply Hst. reflexivity. }
  set (L := eff s e loc0).
  destruct e as [a i t|a i k es|a i k c|a i z body ne|a i c inc ig fo|a i id]; cbn [names_of attrs_of]; fold L.
  - (* tokens *)
    pose proof He as He'. simpl in He. repeat (apply andb_prop in He as [He ?]).
    cbn [impl]. unfold step_k. cbn [attrs_of].
    destruct (tok_impl a t s L) as [l r|x|] eqn:E; cbv beta iota.
    + rewrite finish_n by exact He'. unfold ngood. cbn [run nproj post_parse attrs_of].
      unfold nt_name. destruct (aslist a); [discriminate|].
      destruct (tok_raw _ _ _ _ _ H0 E) as [[s0 ->]| ->].
      * rewrite init_view_rstr. reflexivity.
      * rewrite init_view_null. reflexivity.
    + unfold ngood. cbn [run nproj]. rewrite (tok_impl_exc_kind _ _ _ _ _ H0 E). reflexivity.
    + pose proof (tok_impl_index _ _ _ _ H0 E) as Hl.
      assert (Nat.leb (length s) L = true) as -> by (apply Nat.leb_le; exact Hl).
      rewrite orb_true_r. reflexivity.
  - destruct k; try discriminate He.
    + (* And *)
      pose proof He as He'. simpl in He. apply andb_prop in He as [He Hall]. apply andb_prop in He as [He Hck].
      destruct es as [|c rest]; [discriminate|].
      apply andb_prop in Hall as [Hc Hall].
      cbn [impl]. unfold call. cbn [run].
      destruct (IH c Hc L d) as [_ H2].
      specialize (H2 (stable_child s (Nary a i NAnd (c :: rest)) c loc0 Hck)). unfold ngood in H2.
      destruct (pparse f (mkargs c s L d false)) as [[l r|x|]|]; simpl in H2.
      * injection H2 as <-.
        apply (and_go_n (Nary a i NAnd (c :: rest)) d L a He'); [intros p; reflexivity|exact Hall].
      * destruct (is_pe (xk x)) eqn:K; [|discriminate]. injection H2 as <-.
        unfold failo_of. apply fail_ngood. exact K.
      * injection H2 as <-. reflexivity.
      * injection H2 as <-. reflexivity.
    + (* MatchFirst *)
      pose proof He as He'. simpl in He. apply andb_prop in He as [He Hall].
      cbn [impl]. apply (mf_go_n (Nary a i NMatchFirst es) d L He'); [intros p; reflexivity|exact Hall|exact I].
    + (* Or *)
      pose proof He as He'. simpl in He. apply andb_prop in He as [He Hall].
      cbn [impl attrs_of].
      destruct (forallb (fun c => callpre (attrs_of c)) es).
      * rewrite pre_parse_n by exact He'. cbn [attrs_of].
        apply (or_pass1_n (Nary a i NOr es) d L _ He'); [intros p; reflexivity|exact Hall|reflexivity|exact I].
      * apply (or_pass1_n (Nary a i NOr es) d L _ He'); [intros p; reflexivity|exact Hall|reflexivity|exact I].
  - (* enhancements *)
    pose proof He as He'. simpl in He. apply andb_prop in He as [He Hk]. apply andb_prop in He as [He Hc].
    destruct k; try discriminate Hk; cbn [impl]; unfold call, can_parse_next, try_parse, call; cbn [run].
    + (* EPass *)
      destruct (IH c Hc L d) as [_ H2].
      specialize (H2 (stable_child s (Enh a i EPass c) c loc0 Hk)). unfold ngood in H2.
      destruct (pparse f (mkargs c s L d false)) as [[l r|x|]|]; simpl in H2.
      * injection H2 as <-. cbn [nwrap]. apply (step_k_rpr f (Enh a i EPass c)); [exact He'|intros p; reflexivity].
      * destruct (is_pe (xk x)) eqn:K; [|discriminate]. injection H2 as <-.
        cbn [nwrap]. apply fail_ngood. apply enh_rewrite_pe. exact K.
      * injection H2 as <-. reflexivity.
      * injection H2 as <-. reflexivity.
    + (* EGroup false *)
      destruct aspy; [discriminate Hk|].
      destruct (IH c Hc L d) as [_ H2].
      specialize (H2 (stable_child s (Enh a i (EGroup false) c) c loc0 Hk)). unfold ngood in H2.
      destruct (pparse f (mkargs c s L d false)) as [[l r|x|]|]; simpl in H2.
      * injection H2 as <-. unfold step_k. rewrite finish_n by exact He'.
        unfold ngood. cbn [run nproj post_parse attrs_of]. rewrite init_view_group. reflexivity.
      * destruct (is_pe (xk x)) eqn:K; [|discriminate]. injection H2 as <-.
        apply fail_ngood. apply enh_rewrite_pe. exact K.
      * injection H2 as <-. reflexivity.
      * injection H2 as <-. reflexivity.
    + (* ESuppress *)
      destruct (IH c Hc L d) as [_ H2].
      specialize (H2 (stable_child s (Enh a i ESuppress c) c loc0 Hk)). unfold ngood in H2.
      destruct (pparse f (mkargs c s L d false)) as [[l r|x|]|]; simpl in H2.
      * injection H2 as <-. unfold step_k. rewrite finish_n by exact He'.
        unfold ngood. cbn [run nproj post_parse attrs_of]. rewrite init_view_null. reflexivity.
      * destruct (is_pe (xk x)) eqn:K; [|discriminate]. injection H2 as <-.
        apply fail_ngood. apply enh_rewrite_pe. exact K.
      * injection H2 as <-. reflexivity.
      * injection H2 as <-. reflexivity.
    + (* EOpt *)
      apply andb_prop in Hk as [Hk Hok].
      destruct (IH c Hc L d) as [_ H2].
      specialize (H2 (stable_child s (Enh a i (EOpt default) c) c loc0 Hk)). unfold ngood in H2.
      destruct (pparse f (mkargs c s L d false)) as [[l r|x|]|]; simpl in H2.
      * injection H2 as <-. cbn [nwrap]. apply (step_k_rpr f (Enh a i (EOpt default) c)); [exact He'|intros p; reflexivity].
      * destruct (is_pe (xk x)) eqn:K; [|discriminate]. injection H2 as <-.
        rewrite ?K. cbn [orb].
        unfold step_k. destruct default as [v|].
        -- unfold opt_ok in Hok. apply andb_prop in Hok as [Hsc Hm].
           destruct (rsname (attrs_of c)) as [[|c0 n0]|] eqn:En; rewrite finish_n by exact He';
             unfold ngood; cbn [run nproj post_parse attrs_of opt_default].
           ++ rewrite init_view_scalar by exact Hsc. reflexivity.
           ++ rewrite init_view_rpr, setname_view. reflexivity.
           ++ rewrite init_view_scalar by exact Hsc. reflexivity.
        -- rewrite finish_n by exact He'. unfold ngood. cbn [run nproj post_parse attrs_of].
           rewrite init_view_null. reflexivity.
      * injection H2 as <-. reflexivity.
      * injection H2 as <-. reflexivity.
    + (* ENot *)
      destruct (IH c Hc L d) as [H1 _]. unfold ngood in H1.
      destruct (pparse f (mkargs c s L d true)) as [[l r|x|]|]; simpl in H1.
      * injection H1 as <-. apply fail_ngood. reflexivity.
      * destruct (is_pe (xk x)) eqn:K; [|discriminate]. injection H1 as <-.
        rewrite (is_pe_not_fatal _ K). cbn [andb]. rewrite ?K. cbn [orb].
        unfold step_k. rewrite finish_n by exact He'. unfold ngood. cbn [run nproj post_parse attrs_of].
        rewrite init_view_null. reflexivity.
      * injection H1 as <-. reflexivity.
      * injection H1 as <-. reflexivity.
    + (* EFollowedBy *)
      destruct (IH c Hc L d) as [H1 _]. unfold ngood in H1.
      destruct (pparse f (mkargs c s L d true)) as [[l r|x|]|]; simpl in H1.
      * injection H1 as <-.
        pose proof (step_k_rpr f (Enh a i EFollowedBy c) d L L (pr_del_all r) He' (fun p => eq_refl)) as HH.
        rewrite view_del_all in HH. exact HH.
      * destruct (is_pe (xk x)) eqn:K; [|discriminate]. injection H1 as <-.
        unfold failo_of. apply fail_ngood. exact K.
      * injection H1 as <-. reflexivity.
      * injection H1 as <-. reflexivity.
    + (* ELookahead *)
      destruct (IH c Hc L false) as [H1 _]. unfold ngood in H1.
      destruct (pparse f (mkargs c s L false true)) as [[l r|x|]|]; simpl in H1.
      * injection H1 as <-. unfold step_k. rewrite finish_n by exact He'.
        unfold ngood. cbn [run nproj post_parse attrs_of]. rewrite init_view_null. reflexivity.
      * destruct (is_pe (xk x)) eqn:K; [|discriminate]. injection H1 as <-.
        rewrite (is_pe_not_fatal _ K). cbn [andb].
        unfold failo_of. apply fail_ngood. exact K.
      * injection H1 as <-. reflexivity.
      * injection H1 as <-. reflexivity.
  - (* repetition *)
    destruct ne as [ne|]; [discriminate He|].
    pose proof He as He'. simpl in He. apply andb_prop in He as [He Hb].
    cbn [impl]. unfold check_ender, call. cbn [run].
    destruct (IH body Hb L d) as [H1 _]. unfold ngood in H1.
    destruct (pparse f (mkargs body s L d true)) as [[l r|x|]|]; simpl in H1.
    + injection H1 as <-. apply rep_go_n; [exact He'|intros p; reflexivity|exact Hb].
    + destruct (is_pe (xk x)) eqn:K; [|discriminate]. injection H1 as <-.
      rewrite ?K. cbn [orb]. destruct z; cbn [andb].
      * pose proof (step_k_rpr f (Rep a i true body None) d L L (pr_init (RList []) (rsname a) true true) He' (fun p => eq_refl)) as HH.
        cbn [attrs_of] in HH |- *. rewrite init_view_null in HH.
        assert (nt_bind nt_empty (rsname a) true None = nt_empty) as E0 by (destruct (rsname a) as [[|c0 n0]|]; reflexivity).
        rewrite E0 in HH. exact HH.
      * apply fail_ngood. exact K.
    + injection H1 as <-. reflexivity.
    + injection H1 as <-. reflexivity.
  - discriminate He.
  - (* Forward *)
    destruct id as [id|]; [|discriminate He].
    pose proof He as He'. simpl in He. apply andb_prop in He as [He Hk].
    cbn [impl]. destruct (nth_error G id) as [c|] eqn:En.
    + pose proof (env_lookup_n id c En) as Hc.
      unfold call. cbn [run].
      destruct (IH c Hc L d) as [_ H2].
      specialize (H2 (stable_child s (Fwd a i (Some id)) c loc0 Hk)). unfold ngood in H2.
      destruct (pparse f (mkargs c s L d false)) as [[l r|x|]|]; simpl in H2.
      * injection H2 as <-. cbn [nwrap]. apply (step_k_rpr f (Fwd a i (Some id))); [exact He'|intros p; reflexivity].
      * destruct (is_pe (xk x)) eqn:K; [|discriminate]. injection H2 as <-.
        cbn [nwrap]. apply fail_ngood. apply enh_rewrite_pe. exact K.
      * injection H2 as <-. reflexivity.
      * injection H2 as <-. reflexivity.
    + apply fail_ngood. reflexivity.
Qed.
End Level.

Theorem names_equiv : forall f, ninv f.
Proof.
  induction f as [|f IHf]; intros e He loc d.
  - split; intros; reflexivity.
  - split; [|intros Hs]; cbn [parse]; apply level_step_n; try assumption; congruence.
Qed.
End Equiv.

(* the statement of Props/C05.v *)
Theorem names_e2e : forall (G : env) (s : str), env_in_class_n G = true ->
  forall f e, in_class_n G e = true -> forall loc d,
  nproj (parse (step G) f (mkargs e s loc d true)) = Some (names_of G s f e loc).
Proof. intros G s HG f e He loc d. exact (proj1 (names_equiv G s HG f e He loc d)). Qed.

(* ... read through the lookups of the public API: the token list, r[name] for every name, keys() and as_dict() of the
   results returned by the parser are those of the table the reference reading computes from the derivation *)
Theorem names_e2e_lookups : forall (G : env) (s : str), env_in_class_n G = true ->
  forall f e, in_class_n G e = true -> forall loc d l r,
  parse (step G) f (mkargs e s loc d true) = Some (Ok l r) ->
  exists v, names_of G s f e loc = NOk l v /\
    map tview (toks r) = av_list v /\
    (forall k, option_map tview (pr_getname r k) = mm_lookup v k) /\
    keys r = map fst (av_map v) /\
    map (fun kv => (fst kv, dview (snd kv))) (as_dict r) = spec_as_dict v.
Proof.
  intros G s HG f e He loc d l r Hp.
  pose proof (names_e2e G s HG f e He loc d) as H. rewrite Hp in H. cbn [nproj] in H. injection H as H.
  exists (view r). split; [symmetry; exact H|]. split; [reflexivity|]. split; [intros k; apply getname_view|].
  split; [|apply as_dict_view].
  unfold keys. cbn [view av_map]. rewrite map_map. reflexivity.
Qed.
