(* C03: enabling left-recursion support is transparent for ordinary grammars.
   Part A: the instrumented handler of Model/LRT.v computes exactly what Model/LR.v's handler computes (erasure).
   Part B: memo-table lemmas (UnboundedMemo and LRUMemo only ever forget or store what they are given).
   Part C: every `_parse` call issued by `step` is on the same input string and on a sub-expression that respects the
           Forward-identity table (inspection of `step`).
   Part D: the continuation of `pre_parse` can be split off.
   Part E: the simulation: a flag-free run of `parse_lr_t` answers what the plain parser answers, and keeps the invariant.
   Part F: entry points. *)
From Coq Require Import List ZArith NArith Bool Arith Lia.
From PP Require Import Model.Str Model.Results Model.Prog Model.Core Model.Entry Model.LR Model.LRT.
From PP Require Import Proofs.Packrat Proofs.EqDec Proofs.PackratCore Proofs.EachFacts.
Import ListNotations.

(* ------------------------------------------------------------------------------------------- *)
(* Part A: erasure                                                                              *)
(* ------------------------------------------------------------------------------------------- *)
Definition er (r : res_t) : option (outcome * memo) := option_map fst r.

Lemma er_with_fl f r : er (with_fl f r) = er r.
Proof. destruct r as [[[o m] g]|]; reflexivity. Qed.

Section Erase.
Variable rect : memo -> args -> res_t.
Variable rec : memo -> args -> option (outcome * memo).
Hypothesis Hrec : forall m a, er (rect m a) = rec m a.

Lemma runm_er p : forall m, er (runm_t rect m p) = runm rec m p.
Proof.
  induction p as [o|a k IH]; intros m; cbn [runm_t runm]; [reflexivity|].
  rewrite <- Hrec. destruct (rect m a) as [[[o m'] f]|]; cbn [er option_map fst]; [|reflexivity].
  rewrite er_with_fl. apply IH.
Qed.

Lemma super_impl_er a body s loc d m : er (super_impl_t rect a body s loc d m) = super_impl rec a body s loc d m.
Proof.
  unfold super_impl_t, super_impl. rewrite <- Hrec.
  destruct (rect m (mkargs body s loc d false)) as [[[[l r|x|] m'] f]|]; reflexivity.
Qed.

Lemma lr_loop_er a body s loc d : forall fuel prev_loc prev_peek m,
  er (lr_loop_t rect fuel a body s loc d prev_loc prev_peek m) = lr_loop rec fuel a body s loc d prev_loc prev_peek m.
Proof.
  induction fuel as [|f IH]; intros prev_loc prev_peek m; [reflexivity|].
  cbn [lr_loop_t lr_loop]. rewrite <- super_impl_er.
  destruct (super_impl_t rect a body s loc false m) as [[[o m1] f1]|]; cbn [er option_map fst]; [|reflexivity].
  rewrite er_with_fl.
  assert (Hcont : forall new_loc new_peek,
    er (if (new_loc <=? prev_loc)%Z then
          if d then
            match memo_get m1 (loc, nid a, true) with
            | None => Some (Err (mkx XKey 0%Z MEmpty None), m1, Build_flags false false false false false true)
            | Some ((pl, pr), m2) =>
              let m3 := memo_set m2 (loc, nid a, false) (pl, pr) in
              let m4 := memo_del (memo_del m3 (loc, nid a, false)) (loc, nid a, true) in
              let sd := is_seed (loc, nid a, true) (pl, pr) in
              let fl := Build_flags sd false false (negb sd && negb (mval_same (pl, pr) (prev_loc, prev_peek))) false false in
              match pr with
              | MOk r => Some (Ok (Z.to_nat pl) r, m4, fl)
              | MExc x => Some (Err x, m4, fl)
              end
            end
          else
            let m2 := memo_del m1 (loc, nid a, false) in
            let fl := Build_flags false (is_seed (loc, nid a, false) (prev_loc, prev_peek)) false false false false in
            match prev_peek with
            | MOk r => Some (Ok (Z.to_nat prev_loc) r, m2, fl)
            | MExc x => Some (Err x, m2, fl)
            end
        else
          if d then
            match super_impl_t rect a body s loc true m1 with
            | None => None
            | Some (Ok l r, m2, f2) =>
              let m3 := memo_set m2 (loc, nid a, true) (Z.of_nat l, MOk r) in
              with_fl f2 (lr_loop_t rect f a body s loc d new_loc new_peek (memo_set m3 (loc, nid a, false) (new_loc, new_peek)))
            | Some (Err x, m2, f2) =>
              if is_pe (xk x) then
                let m3 := memo_set m2 (loc, nid a, true) (new_loc, MExc x) in
                Some (Err x, memo_set m3 (loc, nid a, false) (new_loc, MExc x), fl_or f2 (Build_flags false false true false false false))
              else Some (Err x, m2, f2)
            | Some (Div, m2, f2) => Some (Div, m2, f2)
            end
          else lr_loop_t rect f a body s loc d new_loc new_peek (memo_set m1 (loc, nid a, false) (new_loc, new_peek)))
    = (if (new_loc <=? prev_loc)%Z then
          if d then
            match memo_get m1 (loc, nid a, true) with
            | None => Some (Err (mkx XKey 0%Z MEmpty None), m1)
            | Some ((pl, pr), m2) =>
              let m3 := memo_set m2 (loc, nid a, false) (pl, pr) in
              let m4 := memo_del (memo_del m3 (loc, nid a, false)) (loc, nid a, true) in
              match pr with
              | MOk r => Some (Ok (Z.to_nat pl) r, m4)
              | MExc x => Some (Err x, m4)
              end
            end
          else
            let m2 := memo_del m1 (loc, nid a, false) in
            match prev_peek with
            | MOk r => Some (Ok (Z.to_nat prev_loc) r, m2)
            | MExc x => Some (Err x, m2)
            end
        else
          if d then
            match super_impl rec a body s loc true m1 with
            | None => None
            | Some (Ok l r, m2) =>
              let m3 := memo_set m2 (loc, nid a, true) (Z.of_nat l, MOk r) in
              lr_loop rec f a body s loc d new_loc new_peek (memo_set m3 (loc, nid a, false) (new_loc, new_peek))
            | Some (Err x, m2) =>
              if is_pe (xk x) then
                let m3 := memo_set m2 (loc, nid a, true) (new_loc, MExc x) in
                Some (Err x, memo_set m3 (loc, nid a, false) (new_loc, MExc x))
              else Some (Err x, m2)
            | Some (Div, m2) => Some (Div, m2)
            end
          else lr_loop rec f a body s loc d new_loc new_peek (memo_set m1 (loc, nid a, false) (new_loc, new_peek)))).
  { intros new_loc new_peek. destruct (new_loc <=? prev_loc)%Z; destruct d.
    - destruct (memo_get m1 (loc, nid a, true)) as [[[pl [r|x]] m2]|]; reflexivity.
    - destruct prev_peek; reflexivity.
    - rewrite <- super_impl_er.
      destruct (super_impl_t rect a body s loc true m1) as [[[[l' r'|x'|] m2] f2]|]; cbn [er option_map fst]; try reflexivity.
      + cbv zeta. rewrite er_with_fl. apply IH.
      + destruct (is_pe (xk x')); reflexivity.
    - apply IH. }
  destruct o as [l r|x|].
  - apply Hcont.
  - destruct (is_pe (xk x)); [|reflexivity]. destruct prev_peek as [r0|x0]; [apply Hcont|reflexivity].
  - reflexivity.
Qed.

Lemma lr_forward_er a body s loc d m : er (lr_forward_t rect a body s loc d m) = lr_forward rec a body s loc d m.
Proof.
  unfold lr_forward_t, lr_forward.
  destruct (memo_get m (loc, nid a, d)) as [[[pl [r|x]] m1]|]; try reflexivity.
  apply lr_loop_er.
Qed.
End Erase.

Lemma parse_lr_er G : forall fuel m ar, er (parse_lr_t G fuel m ar) = parse_lr G fuel m ar.
Proof.
  induction fuel as [|f IH]; intros m ar; [reflexivity|].
  cbn [parse_lr_t parse_lr].
  pose proof (runm_er (parse_lr_t G f) (parse_lr G f) IH) as Hrun.
  destruct (a_e ar) as [a i t|a i kd es|a i kd c|a i z body ne|a i target incl ig2 fo|a i [id|]]; try apply Hrun.
  destruct (nth_error G id) as [body|]; [|apply Hrun].
  rewrite <- Hrun.
  destruct (runm_t (parse_lr_t G f) m _) as [[[[pl r0|x0|] m1] f1]|]; cbn [er option_map fst]; try reflexivity.
  rewrite er_with_fl. rewrite <- (lr_forward_er (parse_lr_t G f) (parse_lr G f) IH).
  destruct (lr_forward_t (parse_lr_t G f) a body (a_s ar) pl (a_do ar) m1) as [[[[l r|x|] m2] f2]|];
    cbn [er option_map fst]; try reflexivity; rewrite er_with_fl; apply Hrun.
Qed.

(* the two readings of the erasure lemma *)
Lemma parse_lr_t_erase G fuel m ar o m' fl : parse_lr_t G fuel m ar = Some (o, m', fl) -> parse_lr G fuel m ar = Some (o, m').
Proof. intros H. rewrite <- parse_lr_er, H. reflexivity. Qed.

Lemma parse_lr_t_total G fuel m ar o m' : parse_lr G fuel m ar = Some (o, m') -> exists fl, parse_lr_t G fuel m ar = Some (o, m', fl).
Proof.
  intros H. rewrite <- parse_lr_er in H. destruct (parse_lr_t G fuel m ar) as [[[o1 m1] fl]|]; [|discriminate].
  injection H as <- <-. exists fl. reflexivity.
Qed.

Lemma drunm_er G {R} (p : dprog R) fuel : forall m,
  option_map fst (drunm_t (parse_lr_t G fuel) m p) = drunm (parse_lr G fuel) m p.
Proof.
  induction p as [r|a k IH]; intros m; cbn [drunm_t drunm]; [reflexivity|].
  rewrite <- parse_lr_er. destruct (parse_lr_t G fuel m a) as [[[o m'] f]|]; cbn [er option_map fst]; [|reflexivity].
  rewrite <- IH. destruct (drunm_t (parse_lr_t G fuel) m' (k o)) as [[[r m''] g]|]; reflexivity.
Qed.

(* ------------------------------------------------------------------------------------------- *)
(* Part B: memo tables                                                                          *)
(* ------------------------------------------------------------------------------------------- *)
Lemma mkey_eqb_eq k k' : mkey_eqb k k' = true -> k = k'.
Proof.
  destruct k as [[l f] d], k' as [[l' f'] d']. cbn. intros H.
  apply andb_prop in H as [H H3]. apply andb_prop in H as [H1 H2].
  apply Nat.eqb_eq in H1, H2. apply eqb_prop in H3. subst. reflexivity.
Qed.

Lemma assoc_in {V} (d : list (mkey * V)) k v : assoc d k = Some v -> In (k, v) d.
Proof.
  induction d as [|[k' v'] d IH]; cbn; [discriminate|].
  destruct (mkey_eqb k' k) eqn:E.
  - intros [= <-]. left. rewrite (mkey_eqb_eq _ _ E). reflexivity.
  - intros H. right. apply IH. exact H.
Qed.

Lemma aset_in {V} (d : list (mkey * V)) k v x : In x (aset d k v) -> In x d \/ x = (k, v).
Proof.
  induction d as [|[k' v'] d IH]; cbn.
  - intros [<-|[]]. right. reflexivity.
  - destruct (mkey_eqb k' k) eqn:E; cbn; intros [<-|H].
    + right. rewrite (mkey_eqb_eq _ _ E). reflexivity.
    + left. right. exact H.
    + left. left. reflexivity.
    + destruct (IH H) as [H1|H1]; [left; right; exact H1|right; exact H1].
Qed.

Lemma aremove_in {V} (d : list (mkey * V)) k x : In x (aremove d k) -> In x d.
Proof.
  induction d as [|[k' v'] d IH]; cbn; [tauto|].
  destruct (mkey_eqb k' k); cbn; [tauto|]. intros [<-|H]; [left; reflexivity|right; apply IH; exact H].
Qed.

Lemma skipn_in {X} n : forall (l : list X) x, In x (skipn n l) -> In x l.
Proof. induction n as [|n IH]; intros [|y l] x H; cbn in *; auto. Qed.

Definition In_memo (x : mkey * mval) (m : memo) : Prop := In x (m_active m) \/ In x (m_memory m).

Section MemoAll.
Variable P : mkey -> mval -> Prop.
Definition mall (m : memo) : Prop := forall k v, In_memo (k, v) m -> P k v.

Lemma mall_empty cap : mall (memo_empty cap).
Proof. intros k v [[]|[]]. Qed.

Lemma mall_get m k v m' : memo_get m k = Some (v, m') -> mall m -> P k v /\ mall m'.
Proof.
  unfold memo_get. intros H Hm.
  destruct (m_cap m) as [c|].
  - destruct (assoc (m_active m) k) as [v0|] eqn:E.
    + injection H as <- <-. split; [|exact Hm]. apply Hm. left. apply assoc_in. exact E.
    + destruct (assoc (m_memory m) k) as [v0|] eqn:E2; [|discriminate]. injection H as <- <-.
      assert (P k v0) as Hp by (apply Hm; right; apply assoc_in; exact E2).
      split; [exact Hp|]. intros k1 v1 [H1|H1]; cbn in H1.
      * apply Hm. left. exact H1.
      * apply in_app_iff in H1 as [H1|[H1|[]]].
        -- apply Hm. right. eapply aremove_in. exact H1.
        -- injection H1 as <- <-. exact Hp.
  - destruct (assoc (m_active m) k) as [v0|] eqn:E; [|discriminate].
    injection H as <- <-. split; [|exact Hm]. apply Hm. left. apply assoc_in. exact E.
Qed.

Lemma mall_set m k v : mall m -> P k v -> mall (memo_set m k v).
Proof.
  intros Hm Hp. unfold memo_set. destruct (m_cap m) as [c|]; intros k1 v1 [H1|H1]; cbn in H1.
  - apply aset_in in H1 as [H1|H1]; [apply Hm; left; exact H1|injection H1 as -> ->; exact Hp].
  - apply Hm. right. eapply aremove_in. exact H1.
  - apply aset_in in H1 as [H1|H1]; [apply Hm; left; exact H1|injection H1 as -> ->; exact Hp].
  - apply Hm. right. exact H1.
Qed.

Lemma mall_del m k : mall m -> mall (memo_del m k).
Proof.
  intros Hm. unfold memo_del. destruct (m_cap m) as [c|]; [|exact Hm].
  destruct (assoc (m_active m) k) as [v|] eqn:E; [|exact Hm].
  intros k1 v1 [H1|H1]; cbn in H1.
  - apply Hm. left. eapply aremove_in. exact H1.
  - apply in_app_iff in H1 as [H1|[H1|[]]].
    + apply Hm. right. eapply skipn_in. eapply aremove_in. exact H1.
    + injection H1 as <- <-. apply Hm. left. apply assoc_in. exact E.
Qed.
End MemoAll.

(* flags *)
Lemma fl_or_0 f g : fl_or f g = fl0 -> f = fl0 /\ g = fl0.
Proof.
  destruct f as [a1 a2 a3 a4 a5 a6], g as [b1 b2 b3 b4 b5 b6]. unfold fl_or, fl0. cbn. intros H.
  injection H as H1 H2 H3 H4 H5 H6.
  apply orb_false_elim in H1 as [-> ->]. apply orb_false_elim in H2 as [-> ->]. apply orb_false_elim in H3 as [-> ->].
  apply orb_false_elim in H4 as [-> ->]. apply orb_false_elim in H5 as [-> ->]. apply orb_false_elim in H6 as [-> ->].
  split; reflexivity.
Qed.

Lemma with_fl_0 f r o m : with_fl f r = Some (o, m, fl0) -> f = fl0 /\ r = Some (o, m, fl0).
Proof.
  destruct r as [[[o1 m1] g]|]; cbn [with_fl]; [|discriminate]. intros H.
  assert (fl_or f g = fl0) as H0 by congruence. assert (o1 = o) as -> by congruence. assert (m1 = m) as -> by congruence.
  apply fl_or_0 in H0 as [-> ->]. split; reflexivity.
Qed.

Lemma fl_clean_0 f : fl_clean f = true -> f = fl0.
Proof. destruct f as [[] [] [] [] [] []]; cbn; intros H; try discriminate; reflexivity. Qed.

Lemma is_seed_seed loc fid d : is_seed (loc, fid, d) ((Z.of_nat loc - 1)%Z, MExc (mkx XParse (Z.of_nat loc) MFwdNoBase (Some fid))) = true.
Proof. cbn. rewrite !Z.eqb_refl, Nat.eqb_refl. reflexivity. Qed.

Lemma mval_same_eq v w : mval_same v w = true -> v = w.
Proof.
  destruct v as [l1 [r1|x1]], w as [l2 [r2|x2]]; cbn; try discriminate.
  intros H. apply andb_prop in H as [H1 H2]. apply Z.eqb_eq in H1. destruct (pres_eq_dec r1 r2); [|discriminate]. subst. reflexivity.
Qed.

Lemma same_fail_eq o1 o2 : same_fail o1 o2 = true -> o1 = o2.
Proof.
  destruct o1 as [l1 r1|x1|], o2 as [l2 r2|x2|]; cbn; try discriminate; [|reflexivity].
  destruct (exn_eq_dec x1 x2); [|discriminate]. subst. reflexivity.
Qed.

(* ------------------------------------------------------------------------------------------- *)
(* Part C: the calls issued by `step`                                                            *)
(* ------------------------------------------------------------------------------------------- *)
Inductive calls (C : args -> Prop) : prg -> Prop :=
| C_ret o : calls C (Ret o)
| C_call a k : C a -> (forall o, calls C (k o)) -> calls C (Call a k).

Lemma Forall_insert_desc' {X} (P : X -> Prop) key x : forall l, P x -> Forall P l -> Forall P (insert_desc key x l).
Proof.
  induction l as [|y t IH]; intros Hx Hl; cbn; [constructor; [exact Hx|constructor]|].
  destruct (key y <? key x)%Z; [constructor; assumption|].
  inversion Hl; subst. constructor; [assumption|apply IH; assumption].
Qed.

Lemma Forall_sort_desc' {X} (P : X -> Prop) key (l : list X) : Forall P l -> Forall P (sort_desc key l).
Proof.
  unfold sort_desc. intros H. assert (Forall P (@nil X)) as H0 by constructor. revert H0. generalize (@nil X).
  induction H as [|x l Hx Hl IH]; intros acc Ha; cbn; [exact Ha|].
  apply IH. apply Forall_insert_desc'; assumption.
Qed.

Section Calls.
Variable G : env.
Variable tbl : nat -> option nat.
Variable s : str.
Hypothesis HG : forallb (fw tbl) G = true.

Notation fwb := (fw tbl).
Definition Cs (a : args) : Prop := a_s a = s /\ fwb (a_e a) = true.
Notation K := (calls Cs).

Lemma fwl_fix l : (fix fwl (l : list expr) : bool := match l with [] => true | x :: r => fwb x && fwl r end) l = forallb fwb l.
Proof. induction l; cbn; congruence. Qed.

Lemma fw_ign e : fwb e = true -> forallb fwb (ign_of e) = true.
Proof. destruct e; cbn [fw ign_of]; rewrite ?fwl_fix; intros H; repeat (apply andb_prop in H as [H ?]); auto. Qed.

Ltac ret := apply C_ret.
Ltac callc Hc := apply C_call; [split; [reflexivity|exact Hc]|intros [?l ?r|?x|]].

Lemma K_skip_inner fail fuel : forall ig loc found k,
  fwb ig = true -> (forall x, K (fail x)) -> (forall l b, K (k l b)) -> K (skip_ign_inner fail fuel ig s loc found k).
Proof.
  induction fuel as [|f IH]; intros ig loc found k Hw Hf Hk; cbn [skip_ign_inner]; [ret|].
  unfold call. callc Hw.
  - apply IH; assumption.
  - destruct (is_pe (xk x)); [apply Hk|apply Hf].
  - ret.
Qed.

Lemma K_skip_pass fail fuel : forall igs loc found k,
  forallb fwb igs = true -> (forall x, K (fail x)) -> (forall l b, K (k l b)) -> K (skip_ign_pass fail fuel igs s loc found k).
Proof.
  induction igs as [|ig igs IH]; intros loc found k Hw Hf Hk; cbn [skip_ign_pass]; [apply Hk|].
  cbn in Hw. apply andb_prop in Hw as [H1 H2].
  apply K_skip_inner; try assumption. intros l b. apply IH; assumption.
Qed.

Lemma K_skip_ignorables fail : forall rounds igs loc k,
  forallb fwb igs = true -> (forall x, K (fail x)) -> (forall l, K (k l)) -> K (skip_ignorables fail rounds igs s loc k).
Proof.
  induction rounds as [|r IH]; intros igs loc k Hw Hf Hk; destruct igs as [|ig igs]; cbn [skip_ignorables]; try apply Hk; [ret|].
  apply K_skip_pass; try assumption.
  intros l b. destruct (negb b); [apply Hk|]. destruct (Nat.eqb l loc); [apply Hk|]. apply IH; assumption.
Qed.

Lemma K_pre_parse fail e loc k :
  fwb e = true -> (forall x, K (fail x)) -> (forall l, K (k l)) -> K (pre_parse fail e s loc k).
Proof.
  intros Hw Hf Hk. pose proof (fw_ign e Hw) as Hi.
  unfold pre_parse.
  destruct e as [a i t| | | | |]; try (apply K_skip_ignorables; [exact Hi|exact Hf|intros; apply Hk]).
  destruct t; try (apply K_skip_ignorables; [exact Hi|exact Hf|intros; apply Hk]).
  - destruct loc; [apply Hk|]. destruct orig_has_nl; apply Hk.
  - destruct (Nat.eqb (col_at s loc) c); [apply Hk|]. apply K_skip_ignorables; [exact Hi|exact Hf|intros; apply Hk].
Qed.

Lemma K_escape x : K (escape x).
Proof. ret. Qed.

Lemma K_finish e d pl l r : K (finish e d pl l r).
Proof.
  unfold finish. destruct (acts (attrs_of e)); [ret|].
  destruct (d || calltry (attrs_of e)); [|ret]. destruct (run_actions _ _ _ _); ret.
Qed.

Lemma K_step_k e d pl res : K (step_k e s d pl res).
Proof.
  unfold step_k. destruct res as [[l r|x|]|[l r]]; try apply K_finish; [ret|].
  destruct (mayidx (attrs_of e) || Nat.leb (length s) pl); ret.
Qed.

Section Impl.
Variable k : kont -> prg.
Hypothesis Hk : forall res, K (k res).

Lemma K_fail x : K (fail_of k x).
Proof. unfold fail_of. apply Hk. Qed.

Lemma K_failo o : K (failo_of k o).
Proof. destruct o; cbn [failo_of]; try ret. apply K_fail. Qed.

Lemma K_alt_fail e0 loc best : fwb e0 = true -> K (alt_fail (fail_of k) e0 s loc best).
Proof.
  intros Hw. unfold alt_fail. destruct best as [b|]; [|apply K_fail].
  apply K_pre_parse; [exact Hw|apply K_fail|]. intros l. apply K_fail.
Qed.

Lemma K_and_go a d : forall es loc acc estop, forallb fwb es = true -> K (and_go k a s d es loc acc estop).
Proof.
  induction es as [|c rest IH]; intros loc acc estop Hw; cbn [and_go]; [apply Hk|].
  cbn in Hw. apply andb_prop in Hw as [Hc Hr].
  assert (Hgen : K (call c s loc d true (fun o =>
            match o with
            | Ok loc' r => and_go k a s d rest loc' (pr_iadd acc r) estop
            | Div => Ret Div
            | Err x =>
              if estop then
                match xk x with
                | XSyntax => fail_of k x
                | XParse | XFatal => fail_of k (mkx XSyntax (xloc x) (xmsg x) (xel x))
                | XIndex => fail_of k (mkx XSyntax (Z.of_nat (length s)) (MNode (nid a) 0) (Some (nid a)))
                | _ => fail_of k x
                end
              else fail_of k x
            end))).
  { unfold call. callc Hc.
    - apply IH; exact Hr.
    - destruct estop; [|apply K_fail]. destruct (xk x); apply K_fail.
    - ret. }
  destruct c as [ac ic tc| | | | |]; try exact Hgen.
  destruct tc; try exact Hgen. apply IH; exact Hr.
Qed.

Lemma K_mf_go e0 loc d : fwb e0 = true -> forall es best, forallb fwb es = true -> K (mf_go k e0 s loc d es best).
Proof.
  intros Hw0. induction es as [|c rest IH]; intros best Hw; cbn [mf_go]; [apply K_alt_fail; assumption|].
  cbn in Hw. apply andb_prop in Hw as [Hc Hr]. unfold call. callc Hc.
  - apply Hk.
  - destruct (is_fatal (xk x)); [apply K_fail|].
    destruct (is_pe (xk x)); [apply IH; exact Hr|].
    destruct (is_index (xk x)); [apply IH; exact Hr|apply K_fail].
  - ret.
Qed.

Lemma K_try_parse c loc d rf kk : fwb c = true -> (forall o, K (kk o)) -> K (try_parse c s loc d rf kk).
Proof.
  intros Hc Hkk. unfold try_parse, call. callc Hc.
  - apply Hkk.
  - destruct (is_fatal (xk x) && negb rf); apply Hkk.
  - apply Hkk.
Qed.

Lemma K_can_parse_next c loc d kk : fwb c = true -> (forall b, K (kk b)) -> K (can_parse_next (fail_of k) c s loc d kk).
Proof.
  intros Hc Hkk. unfold can_parse_next. apply K_try_parse; [exact Hc|].
  intros [l r|x|]; [apply Hkk| |ret].
  destruct (is_pe (xk x) || is_index (xk x)); [apply Hkk|apply K_fail].
Qed.

Lemma K_check_ender ne loc kk : (match ne with Some n => fwb n = true | None => True end) ->
  (forall r, K (kk r)) -> K (check_ender ne s loc kk).
Proof.
  intros Hn Hkk. unfold check_ender. destruct ne as [n|]; [|apply Hkk].
  apply K_try_parse; [exact Hn|]. intros [l r|x|]; apply Hkk.
Qed.

Lemma K_or_pass1 e0 loc : forall es matches fatals best kk,
  forallb fwb es = true ->
  Forall (fun p => fwb (snd p) = true) matches ->
  (forall ms fs b, Forall (fun p : nat * expr => fwb (snd p) = true) ms -> K (kk ms fs b)) ->
  K (or_pass1 (fail_of k) e0 es s loc matches fatals best kk).
Proof.
  induction es as [|c rest IH]; intros matches fatals best kk Hw Hm Hkk; cbn [or_pass1]; [apply Hkk; assumption|].
  cbn in Hw. apply andb_prop in Hw as [Hc Hr]. apply K_try_parse; [exact Hc|].
  intros [l r|x|].
  - apply IH; try assumption. apply Forall_app. split; [exact Hm|]. constructor; [exact Hc|constructor].
  - destruct (is_fatal (xk x)); [apply IH; assumption|].
    destruct (is_pe (xk x)); [apply IH; assumption|].
    destruct (is_index (xk x)); [apply IH; assumption|apply K_fail].
  - ret.
Qed.

Lemma K_or_go2 tail loc : (forall b, K (tail b)) ->
  forall ms longest best, Forall (fun p : nat * expr => fwb (snd p) = true) ms -> K (or_go2 k tail s loc ms longest best).
Proof.
  intros Ht. induction ms as [|[loc1 c] rest IH]; intros longest best Hm; cbn [or_go2].
  - destruct longest as [[l r]|]; [apply Hk|apply Ht].
  - inversion Hm as [|? ? Hc Hr]; subst. cbn in Hc.
    destruct (match longest with Some (l, _) => Nat.leb loc1 l | None => false end).
    + destruct longest as [[l r]|]; [apply Hk|ret].
    + unfold call. callc Hc.
      * destruct (Nat.leb loc1 l); [apply Hk|]. apply IH; assumption.
      * destruct (is_pe (xk x)); [|apply K_fail]. apply IH; exact Hr.
      * ret.
Qed.

Lemma K_rep_go foe e0 body ne d : forallb fwb (ign_of e0) = true -> fwb body = true ->
  (match ne with Some n => fwb n = true | None => True end) ->
  (forall o, K (foe o)) ->
  forall fuel loc acc, K (rep_go k foe e0 body ne s d fuel loc acc).
Proof.
  intros Hi Hb Hn Hfoe. induction fuel as [|f IH]; intros loc acc; cbn [rep_go]; [ret|].
  assert (Hstop : forall o, K (match o with
            | Err x => if is_pe (xk x) || is_index (xk x) then k (inr (loc, RPR acc)) else foe o
            | _ => Ret Div end)).
  { intros [l r|x|]; try ret. destruct (is_pe (xk x) || is_index (xk x)); [apply Hk|apply Hfoe]. }
  apply K_skip_ignorables; [exact Hi| |].
  - intros x. apply (Hstop (Err x)).
  - intros l. apply K_check_ender; [exact Hn|]. intros [o|]; [apply Hstop|].
    unfold call. callc Hb.
    + match goal with |- context [Nat.eqb ?a loc] => destruct (Nat.eqb a loc) end; [ret|apply IH].
    + apply (Hstop (Err x)).
    + ret.
Qed.

Lemma K_skipto_ign fuel ignorer : fwb ignorer = true -> forall loc kk, (forall l, K (kk l)) ->
  K (skipto_ign (fail_of k) fuel ignorer s loc kk).
Proof.
  intros Hw. induction fuel as [|f IH]; intros loc kk Hkk; cbn [skipto_ign]; [apply Hkk|].
  apply K_try_parse; [exact Hw|]. intros [l r|x|].
  - destruct (Nat.eqb l loc); [apply Hkk|apply IH; exact Hkk].
  - destruct (is_pbe (xk x)); [apply Hkk|apply K_fail].
  - ret.
Qed.

Lemma K_skipto_scan e0 target ignorer failon : fwb target = true ->
  (match ignorer with Some i => fwb i = true | None => True end) ->
  (match failon with Some f => fwb f = true | None => True end) ->
  forall fuel loc0 loc kk, (forall l, K (kk l)) ->
  K (skipto_scan (fail_of k) fuel e0 target ignorer failon s loc0 loc kk).
Proof.
  intros Ht Hi Hf. induction fuel as [|f IH]; intros loc0 loc kk Hkk; cbn [skipto_scan]; [apply K_fail|].
  destruct (Nat.ltb (length s) loc); [apply K_fail|].
  assert (Hin : forall tl, K (call target s tl false false (fun o =>
             match o with
             | Ok _ _ => kk tl
             | Div => Ret Div
             | Err x => if is_pe (xk x) || is_index (xk x)
                        then skipto_scan (fail_of k) f e0 target ignorer failon s loc0 (Datatypes.S tl) kk
                        else fail_of k x
             end))).
  { intros tl. unfold call. callc Ht.
    - apply Hkk.
    - destruct (is_pe (xk x) || is_index (xk x)); [apply IH; exact Hkk|apply K_fail].
    - ret. }
  assert (Hafter : K ((match ignorer with
         | Some ig => skipto_ign (fail_of k) (length s + 2) ig s loc
         | None => fun k' => k' loc
         end) (fun tl =>
           call target s tl false false (fun o =>
             match o with
             | Ok _ _ => kk tl
             | Div => Ret Div
             | Err x => if is_pe (xk x) || is_index (xk x)
                        then skipto_scan (fail_of k) f e0 target ignorer failon s loc0 (Datatypes.S tl) kk
                        else fail_of k x
             end)))).
  { destruct ignorer as [ig|]; [apply K_skipto_ign; [exact Hi|exact Hin]|apply Hin]. }
  destruct failon as [fo|]; [|exact Hafter].
  apply K_can_parse_next; [exact Hf|]. intros [|]; [unfold fail_of; apply Hk|exact Hafter].
Qed.

(* ---- Each ---- *)
Definition fwP (e : expr) : Prop := fwb e = true.
Lemma fwP_copy b n : fwP b -> fwP (named_copy b n).
Proof. unfold fwP. destruct b; cbn; intros H; exact H. Qed.
Lemma fwP_rep a i z b ne : fwP (Rep a i z b ne) -> fwP (snd (rep_operand (Rep a i z b ne) b)).
Proof.
  intros H. assert (Hb : fwP b).
  { unfold fwP in *. cbn [fw] in H. rewrite ?fwl_fix in H. repeat (apply andb_prop in H as [H ?]). assumption. }
  unfold rep_operand. destruct (rsname _); cbn [snd]; [apply fwP_copy|]; exact Hb.
Qed.
Lemma fwP_opt a i dflt b : fwP (Enh a i (EOpt dflt) b) -> fwP b.
Proof. unfold fwP. cbn [fw]. rewrite ?fwl_fix. intros H. repeat (apply andb_prop in H as [H ?]). assumption. Qed.
Lemma fwP_Forall l : forallb fwb l = true -> Forall fwP l.
Proof. intros H. apply Forall_forall. rewrite forallb_forall in H. exact H. Qed.

Notation entsF := (entsP fwP).

Lemma K_each_round es : Forall fwP es -> forall cands tl reqd opt mo nf fatals kk,
  entsF cands -> entsF reqd -> entsF opt -> Forall fwP mo ->
  (forall tl' reqd' opt' mo' nf' fs', entsF reqd' -> entsF opt' -> Forall fwP mo' -> K (kk tl' reqd' opt' mo' nf' fs')) ->
  K (each_round (fail_of k) es s cands tl reqd opt mo nf fatals kk).
Proof.
  intros Hw. induction cands as [|en rest IH]; intros tl reqd opt mo nf fatals kk Hc Hr Ho Hm Hkk; cbn [each_round].
  - apply Hkk; assumption.
  - inversion Hc as [|? ? Hen Hrest]; subst.
    apply K_try_parse; [exact Hen|]. intros [l r|x|].
    + assert (Hm' : Forall fwP (mo ++ [each_order es en])).
      { apply Forall_app. split; [exact Hm|]. constructor; [|constructor]. apply each_order_P; assumption. }
      destruct (mem_cls (ee_cls en) reqd); [apply IH; try assumption; apply entsP_remove; assumption|].
      destruct (mem_cls (ee_cls en) opt); [apply IH; try assumption; apply entsP_remove; assumption|].
      apply IH; assumption.
    + destruct (is_fatal (xk x)); [apply IH; assumption|].
      destruct (is_pe (xk x)); [apply IH; assumption|apply K_fail].
    + ret.
Qed.

Lemma K_each_loop es multis : Forall fwP es -> entsF multis ->
  forall fuel tl reqd opt mo kk, entsF reqd -> entsF opt -> Forall fwP mo ->
  (forall reqd' opt' mo' fs', entsF reqd' -> entsF opt' -> Forall fwP mo' -> K (kk reqd' opt' mo' fs')) ->
  K (each_loop (fail_of k) es s fuel tl reqd opt multis mo kk).
Proof.
  intros Hw Hmu. induction fuel as [|f IH]; intros tl reqd opt mo kk Hr Ho Hm Hkk; cbn [each_loop]; [ret|].
  apply K_each_round; try assumption.
  - apply entsP_app; [exact Hr|]. apply entsP_app; assumption.
  - intros tl' reqd' opt' mo' nf' fs' Hr' Ho' Hm'.
    destruct (Nat.eqb nf' _); [apply Hkk; assumption|].
    destruct (_ && _); [ret|]. apply IH; assumption.
Qed.

Lemma K_each_go2 d : forall mo loc acc, Forall fwP mo -> K (each_go2 k s d mo loc acc).
Proof.
  induction mo as [|c rest IH]; intros loc acc Hm; cbn [each_go2]; [apply Hk|].
  inversion Hm as [|? ? Hc Hr]; subst. unfold call. callc Hc.
  - apply IH. exact Hr.
  - apply K_fail.
  - ret.
Qed.

Lemma K_each_impl es info loc d : forallb fwb es = true -> K (each_impl k es info s loc d).
Proof.
  intros Hw0. pose proof (fwP_Forall es Hw0) as Hw.
  destruct (each_groups_P fwP fwP_rep fwP_opt es info Hw) as (H1 & H2 & H3 & H4 & H5).
  unfold each_impl. apply K_each_loop; try assumption; try (apply entsP_app; assumption); [constructor|].
  intros reqd' opt' mo' fs' Hr' Ho' Hm'.
  destruct (pick_fatal fs') as [fx|]; [apply K_fail|].
  destruct reqd'; [|apply K_fail].
  apply K_each_go2. apply Forall_app. split; [exact Hm'|]. apply each_unmatched_P. exact Hw.
Qed.
End Impl.

Lemma env_fw id c : nth_error G id = Some c -> fwb c = true.
Proof. intros H. rewrite forallb_forall in HG. apply HG. eapply nth_error_In. exact H. Qed.

Lemma K_impl e pl d k : fwb e = true -> (forall res, K (k res)) -> K (impl G e s pl d k).
Proof.
  intros Hw Hk.
  pose proof (K_fail k Hk) as Hfail.
  pose proof (K_failo k Hk) as Hfailo.
  destruct e as [a i t|a i kd es|a i kd c|a i z body ne|a i target incl ig2 fo|a i id]; cbn [fw] in Hw; rewrite ?fwl_fix in Hw.
  - cbn [impl]. apply Hk.
  - apply andb_prop in Hw as [Hi Hes].
    assert (Hwe : forall kd', fwb (Nary a i kd' es) = true) by (intros kd'; cbn [fw]; rewrite ?fwl_fix, Hi, Hes; reflexivity).
    destruct kd; cbn [impl].
    + destruct es as [|c rest]; [apply Hk|].
      cbn in Hes. apply andb_prop in Hes as [Hc Hr]. unfold call. callc Hc.
      * apply K_and_go; assumption.
      * apply (Hfailo (Err x)).
      * apply (Hfailo Div).
    + apply K_mf_go; try assumption. apply Hwe.
    + assert (Hstart : forall loc, K (or_pass1 (fail_of k) (Nary a i NOr es) es s loc [] [] None
        (fun matches fatals best =>
           let tail := fun best0 : option exn =>
             match pick_fatal fatals with
             | Some fx => fail_of k fx
             | None => alt_fail (fail_of k) (Nary a i NOr es) s loc best0
             end in
           match matches with
           | [] => tail best
           | _ :: _ =>
             let sorted := sort_desc (fun p => Z.of_nat (fst p)) matches in
             if negb d
             then match sorted with
                  | (_, c) :: _ => call c s loc false true (fun o => match o with Ok l r => k (inr (l, RPR r)) | _ => failo_of k o end)
                  | [] => tail best
                  end
             else or_go2 k tail s loc sorted None best
           end))).
      { intros loc. apply K_or_pass1; try assumption; try constructor.
        intros ms fs b Hms. cbv zeta.
        assert (Htail : forall b0, K (match pick_fatal fs with
                     | Some fx => fail_of k fx
                     | None => alt_fail (fail_of k) (Nary a i NOr es) s loc b0
                     end)).
        { intros b0. destruct (pick_fatal fs) as [fx|]; [apply Hfail|]. apply K_alt_fail; [assumption|apply Hwe]. }
        destruct ms as [|m ms]; [apply Htail|].
        pose proof (Forall_sort_desc' _ (fun p : nat * expr => Z.of_nat (fst p)) _ Hms) as Hsorted.
        destruct (negb d).
        - destruct (sort_desc _ (m :: ms)) as [|[l0 c0] rest]; [apply Htail|].
          inversion Hsorted as [|? ? Hc0 ?]; subst. cbn in Hc0. unfold call. callc Hc0.
          + apply Hk.
          + apply (Hfailo (Err x)).
          + apply (Hfailo Div).
        - apply K_or_go2; assumption. }
      destruct (forallb (fun c => callpre (attrs_of c)) es); [|apply Hstart].
      apply K_pre_parse; [apply Hwe|exact Hfail|exact Hstart].
    + apply K_each_impl; assumption.
  - apply andb_prop in Hw as [Hi Hc].
    assert (Hpass : forall loc, K (call c s loc d false (fun o =>
              match o with
              | Ok l r => k (inr (l, RPR r))
              | Div => Ret Div
              | Err x => fail_of k (enh_rewrite a false loc x)
              end))).
    { intros loc. unfold call. callc Hc; [apply Hk|apply Hfail|ret]. }
    destruct kd; cbn [impl]; try apply Hpass.
    + unfold call. callc Hc; [apply Hk| |ret].
      destruct (is_pe (xk x) || is_index (xk x)); [|apply Hfail].
      destruct default; [destruct (rsname (attrs_of c)) as [[|? ?]|]|]; apply Hk.
    + apply K_can_parse_next; [exact Hk|exact Hc|]. intros [|]; [apply Hfail|apply Hk].
    + unfold call. callc Hc; [apply Hk|apply (Hfailo (Err x))|apply (Hfailo Div)].
    + apply K_try_parse; [exact Hc|]. intros [l r|x|]; [apply Hk|apply (Hfailo (Err x))|apply (Hfailo Div)].
    + unfold call. callc Hc; [|apply (Hfailo (Err x))|apply (Hfailo Div)].
      cbn [attrs_of]. destruct (rsname a) as [[|? ?]|]; apply Hk.
    + destruct (negb (Nat.eqb pl 0)); [apply Hfail|apply Hpass].
    + destruct (negb (Nat.eqb (col_at s pl) 1)); [apply Hfail|apply Hpass].
    + destruct exact; [|apply Hfail].
      destruct (Nat.ltb pl retreat); [apply Hfail|].
      unfold call. callc Hc; [apply Hk|apply (Hfailo (Err x))|apply (Hfailo Div)].
  - apply andb_prop in Hw as [Hw Hne0]. apply andb_prop in Hw as [Hi Hb]. cbn [impl].
    assert (Hne : match ne with Some n => fwb n = true | None => True end) by (destruct ne; [assumption|exact I]).
    assert (Hfoe : forall o, K (match o with
              | Err x => if z && (is_pe (xk x) || is_index (xk x))
                         then k (inr (pl, RPR (pr_init (RList []) (rsname a) true true)))
                         else fail_of k x
              | _ => Ret Div end)).
    { intros [l r|x|]; try ret. destruct (z && _); [apply Hk|apply Hfail]. }
    apply K_check_ender; [exact Hne|]. intros [o|]; [apply Hfoe|].
    unfold call. callc Hb.
    + apply K_rep_go; try assumption.
    + apply (Hfoe (Err x)).
    + ret.
  - apply andb_prop in Hw as [Hw Hfo]. apply andb_prop in Hw as [Hw Hig]. apply andb_prop in Hw as [Hi Ht]. cbn [impl].
    apply K_skipto_scan; try assumption.
    + destruct ig2; [exact I|]. cbn [fw]. rewrite ?fwl_fix. exact Hig.
    + destruct fo; [assumption|exact I].
    + intros tl. destruct incl; [|apply Hk].
      unfold call. callc Ht; [apply Hk|apply (Hfailo (Err x))|apply (Hfailo Div)].
  - cbn [impl]. destruct id as [id|]; [|apply Hfail].
    destruct (nth_error G id) as [c|] eqn:E; [|apply Hfail].
    unfold call. callc (env_fw id c E); [apply Hk|apply Hfail|ret].
Qed.

Theorem K_step a : Cs a -> K (step G a).
Proof.
  intros [Hs Hw]. unfold step. rewrite Hs.
  assert (Hin : forall pl, K (impl G (a_e a) s pl (a_do a) (step_k (a_e a) s (a_do a) pl))).
  { intros pl. apply K_impl; [exact Hw|]. intros res. apply K_step_k. }
  destruct (a_pre a && callpre (attrs_of (a_e a))); [|apply Hin].
  apply K_pre_parse; [exact Hw|apply K_escape|exact Hin].
Qed.
End Calls.

(* ------------------------------------------------------------------------------------------- *)
(* Part D: splitting the continuation off `pre_parse`                                           *)
(* ------------------------------------------------------------------------------------------- *)
Section PreSplit.
Variable rec : args -> option outcome.
Variable Phi : option outcome -> option outcome -> Prop.
Hypothesis Phi_none : Phi None None.
Hypothesis Phi_div : Phi (Some Div) (Some Div).
Hypothesis Phi_err : forall x, Phi (Some (Err x)) (Some (Err x)).

Lemma D_skip_inner fuel : forall ig s loc found (k1 k2 : nat -> bool -> prg),
  (forall l b, Phi (run rec (k1 l b)) (run rec (k2 l b))) ->
  Phi (run rec (skip_ign_inner escape fuel ig s loc found k1)) (run rec (skip_ign_inner escape fuel ig s loc found k2)).
Proof.
  induction fuel as [|f IH]; intros ig s loc found k1 k2 Hk; cbn [skip_ign_inner]; [exact Phi_div|].
  unfold call. cbn [run]. destruct (rec _) as [[l r|x|]|].
  - apply IH. exact Hk.
  - destruct (is_pe (xk x)); [apply Hk|apply Phi_err].
  - exact Phi_div.
  - exact Phi_none.
Qed.

Lemma D_skip_pass fuel : forall igs s loc found (k1 k2 : nat -> bool -> prg),
  (forall l b, Phi (run rec (k1 l b)) (run rec (k2 l b))) ->
  Phi (run rec (skip_ign_pass escape fuel igs s loc found k1)) (run rec (skip_ign_pass escape fuel igs s loc found k2)).
Proof.
  induction igs as [|ig igs IH]; intros s loc found k1 k2 Hk; cbn [skip_ign_pass]; [apply Hk|].
  apply D_skip_inner. intros l b. apply IH. exact Hk.
Qed.

Lemma D_skip_ignorables : forall rounds igs s loc (k1 k2 : nat -> prg),
  (forall l, Phi (run rec (k1 l)) (run rec (k2 l))) ->
  Phi (run rec (skip_ignorables escape rounds igs s loc k1)) (run rec (skip_ignorables escape rounds igs s loc k2)).
Proof.
  induction rounds as [|r IH]; intros igs s loc k1 k2 Hk; destruct igs as [|ig igs]; cbn [skip_ignorables]; try apply Hk;
    [exact Phi_div|].
  apply D_skip_pass. intros l b. destruct (negb b); [apply Hk|]. destruct (Nat.eqb l loc); [apply Hk|]. apply IH. exact Hk.
Qed.

Lemma D_pre_parse e s loc (k1 k2 : nat -> prg) :
  (forall l, Phi (run rec (k1 l)) (run rec (k2 l))) ->
  Phi (run rec (pre_parse escape e s loc k1)) (run rec (pre_parse escape e s loc k2)).
Proof.
  intros Hk. unfold pre_parse.
  destruct e as [a i t| | | | |]; try (apply D_skip_ignorables; intros; apply Hk).
  destruct t; try (apply D_skip_ignorables; intros; apply Hk).
  - destruct loc; [apply Hk|]. destruct orig_has_nl; apply Hk.
  - destruct (Nat.eqb (col_at s loc) c); [apply Hk|]. apply D_skip_ignorables; intros; apply Hk.
Qed.
End PreSplit.

Lemma pre_split (rec : args -> option outcome) e s loc (k : nat -> prg) :
  match run rec (pre_parse escape e s loc (fun l => Ret (Ok l pr_empty))) with
  | None => run rec (pre_parse escape e s loc k) = None
  | Some (Ok l _) => run rec (pre_parse escape e s loc k) = run rec (k l)
  | Some o => run rec (pre_parse escape e s loc k) = Some o
  end.
Proof.
  apply (D_pre_parse rec (fun r1 r2 => match r1 with
                                       | None => r2 = None
                                       | Some (Ok l _) => r2 = run rec (k l)
                                       | Some o => r2 = Some o
                                       end)); try reflexivity.
Qed.

(* ------------------------------------------------------------------------------------------- *)
(* Part E: the simulation                                                                       *)
(* ------------------------------------------------------------------------------------------- *)
Definition fid_attrs (fid : nat) : attrs :=
  {| nid := fid; rsname := None; modalr := true; aslist := false; skipws := false; white := [];
     callpre := true; mayidx := false; custom := false; hasmsg := true; acts := []; calltry := false; slen := 0 |}.

(* a Forward's exception rewriting only looks at the identity of the Forward *)
Lemma enh_fid a loc x : enh_rewrite a true loc x = enh_rewrite (fid_attrs (nid a)) true loc x.
Proof. unfold enh_rewrite. destruct (xk x); reflexivity. Qed.

(* what Forward.parseImpl (left recursion disabled) makes of its body's answer *)
Definition fwd_ans (fid loc : nat) (ob : outcome) : outcome :=
  match ob with Err x => Err (enh_rewrite (fid_attrs fid) true loc x) | o => o end.

Section Sim.
Variable G : env.
Variable tbl : nat -> option nat.
Variable s : str.
Hypothesis HG : forallb (fw tbl) G = true.

Notation fwb := (fw tbl).
Notation pparse := (parse (step G)).
Notation Cs := (Cs tbl s).

Lemma pmono f a o f' : pparse f a = Some o -> f <= f' -> pparse f' a = Some o.
Proof. intros H Hle. exact (parse_mono args outcome (step G) f a o H f' Hle). Qed.

Lemma pdet f1 f2 a o1 o2 : pparse f1 a = Some o1 -> pparse f2 a = Some o2 -> o1 = o2.
Proof. exact (parse_det args outcome (step G) f1 f2 a o1 o2). Qed.

Lemma prun_mono f f' p o : run (pparse f) p = Some o -> f <= f' -> run (pparse f') p = Some o.
Proof.
  intros H Hle. eapply (run_mono args outcome); [|exact H]. intros b ob Hb. eapply pmono; [exact Hb|exact Hle].
Qed.

(* the invariant: every entry that is not a seed is the plain parser's answer for that Forward, location and do_actions *)
Definition entry_ok (k : mkey) (v : mval) : Prop :=
  match k with
  | (loc, fid, d) =>
    exists id body f ob, tbl fid = Some id /\ nth_error G id = Some body /\
      pparse f (mkargs body s loc d false) = Some ob /\
      match v with
      | (pl, MOk r) => exists n, pl = Z.of_nat n /\ fwd_ans fid loc ob = Ok n r
      | (pl, MExc x) => fwd_ans fid loc ob = Err x
      end
  end.
Definition Pent (k : mkey) (v : mval) : Prop := is_seed k v = false -> entry_ok k v.
Definition memo_ok (m : memo) : Prop := mall Pent m.

Definition ans_ok (a : attrs) (body : expr) (loc : nat) (d : bool) (o : outcome) : Prop :=
  exists f ob, pparse f (mkargs body s loc d false) = Some ob /\ o = fwd_ans (nid a) loc ob.

Section Rec.
Variable rect : memo -> args -> res_t.
Hypothesis Hrec : forall m a o m', Cs a -> memo_ok m -> rect m a = Some (o, m', fl0) ->
  (exists f, pparse f a = Some o) /\ memo_ok m'.

Lemma runm_sim p : calls Cs p -> forall m o m', memo_ok m -> runm_t rect m p = Some (o, m', fl0) ->
  (exists f, run (pparse f) p = Some o) /\ memo_ok m'.
Proof.
  induction p as [o0|a k IH]; intros HC m o m' Hm H; cbn [runm_t] in H.
  - injection H as <- <-. split; [exists 0; reflexivity|exact Hm].
  - inversion HC as [|a0 k0 Ha Hk]; subst.
    destruct (rect m a) as [[[o1 m1] f1]|] eqn:E; [|discriminate].
    apply with_fl_0 in H as [-> H].
    destruct (Hrec _ _ _ _ Ha Hm E) as [[fa Hfa] Hm1].
    destruct (IH o1 (Hk o1) m1 o m' Hm1 H) as [[fb Hfb] Hm'].
    split; [|exact Hm']. exists (Nat.max fa fb). cbn [run].
    rewrite (pmono fa a o1 (Nat.max fa fb) Hfa) by lia.
    eapply prun_mono; [exact Hfb|lia].
Qed.

Lemma super_sim a body loc d m o m' : fwb body = true -> memo_ok m ->
  super_impl_t rect a body s loc d m = Some (o, m', fl0) -> ans_ok a body loc d o /\ memo_ok m'.
Proof.
  intros Hb Hm H. unfold super_impl_t in H.
  destruct (rect m (mkargs body s loc d false)) as [[[ob m1] f1]|] eqn:E; [|discriminate].
  assert (Cs (mkargs body s loc d false)) as HC by (split; [reflexivity|exact Hb]).
  assert (f1 = fl0 /\ m1 = m' /\ o = fwd_ans (nid a) loc ob) as (-> & -> & ->).
  { destruct ob as [l r|x|]; injection H as <- <- <-; repeat split. }
  destruct (Hrec _ _ _ _ HC Hm E) as [[f Hf] Hm1].
  split; [|exact Hm1]. exists f, ob. split; [exact Hf|reflexivity].
Qed.

Section Fwd.
Variable a : attrs.
Variable id : nat.
Variable body : expr.
Hypothesis Htbl : tbl (nid a) = Some id.
Hypothesis Hnth : nth_error G id = Some body.

Lemma body_fw : fwb body = true.
Proof. exact (env_fw G tbl HG id body Hnth). Qed.

Lemma entry_ok_here loc d v : entry_ok (loc, nid a, d) v ->
  exists f ob, pparse f (mkargs body s loc d false) = Some ob /\
    match v with
    | (pl, MOk r) => exists n, pl = Z.of_nat n /\ fwd_ans (nid a) loc ob = Ok n r
    | (pl, MExc x) => fwd_ans (nid a) loc ob = Err x
    end.
Proof.
  intros (id' & body' & f & ob & H1 & H2 & H3 & H4).
  rewrite Htbl in H1. injection H1 as <-. rewrite Hnth in H2. injection H2 as <-.
  exists f, ob. split; assumption.
Qed.

Lemma Pent_ok loc d f l r : pparse f (mkargs body s loc d false) = Some (Ok l r) -> Pent (loc, nid a, d) (Z.of_nat l, MOk r).
Proof.
  intros H _. exists id, body, f, (Ok l r). repeat split; try assumption. exists l. split; reflexivity.
Qed.

Lemma Pent_seed loc d : Pent (loc, nid a, d) ((Z.of_nat loc - 1)%Z, MExc (mkx XParse (Z.of_nat loc) MFwdNoBase (Some (nid a)))).
Proof. intros H. rewrite is_seed_seed in H. discriminate. Qed.

(* a later iteration of the growth loop: the previous peek result is the plain parser's *)
Lemma loop2_sim loc d f f0 l0 r0 m o m' :
  pparse f0 (mkargs body s loc false false) = Some (Ok l0 r0) ->
  memo_ok m ->
  lr_loop_t rect (S f) a body s loc d (Z.of_nat l0) (MOk r0) m = Some (o, m', fl0) ->
  ans_ok a body loc d o /\ memo_ok m'.
Proof.
  intros Hp0 Hm H. cbn [lr_loop_t] in H.
  destruct (super_impl_t rect a body s loc false m) as [[[o1 m1] f1]|] eqn:E1; [|discriminate].
  apply with_fl_0 in H as [-> H].
  destruct (super_sim _ _ _ _ _ _ _ body_fw Hm E1) as [(f1' & ob1 & Hp1 & ->) Hm1].
  pose proof (pdet _ _ _ _ _ Hp1 Hp0) as ->. cbn [fwd_ans] in H.
  rewrite Z.leb_refl in H. destruct d.
  - destruct (memo_get m1 (loc, nid a, true)) as [[[pl pr] m2]|] eqn:Eg; [|discriminate].
    destruct (is_seed (loc, nid a, true) (pl, pr)) eqn:Es; [destruct pr; discriminate|].
    destruct (mval_same (pl, pr) (Z.of_nat l0, MOk r0)) eqn:Em; [|destruct pr; discriminate].
    apply mval_same_eq in Em. injection Em as -> ->. cbn [negb andb] in H.
    injection H as <- <-. rewrite Nat2Z.id.
    destruct (mall_get Pent _ _ _ _ Eg Hm1) as [Hp Hm2].
    destruct (entry_ok_here _ _ _ (Hp Es)) as (fa & oba & Hpa & n & Hn & Ha).
    apply Nat2Z.inj in Hn. subst n.
    split.
    + exists fa, oba. split; [exact Hpa|symmetry; exact Ha].
    + apply mall_del. apply mall_del. apply mall_set; [exact Hm2|]. eapply Pent_ok. exact Hp0.
  - cbn [is_seed] in H. injection H as <- <-. rewrite Nat2Z.id. split.
    + exists f0, (Ok l0 r0). split; [exact Hp0|reflexivity].
    + apply mall_del. exact Hm1.
Qed.

(* the F-03e observation *)
Lemma pe_fl_sim loc (d : bool) m1 ob1 f1 :
  memo_ok m1 ->
  pparse f1 (mkargs body s loc false false) = Some ob1 ->
  (if d then peek_error_flag rect a body s loc m1 (fwd_ans (nid a) loc ob1) else fl0) = fl0 ->
  ans_ok a body loc d (fwd_ans (nid a) loc ob1).
Proof.
  intros Hm1 Hp1 H. destruct d; [|exists f1, ob1; split; [exact Hp1|reflexivity]].
  unfold peek_error_flag in H.
  destruct (super_impl_t rect a body s loc true m1) as [[[og mg] fg]|] eqn:Eg; [|discriminate].
  destruct (fl_clean fg && same_fail (fwd_ans (nid a) loc ob1) og) eqn:Ec; [|discriminate].
  apply andb_prop in Ec as [Ec1 Ec2]. apply fl_clean_0 in Ec1. subst fg. apply same_fail_eq in Ec2. rewrite Ec2.
  exact (proj1 (super_sim _ _ _ _ _ _ _ body_fw Hm1 Eg)).
Qed.

(* the first iteration: previous result = the seed *)
Lemma loop1_sim loc d f m o m' :
  memo_ok m ->
  lr_loop_t rect (S (S f)) a body s loc d (Z.of_nat loc - 1) (MExc (mkx XParse (Z.of_nat loc) MFwdNoBase (Some (nid a)))) m
    = Some (o, m', fl0) ->
  ans_ok a body loc d o /\ memo_ok m'.
Proof.
  intros Hm H. remember (S f) as fu eqn:Efu. cbn [lr_loop_t] in H.
  destruct (super_impl_t rect a body s loc false m) as [[[o1 m1] f1]|] eqn:E1; [|discriminate].
  apply with_fl_0 in H as [-> H].
  destruct (super_sim _ _ _ _ _ _ _ body_fw Hm E1) as [(f1' & ob1 & Hp1 & Ho1) Hm1].
  assert (Hfail : forall x1,
    Some (x1, m1, if d then peek_error_flag rect a body s loc m1 o1 else fl0) = Some (o, m', fl0) -> x1 = o1 ->
    ans_ok a body loc d o /\ memo_ok m').
  { intros x1 Hx ->. injection Hx as <- <- Hx. split; [|exact Hm1]. subst o1. eapply pe_fl_sim; eassumption. }
  destruct ob1 as [l r|x|]; cbn [fwd_ans] in Ho1; subst o1.
  - destruct (Z.of_nat l <=? Z.of_nat loc - 1)%Z.
    + destruct d.
      * destruct (memo_get m1 (loc, nid a, true)) as [[[pl pr] m2]|]; [|discriminate].
        destruct (is_seed (loc, nid a, true) (pl, pr)); destruct pr; discriminate.
      * rewrite is_seed_seed in H. discriminate.
    + subst fu. destruct d.
      * destruct (super_impl_t rect a body s loc true m1) as [[[o2 m2] f2]|] eqn:E2; [|discriminate].
        destruct o2 as [l' r'|x'|].
        -- apply with_fl_0 in H as [-> H].
           destruct (super_sim _ _ _ _ _ _ _ body_fw Hm1 E2) as [(f2' & ob2 & Hp2 & Ho2) Hm2].
           destruct ob2 as [l2 r2|x2|]; cbn [fwd_ans] in Ho2; try discriminate. injection Ho2 as <- <-.
           eapply loop2_sim; [exact Hp1| |exact H].
           apply mall_set; [apply mall_set; [exact Hm2|]|]; eapply Pent_ok; eassumption.
        -- destruct (is_pe (xk x')).
           ++ exfalso. assert (fl_or f2 (Build_flags false false true false false false) = fl0) as Hf by congruence.
              apply fl_or_0 in Hf as [_ Hf]. discriminate.
           ++ injection H as <- <- ->. exact (super_sim _ _ _ _ _ _ _ body_fw Hm1 E2).
        -- injection H as <- <- ->. exact (super_sim _ _ _ _ _ _ _ body_fw Hm1 E2).
      * eapply loop2_sim; [exact Hp1| |exact H]. apply mall_set; [exact Hm1|]. eapply Pent_ok. exact Hp1.
  - destruct (is_pe (xk (enh_rewrite (fid_attrs (nid a)) true loc x))); eapply Hfail; try exact H; reflexivity.
  - eapply Hfail; [exact H|reflexivity].
Qed.

Lemma forward_sim loc d m o m' : memo_ok m ->
  lr_forward_t rect a body s loc d m = Some (o, m', fl0) -> ans_ok a body loc d o /\ memo_ok m'.
Proof.
  intros Hm H. unfold lr_forward_t in H.
  destruct (memo_get m (loc, nid a, d)) as [[[pl [r|x]] m1]|] eqn:Eg.
  - injection H as <- <-. destruct (mall_get Pent _ _ _ _ Eg Hm) as [Hp Hm1].
    destruct (entry_ok_here _ _ _ (Hp eq_refl)) as (fa & oba & Hpa & n & -> & Ha).
    rewrite Nat2Z.id. split; [|exact Hm1]. exists fa, oba. split; [exact Hpa|symmetry; exact Ha].
  - destruct (is_seed (loc, nid a, d) (pl, MExc x)) eqn:Es; [discriminate|].
    injection H as <- <-. destruct (mall_get Pent _ _ _ _ Eg Hm) as [Hp Hm1].
    destruct (entry_ok_here _ _ _ (Hp Es)) as (fa & oba & Hpa & Ha).
    split; [|exact Hm1]. exists fa, oba. split; [exact Hpa|symmetry; exact Ha].
  - replace (length s + 3) with (S (S (length s + 1))) in H by lia.
    eapply loop1_sim; [|exact H].
    destruct d; [apply mall_set; [|apply Pent_seed]|]; (apply mall_set; [exact Hm|apply Pent_seed]).
Qed.
End Fwd.
End Rec.

Lemma step_unfold ar : step G ar =
  if a_pre ar && callpre (attrs_of (a_e ar))
  then pre_parse escape (a_e ar) (a_s ar) (a_loc ar)
         (fun pl => impl G (a_e ar) (a_s ar) pl (a_do ar) (step_k (a_e ar) (a_s ar) (a_do ar) pl))
  else impl G (a_e ar) (a_s ar) (a_loc ar) (a_do ar) (step_k (a_e ar) (a_s ar) (a_do ar) (a_loc ar)).
Proof. reflexivity. Qed.

(* the handler: by induction on the fuel *)
Theorem parse_lr_sim : forall fuel m ar o m', Cs ar -> memo_ok m ->
  parse_lr_t G fuel m ar = Some (o, m', fl0) -> (exists f, pparse f ar = Some o) /\ memo_ok m'.
Proof.
  induction fuel as [|fu IH]; intros m ar o m' HC Hm H; [discriminate|].
  cbn [parse_lr_t] in H.
  assert (Hgen : runm_t (parse_lr_t G fu) m (step G ar) = Some (o, m', fl0) -> (exists f, pparse f ar = Some o) /\ memo_ok m').
  { intros Hr. destruct (runm_sim _ IH _ (K_step G tbl s HG ar HC) _ _ _ Hm Hr) as [[f Hf] Hm'].
    split; [exists (S f); exact Hf|exact Hm']. }
  destruct ar as [e s0 loc d p]. destruct HC as [Hs Hw]. cbn [a_e a_s a_loc a_do a_pre] in *. subst s0.
  destruct e as [a i t|a i kd es|a i kd c|a i z body0 ne|a i target incl ig2 fo|a i [id|]]; try (apply Hgen; exact H).
  destruct (nth_error G id) as [body|] eqn:En; [|apply Hgen; exact H].
  clear Hgen.
  assert (Htbl : tbl (nid a) = Some id).
  { pose proof Hw as Hw'. cbn [fw] in Hw'. apply andb_prop in Hw' as [_ Hw'].
    destruct (tbl (nid a)) as [id'|]; [|discriminate]. apply Nat.eqb_eq in Hw'. subst. reflexivity. }
  remember (Fwd a i (Some id)) as e eqn:Ee.
  remember (if p && callpre a then pre_parse escape e s loc (fun l => Ret (Ok l pr_empty)) else Ret (Ok loc pr_empty)) as pre eqn:Epre0.
  assert (HCpre : calls Cs pre).
  { subst pre. destruct (p && callpre a); [|apply C_ret].
    apply (K_pre_parse tbl s); [exact Hw|intros; apply C_ret|intros; apply C_ret]. }
  (* the plain side: the same pre-parse, then the body, then step_k *)
  assert (Hplain : forall F,
    match run (pparse F) pre with
    | None => True
    | Some (Ok l _) => run (pparse F) (step G (mkargs e s loc d p)) =
                       match pparse F (mkargs body s l d false) with
                       | None => None
                       | Some ob => run (pparse F)
                           match ob with
                           | Ok l' r => step_k e s d l (inr (l', RPR r))
                           | Div => Ret Div
                           | Err x => fail_of (step_k e s d l) (enh_rewrite a true l x)
                           end
                       end
    | Some o => run (pparse F) (step G (mkargs e s loc d p)) = Some o
    end).
  { intros F.
    assert (HK : forall l, run (pparse F) (impl G e s l d (step_k e s d l)) =
                match pparse F (mkargs body s l d false) with
                | None => None
                | Some ob => run (pparse F)
                    match ob with
                    | Ok l' r => step_k e s d l (inr (l', RPR r))
                    | Div => Ret Div
                    | Err x => fail_of (step_k e s d l) (enh_rewrite a true l x)
                    end
                end).
    { intros l. subst e. cbn [impl]. rewrite En. unfold call. cbn [run attrs_of].
      destruct (pparse F (mkargs body s l d false)) as [[l' r|x|]|]; reflexivity. }
    rewrite (step_unfold (mkargs e s loc d p)). cbn [a_e a_s a_loc a_do a_pre mkargs]. subst pre.
    replace (attrs_of e) with a by (subst e; reflexivity).
    destruct (p && callpre a).
    - pose proof (pre_split (pparse F) e s loc (fun l => impl G e s l d (step_k e s d l))) as Hs.
      destruct (run (pparse F) (pre_parse escape e s loc (fun l => Ret (Ok l pr_empty)))) as [[l r|x|]|]; try exact Hs; [|exact I].
      rewrite Hs. apply HK.
    - cbn [run]. apply HK. }
  destruct (runm_t (parse_lr_t G fu) m pre) as [[[opre m1] f1]|] eqn:Epre; [|discriminate].
  destruct opre as [pre_loc rp|xp|].
  - apply with_fl_0 in H as [-> H].
    destruct (runm_sim _ IH _ HCpre _ _ _ Hm Epre) as [[fp Hfp] Hm1].
    destruct (lr_forward_t (parse_lr_t G fu) a body s pre_loc d m1) as [[[ofw m2] f2]|] eqn:Ef; [|discriminate].
    assert (Hstepk : forall res o m', runm_t (parse_lr_t G fu) m2 (step_k e s d pre_loc res) = Some (o, m', fl0) -> memo_ok m2 ->
              (exists f, run (pparse f) (step_k e s d pre_loc res) = Some o) /\ memo_ok m').
    { intros res o' m'' Hr Hm2. exact (runm_sim _ IH _ (K_step_k tbl s e d pre_loc res) _ _ _ Hm2 Hr). }
    assert (Hfin : forall fb fk ob p', pparse fb (mkargs body s pre_loc d false) = Some ob ->
              run (pparse fk) p' = Some o ->
              p' = match ob with
                   | Ok l' r => step_k e s d pre_loc (inr (l', RPR r))
                   | Div => Ret Div
                   | Err x => fail_of (step_k e s d pre_loc) (enh_rewrite a true pre_loc x)
                   end ->
              exists f, pparse f (mkargs e s loc d p) = Some o).
    { intros fb fk ob p' Hb Hk Hp'. exists (S (Nat.max fp (Nat.max fb fk))). cbn [parse].
      specialize (Hplain (Nat.max fp (Nat.max fb fk))).
      rewrite (prun_mono fp _ pre _ Hfp) in Hplain by lia. rewrite Hplain.
      rewrite (pmono fb _ _ _ Hb) by lia. rewrite <- Hp'. eapply prun_mono; [exact Hk|lia]. }
    destruct ofw as [l r|x|].
    + apply with_fl_0 in H as [-> H].
      destruct (forward_sim _ IH a id body Htbl En _ _ _ _ _ Hm1 Ef) as [(fb & ob & Hb & Ho) Hm2].
      destruct (Hstepk _ _ _ H Hm2) as [[fk Hk] Hm']. split; [|exact Hm'].
      destruct ob as [l' r'|x'|]; cbn [fwd_ans] in Ho; try discriminate. injection Ho as <- <-.
      eapply Hfin; [exact Hb|exact Hk|reflexivity].
    + apply with_fl_0 in H as [-> H].
      destruct (forward_sim _ IH a id body Htbl En _ _ _ _ _ Hm1 Ef) as [(fb & ob & Hb & Ho) Hm2].
      destruct (Hstepk _ _ _ H Hm2) as [[fk Hk] Hm']. split; [|exact Hm'].
      destruct ob as [l' r'|x'|]; cbn [fwd_ans] in Ho; try discriminate. injection Ho as ->.
      eapply Hfin; [exact Hb|exact Hk|reflexivity].
    + injection H as <- <- ->.
      destruct (forward_sim _ IH a id body Htbl En _ _ _ _ _ Hm1 Ef) as [(fb & ob & Hb & Ho) Hm2].
      split; [|exact Hm2].
      destruct ob as [l' r'|x'|]; cbn [fwd_ans] in Ho; try discriminate.
      apply (Hfin fb 0 Div (Ret Div)); [exact Hb|reflexivity|reflexivity].
  - injection H as <- <- ->.
    destruct (runm_sim _ IH _ HCpre _ _ _ Hm Epre) as [[fp Hfp] Hm1]. split; [|exact Hm1].
    exists (S fp). cbn [parse]. specialize (Hplain fp). rewrite Hfp in Hplain. exact Hplain.
  - injection H as <- <- ->.
    destruct (runm_sim _ IH _ HCpre _ _ _ Hm Epre) as [[fp Hfp] Hm1]. split; [|exact Hm1].
    exists (S fp). cbn [parse]. specialize (Hplain fp). rewrite Hfp in Hplain. exact Hplain.
Qed.

(* ------------------------------------------------------------------------------------------- *)
(* Part F: entry points                                                                         *)
(* ------------------------------------------------------------------------------------------- *)
Inductive dcalls (C : args -> Prop) {R} : dprog R -> Prop :=
| DC_ret r : dcalls C (DRet r)
| DC_call a k : C a -> (forall o, dcalls C (k o)) -> dcalls C (DCall a k).

Lemma lift_calls (C : args -> Prop) {R} p : calls C p -> forall (k : outcome -> dprog R),
  (forall o, dcalls C (k o)) -> dcalls C (lift p k).
Proof.
  induction p as [o|a k' IH]; intros HC k Hk; cbn [lift]; [apply Hk|].
  inversion HC as [|a0 k0 Ha Hk']; subst. apply DC_call; [exact Ha|]. intros o. apply IH; [apply Hk'|exact Hk].
Qed.

Lemma drunm_sim {R} (p : dprog R) fuel : dcalls Cs p -> forall m r m', memo_ok m ->
  drunm_t (parse_lr_t G fuel) m p = Some (r, m', fl0) ->
  (exists f, drun (pparse f) p = Some r) /\ memo_ok m'.
Proof.
  induction p as [r0|a k IH]; intros HC m r m' Hm H; cbn [drunm_t] in H.
  - injection H as <- <-. split; [exists 0; reflexivity|exact Hm].
  - inversion HC as [|a0 k0 Ha Hk]; subst.
    destruct (parse_lr_t G fuel m a) as [[[o1 m1] f1]|] eqn:E; [|discriminate].
    destruct (drunm_t (parse_lr_t G fuel) m1 (k o1)) as [[[r1 m2] g]|] eqn:E2; [|discriminate].
    assert (fl_or f1 g = fl0) as Hf by congruence. assert (r1 = r) as -> by congruence. assert (m2 = m') as -> by congruence.
    apply fl_or_0 in Hf as [-> ->].
    destruct (parse_lr_sim _ _ _ _ _ Ha Hm E) as [[fa Hfa] Hm1].
    destruct (IH o1 (Hk o1) m1 r m' Hm1 E2) as [[fb Hfb] Hm'].
    split; [|exact Hm']. exists (Nat.max fa fb). cbn [drun].
    rewrite (pmono fa a o1 (Nat.max fa fb) Hfa) by lia.
    eapply drun_mono; [|exact Hfb]. intros b ob Hb. eapply pmono; [exact Hb|lia].
Qed.
End Sim.

Lemma fw_se_expr tbl dw : fw tbl (se_expr dw) = true.
Proof. reflexivity. Qed.

Lemma fw_preparser tbl root : fw tbl root = true -> fw tbl (preparser root) = true.
Proof. intros H. unfold preparser. cbn [fw]. rewrite fwl_fix. apply fw_ign. exact H. Qed.

Lemma parse_string_calls tbl dw root (kt : bool) input pa : fw tbl root = true ->
  dcalls (Cs tbl (if kt then input else expandtabs input)) (parse_string dw root kt input pa).
Proof.
  intros Hw. unfold parse_string. set (s := if kt then input else expandtabs input).
  apply DC_call; [split; [reflexivity|exact Hw]|]. intros [loc r|x|]; try apply DC_ret.
  destruct pa; [|apply DC_ret].
  apply lift_calls; [apply K_pre_parse; [exact Hw|intros; apply C_ret|intros; apply C_ret]|].
  intros [loc' r'|x|]; try apply DC_ret.
  apply DC_call; [split; [reflexivity|apply fw_se_expr]|]. intros [l2 r2|x|]; apply DC_ret.
Qed.

Lemma scan_loop_calls tbl root s always_skip overlap maxm : fw tbl root = true ->
  forall fuel loc matches acc, dcalls (Cs tbl s) (scan_loop fuel root s always_skip overlap maxm loc matches acc).
Proof.
  intros Hw.
  assert (Hpp : fw tbl (if always_skip then preparser root else root) = true)
    by (destruct always_skip; [apply fw_preparser|]; exact Hw).
  induction fuel as [|f IH]; intros loc matches acc; cbn [scan_loop]; [apply DC_ret|].
  destruct (Nat.leb loc (length s) && _); [|apply DC_ret].
  apply lift_calls; [apply K_pre_parse; [exact Hpp|intros; apply C_ret|intros; apply C_ret]|].
  intros [preloc r0|x|]; try apply DC_ret.
  apply DC_call; [split; [reflexivity|exact Hw]|]. intros [nextloc tk|x|].
  - destruct (Nat.ltb loc nextloc); [|apply IH]. destruct overlap; [|apply IH].
    apply lift_calls; [apply K_pre_parse; [exact Hpp|intros; apply C_ret|intros; apply C_ret]|].
    intros [nl r1|x|]; try apply DC_ret. apply IH.
  - destruct (is_pe (xk x)); [apply IH|apply DC_ret].
  - apply DC_ret.
Qed.

Lemma scan_string_calls tbl root (kt : bool) input maxm overlap always_skip : fw tbl root = true ->
  dcalls (Cs tbl (if kt then input else expandtabs input)) (scan_string root kt input maxm overlap always_skip).
Proof. intros Hw. unfold scan_string. apply scan_loop_calls. exact Hw. Qed.

(* ------------------------------------------------------------------------------------------- *)
(* the packaged statements (Props/C03.v)                                                         *)
(* ------------------------------------------------------------------------------------------- *)
Theorem lr_erasure : forall (G : env) fuel m a, option_map fst (parse_lr_t G fuel m a) = parse_lr G fuel m a.
Proof. exact parse_lr_er. Qed.

Theorem lr_transparent : forall (G : env) (tbl : nat -> option nat) (s : str) fuel (m : memo) (a : args) o m',
  forallb (fw tbl) G = true -> fw tbl (a_e a) = true -> a_s a = s ->
  memo_ok G tbl s m ->
  parse_lr_t G fuel m a = Some (o, m', fl0) ->
  (exists f, parse (step G) f a = Some o) /\ memo_ok G tbl s m'.
Proof.
  intros G tbl s fuel m a o m' HG Hw Hs Hm H.
  exact (parse_lr_sim G tbl s HG fuel m a o m' (conj Hs Hw) Hm H).
Qed.

(* the same, read on Model/LR.v's handler itself *)
Theorem lr_transparent_lr : forall (G : env) (tbl : nat -> option nat) (s : str) fuel (m : memo) (a : args) o m' fl,
  forallb (fw tbl) G = true -> fw tbl (a_e a) = true -> a_s a = s ->
  memo_ok G tbl s m ->
  parse_lr_t G fuel m a = Some (o, m', fl) -> fl_clean fl = true ->
  parse_lr G fuel m a = Some (o, m') /\ (exists f, parse (step G) f a = Some o) /\ memo_ok G tbl s m'.
Proof.
  intros G tbl s fuel m a o m' fl HG Hw Hs Hm H Hc. split; [eapply parse_lr_t_erase; exact H|].
  apply fl_clean_0 in Hc. subst fl. eapply lr_transparent; eassumption.
Qed.

Theorem memo_ok_empty : forall (G : env) tbl s cap, memo_ok G tbl s (memo_empty cap).
Proof. intros. apply mall_empty. Qed.

Lemma ids_consistent_split tl G root : ids_consistent tl G root = true ->
  fw (tbl_get tl) root = true /\ forallb (fw (tbl_get tl)) G = true.
Proof. unfold ids_consistent. intros H. apply andb_prop in H. exact H. Qed.

Theorem lr_entry {R} : forall (G : env) tl root (s : str) (p : dprog R) cap fuel r m' fl,
  ids_consistent tl G root = true ->
  dcalls (Cs (tbl_get tl) s) p ->
  drunm_t (parse_lr_t G fuel) (memo_empty cap) p = Some (r, m', fl) -> fl_clean fl = true ->
  drunm (parse_lr G fuel) (memo_empty cap) p = Some (r, m') /\
  exists f, drun (parse (step G) f) p = Some r.
Proof.
  intros G tl root s p cap fuel r m' fl Hid HC H Hc. apply ids_consistent_split in Hid as [Hw HG].
  split.
  - rewrite <- drunm_er, H. reflexivity.
  - apply fl_clean_0 in Hc. subst fl.
    exact (proj1 (drunm_sim G (tbl_get tl) s HG p fuel HC _ _ _ (memo_ok_empty G _ s cap) H)).
Qed.

Theorem lr_parse_string : forall (G : env) tl dw root keeptabs input parse_all cap fuel r m' fl,
  ids_consistent tl G root = true ->
  drunm_t (parse_lr_t G fuel) (memo_empty cap) (parse_string dw root keeptabs input parse_all) = Some (r, m', fl) ->
  fl_clean fl = true ->
  drunm (parse_lr G fuel) (memo_empty cap) (parse_string dw root keeptabs input parse_all) = Some (r, m') /\
  exists f, drun (parse (step G) f) (parse_string dw root keeptabs input parse_all) = Some r.
Proof.
  intros G tl dw root kt input pa cap fuel r m' fl Hid H Hc.
  eapply lr_entry; try eassumption. apply parse_string_calls. apply (ids_consistent_split _ _ _ Hid).
Qed.

Theorem lr_scan_string : forall (G : env) tl root keeptabs input maxm overlap always_skip cap fuel r m' fl,
  ids_consistent tl G root = true ->
  drunm_t (parse_lr_t G fuel) (memo_empty cap) (scan_string root keeptabs input maxm overlap always_skip) = Some (r, m', fl) ->
  fl_clean fl = true ->
  drunm (parse_lr G fuel) (memo_empty cap) (scan_string root keeptabs input maxm overlap always_skip) = Some (r, m') /\
  exists f, drun (parse (step G) f) (scan_string root keeptabs input maxm overlap always_skip) = Some r.
Proof.
  intros G tl root kt input mx ov sk cap fuel r m' fl Hid H Hc.
  eapply lr_entry; try eassumption. apply scan_string_calls. apply (ids_consistent_split _ _ _ Hid).
Qed.
