(* C03: enabling left-recursion support is transparent for ordinary grammars.
   Part A: the instrumented handler of Model/LRT.v computes exactly what Model/LR.v's handler computes (erasure).
   Part B: memo-table lemmas (UnboundedMemo and LRUMemo only ever forget or store what they are given).
   Part C: every `_parse` call issued by `step` is on the same input string and on a sub-expression that respects the
           Forward-identity table (inspection of `step`).
   Part D: the continuation of `pre_parse` can be split off.
   Part E: the simulation: a flag-free run of `parse_lr_t` answers what the plain parser answers, and keeps the invariant.
   Part F: entry points. *)
From Coq Require Import List ZArith NArith Bool Arith Lia.
From PP Require Import Model.Str Model.Results Model.Prog Model.Core Model.Entry Model.LR Model.LRT.
From PP Require Import Proofs.Packrat Proofs.EqDec.
Import ListNotations.

(* ------------------------------------------------------------------------------------------- *)
(* Part A: erasure                                                                              *)
(* ------------------------------------------------------------------------------------------- *)
Definition er (r : res_t) : option (outcome * memo) := option_map fst r.

Lemma er_with_fl f r : er (with_fl f r) = er r.
Proof. destruct r as [[[o m] g]|]; reflexivity. Qed.

Section Erase.
Variable rect : memo -> args -> res_t.
Variable rec : memo -> args -> option (outcome * memo).
Hypothesis Hrec : forall m a, er (rect m a) = rec m a.

Lemma runm_er p : forall m, er (runm_t rect m p) = runm rec m p.
Proof.
  induction p as [o|a k IH]; intros m; cbn [runm_t runm]; [reflexivity|].
  rewrite <- Hrec. destruct (rect m a) as [[[o m'] f]|]; cbn [er option_map fst]; [|reflexivity].
  rewrite er_with_fl. apply IH.
Qed.

Lemma super_impl_er a body s loc d m : er (super_impl_t rect a body s loc d m) = super_impl rec a body s loc d m.
Proof.
  unfold super_impl_t, super_impl. rewrite <- Hrec.
  destruct (rect m (mkargs body s loc d false)) as [[[[l r|x|] m'] f]|]; reflexivity.
Qed.

Lemma lr_loop_er a body s loc d : forall fuel prev_loc prev_peek m,
  er (lr_loop_t rect fuel a body s loc d prev_loc prev_peek m) = lr_loop rec fuel a body s loc d prev_loc prev_peek m.
Proof.
  induction fuel as [|f IH]; intros prev_loc prev_peek m; [reflexivity|].
  cbn [lr_loop_t lr_loop]. rewrite <- super_impl_er.
  destruct (super_impl_t rect a body s loc false m) as [[[o m1] f1]|]; cbn [er option_map fst]; [|reflexivity].
  rewrite er_with_fl.
  assert (Hcont : forall new_loc new_peek,
    er (if (new_loc <=? prev_loc)%Z then
          if d then
            match memo_get m1 (loc, nid a, true) with
            | None => Some (Err (mkx XKey 0%Z MEmpty None), m1, Build_flags false false false false false true)
            | Some ((pl, pr), m2) =>
              let m3 := memo_set m2 (loc, nid a, false) (pl, pr) in
              let m4 := memo_del (memo_del m3 (loc, nid a, false)) (loc, nid a, true) in
              let sd := is_seed (loc, nid a, true) (pl, pr) in
              let fl := Build_flags sd false false (negb sd && negb (mval_same (pl, pr) (prev_loc, prev_peek))) false false in
              match pr with
              | MOk r => Some (Ok (Z.to_nat pl) r, m4, fl)
              | MExc x => Some (Err x, m4, fl)
              end
            end
          else
            let m2 := memo_del m1 (loc, nid a, false) in
            let fl := Build_flags false (is_seed (loc, nid a, false) (prev_loc, prev_peek)) false false false false in
            match prev_peek with
            | MOk r => Some (Ok (Z.to_nat prev_loc) r, m2, fl)
            | MExc x => Some (Err x, m2, fl)
            end
        else
          if d then
            match super_impl_t rect a body s loc true m1 with
            | None => None
            | Some (Ok l r, m2, f2) =>
              let m3 := memo_set m2 (loc, nid a, true) (Z.of_nat l, MOk r) in
              with_fl f2 (lr_loop_t rect f a body s loc d new_loc new_peek (memo_set m3 (loc, nid a, false) (new_loc, new_peek)))
            | Some (Err x, m2, f2) =>
              if is_pe (xk x) then
                let m3 := memo_set m2 (loc, nid a, true) (new_loc, MExc x) in
                Some (Err x, memo_set m3 (loc, nid a, false) (new_loc, MExc x), fl_or f2 (Build_flags false false true false false false))
              else Some (Err x, m2, f2)
            | Some (Div, m2, f2) => Some (Div, m2, f2)
            end
          else lr_loop_t rect f a body s loc d new_loc new_peek (memo_set m1 (loc, nid a, false) (new_loc, new_peek)))
    = (if (new_loc <=? prev_loc)%Z then
          if d then
            match memo_get m1 (loc, nid a, true) with
            | None => Some (Err (mkx XKey 0%Z MEmpty None), m1)
            | Some ((pl, pr), m2) =>
              let m3 := memo_set m2 (loc, nid a, false) (pl, pr) in
              let m4 := memo_del (memo_del m3 (loc, nid a, false)) (loc, nid a, true) in
              match pr with
              | MOk r => Some (Ok (Z.to_nat pl) r, m4)
              | MExc x => Some (Err x, m4)
              end
            end
          else
            let m2 := memo_del m1 (loc, nid a, false) in
            match prev_peek with
            | MOk r => Some (Ok (Z.to_nat prev_loc) r, m2)
            | MExc x => Some (Err x, m2)
            end
        else
          if d then
            match super_impl rec a body s loc true m1 with
            | None => None
            | Some (Ok l r, m2) =>
              let m3 := memo_set m2 (loc, nid a, true) (Z.of_nat l, MOk r) in
              lr_loop rec f a body s loc d new_loc new_peek (memo_set m3 (loc, nid a, false) (new_loc, new_peek))
            | Some (Err x, m2) =>
              if is_pe (xk x) then
                let m3 := memo_set m2 (loc, nid a, true) (new_loc, MExc x) in
                Some (Err x, memo_set m3 (loc, nid a, false) (new_loc, MExc x))
              else Some (Err x, m2)
            | Some (Div, m2) => Some (Div, m2)
            end
          else lr_loop rec f a body s loc d new_loc new_peek (memo_set m1 (loc, nid a, false) (new_loc, new_peek)))).
  { intros new_loc new_peek. destruct (new_loc <=? prev_loc)%Z; destruct d.
    - destruct (memo_get m1 (loc, nid a, true)) as [[[pl [r|x]] m2]|]; reflexivity.
    - destruct prev_peek; reflexivity.
    - rewrite <- super_impl_er.
      destruct (super_impl_t rect a body s loc true m1) as [[[[l' r'|x'|] m2] f2]|]; cbn [er option_map fst]; try reflexivity.
      + cbv zeta. rewrite er_with_fl. apply IH.
      + destruct (is_pe (xk x')); reflexivity.
    - apply IH. }
  destruct o as [l r|x|].
  - apply Hcont.
  - destruct (is_pe (xk x)); [|reflexivity]. destruct prev_peek as [r0|x0]; [apply Hcont|reflexivity].
  - reflexivity.
Qed.

Lemma lr_forward_er a body s loc d m : er (lr_forward_t rect a body s loc d m) = lr_forward rec a body s loc d m.
Proof.
  unfold lr_forward_t, lr_forward.
  destruct (memo_get m (loc, nid a, d)) as [[[pl [r|x]] m1]|]; try reflexivity.
  apply lr_loop_er.
Qed.
End Erase.

Lemma parse_lr_er G : forall fuel m ar, er (parse_lr_t G fuel m ar) = parse_lr G fuel m ar.
Proof.
  induction fuel as [|f IH]; intros m ar; [reflexivity|].
  cbn [parse_lr_t parse_lr].
  pose proof (runm_er (parse_lr_t G f) (parse_lr G f) IH) as Hrun.
  destruct (a_e ar) as [a i t|a i kd es|a i kd c|a i z body ne|a i target incl ig2 fo|a i [id|]]; try apply Hrun.
  destruct (nth_error G id) as [body|]; [|apply Hrun].
  rewrite <- Hrun.
  destruct (runm_t (parse_lr_t G f) m _) as [[[[pl r0|x0|] m1] f1]|]; cbn [er option_map fst]; try reflexivity.
  rewrite er_with_fl. rewrite <- (lr_forward_er (parse_lr_t G f) (parse_lr G f) IH).
  destruct (lr_forward_t (parse_lr_t G f) a body (a_s ar) pl (a_do ar) m1) as [[[[l r|x|] m2] f2]|];
    cbn [er option_map fst]; try reflexivity; rewrite er_with_fl; apply Hrun.
Qed.

(* the two readings of the erasure lemma *)
Lemma parse_lr_t_erase G fuel m ar o m' fl : parse_lr_t G fuel m ar = Some (o, m', fl) -> parse_lr G fuel m ar = Some (o, m').
Proof. intros H. rewrite <- parse_lr_er, H. reflexivity. Qed.

Lemma parse_lr_t_total G fuel m ar o m' : parse_lr G fuel m ar = Some (o, m') -> exists fl, parse_lr_t G fuel m ar = Some (o, m', fl).
Proof.
  intros H. rewrite <- parse_lr_er in H. destruct (parse_lr_t G fuel m ar) as [[[o1 m1] fl]|]; [|discriminate].
  injection H as <- <-. exists fl. reflexivity.
Qed.

Lemma drunm_er G {R} (p : dprog R) fuel : forall m,
  option_map fst (drunm_t (parse_lr_t G fuel) m p) = drunm (parse_lr G fuel) m p.
Proof.
  induction p as [r|a k IH]; intros m; cbn [drunm_t drunm]; [reflexivity|].
  rewrite <- parse_lr_er. destruct (parse_lr_t G fuel m a) as [[[o m'] f]|]; cbn [er option_map fst]; [|reflexivity].
  rewrite <- IH. destruct (drunm_t (parse_lr_t G fuel) m' (k o)) as [[[r m''] g]|]; reflexivity.
Qed.

(* ------------------------------------------------------------------------------------------- *)
(* Part B: memo tables                                                                          *)
(* ------------------------------------------------------------------------------------------- *)
Lemma mkey_eqb_eq k k' : mkey_eqb k k' = true -> k = k'.
Proof.
  destruct k as [[l f] d], k' as [[l' f'] d']. cbn. intros H.
  apply andb_prop in H as [H H3]. apply andb_prop in H as [H1 H2].
  apply Nat.eqb_eq in H1, H2. apply eqb_prop in H3. subst. reflexivity.
Qed.

Lemma assoc_in {V} (d : list (mkey * V)) k v : assoc d k = Some v -> In (k, v) d.
Proof.
  induction d as [|[k' v'] d IH]; cbn; [discriminate|].
  destruct (mkey_eqb k' k) eqn:E.
  - intros [= <-]. left. rewrite (mkey_eqb_eq _ _ E). reflexivity.
  - intros H. right. apply IH. exact H.
Qed.

Lemma aset_in {V} (d : list (mkey * V)) k v x : In x (aset d k v) -> In x d \/ x = (k, v).
Proof.
  induction d as [|[k' v'] d IH]; cbn.
  - intros [<-|[]]. right. reflexivity.
  - destruct (mkey_eqb k' k) eqn:E; cbn; intros [<-|H].
    + right. rewrite (mkey_eqb_eq _ _ E). reflexivity.
    + left. right. exact H.
    + left. left. reflexivity.
    + destruct (IH H) as [H1|H1]; [left; right; exact H1|right; exact H1].
Qed.

Lemma aremove_in {V} (d : list (mkey * V)) k x : In x (aremove d k) -> In x d.
Proof.
  induction d as [|[k' v'] d IH]; cbn; [tauto|].
  destruct (mkey_eqb k' k); cbn; [tauto|]. intros [<-|H]; [left; reflexivity|right; apply IH; exact H].
Qed.

Lemma skipn_in {X} n : forall (l : list X) x, In x (skipn n l) -> In x l.
Proof. induction n as [|n IH]; intros [|y l] x H; cbn in *; auto. Qed.

Definition In_memo (x : mkey * mval) (m : memo) : Prop := In x (m_active m) \/ In x (m_memory m).

Section MemoAll.
Variable P : mkey -> mval -> Prop.
Definition mall (m : memo) : Prop := forall k v, In_memo (k, v) m -> P k v.

Lemma mall_empty cap : mall (memo_empty cap).
Proof. intros k v [[]|[]]. Qed.

Lemma mall_get m k v m' : memo_get m k = Some (v, m') -> mall m -> P k v /\ mall m'.
Proof.
  unfold memo_get. intros H Hm.
  destruct (m_cap m) as [c|].
  - destruct (assoc (m_active m) k) as [v0|] eqn:E.
    + injection H as <- <-. split; [|exact Hm]. apply Hm. left. apply assoc_in. exact E.
    + destruct (assoc (m_memory m) k) as [v0|] eqn:E2; [|discriminate]. injection H as <- <-.
      assert (P k v0) as Hp by (apply Hm; right; apply assoc_in; exact E2).
      split; [exact Hp|]. intros k1 v1 [H1|H1]; cbn in H1.
      * apply Hm. left. exact H1.
      * apply in_app_iff in H1 as [H1|[H1|[]]].
        -- apply Hm. right. eapply aremove_in. exact H1.
        -- injection H1 as <- <-. exact Hp.
  - destruct (assoc (m_active m) k) as [v0|] eqn:E; [|discriminate].
    injection H as <- <-. split; [|exact Hm]. apply Hm. left. apply assoc_in. exact E.
Qed.

Lemma mall_set m k v : mall m -> P k v -> mall (memo_set m k v).
Proof.
  intros Hm Hp. unfold memo_set. destruct (m_cap m) as [c|]; intros k1 v1 [H1|H1]; cbn in H1.
  - apply aset_in in H1 as [H1|H1]; [apply Hm; left; exact H1|injection H1 as -> ->; exact Hp].
  - apply Hm. right. eapply aremove_in. exact H1.
  - apply aset_in in H1 as [H1|H1]; [apply Hm; left; exact H1|injection H1 as -> ->; exact Hp].
  - apply Hm. right. exact H1.
Qed.

Lemma mall_del m k : mall m -> mall (memo_del m k).
Proof.
  intros Hm. unfold memo_del. destruct (m_cap m) as [c|]; [|exact Hm].
  destruct (assoc (m_active m) k) as [v|] eqn:E; [|exact Hm].
  intros k1 v1 [H1|H1]; cbn in H1.
  - apply Hm. left. eapply aremove_in. exact H1.
  - apply in_app_iff in H1 as [H1|[H1|[]]].
    + apply Hm. right. eapply skipn_in. eapply aremove_in. exact H1.
    + injection H1 as <- <-. apply Hm. left. apply assoc_in. exact E.
Qed.
End MemoAll.

(* flags *)
Lemma fl_or_0 f g : fl_or f g = fl0 -> f = fl0 /\ g = fl0.
Proof.
  destruct f as [a1 a2 a3 a4 a5 a6], g as [b1 b2 b3 b4 b5 b6]. unfold fl_or, fl0. cbn. intros H.
  injection H as H1 H2 H3 H4 H5 H6.
  apply orb_false_elim in H1 as [-> ->]. apply orb_false_elim in H2 as [-> ->]. apply orb_false_elim in H3 as [-> ->].
  apply orb_false_elim in H4 as [-> ->]. apply orb_false_elim in H5 as [-> ->]. apply orb_false_elim in H6 as [-> ->].
  split; reflexivity.
Qed.

Lemma with_fl_0 f r o m : with_fl f r = Some (o, m, fl0) -> f = fl0 /\ r = Some (o, m, fl0).
Proof.
  destruct r as [[[o1 m1] g]|]; cbn [with_fl]; [|discriminate]. intros H.
  assert (fl_or f g = fl0) as H0 by congruence. assert (o1 = o) as -> by congruence. assert (m1 = m) as -> by congruence.
  apply fl_or_0 in H0 as [-> ->]. split; reflexivity.
Qed.

Lemma fl_clean_0 f : fl_clean f = true -> f = fl0.
Proof. destruct f as [[] [] [] [] [] []]; cbn; intros H; try discriminate; reflexivity. Qed.

Lemma is_seed_seed loc fid d : is_seed (loc, fid, d) ((Z.of_nat loc - 1)%Z, MExc (mkx XParse (Z.of_nat loc) MFwdNoBase (Some fid))) = true.
Proof. cbn. rewrite !Z.eqb_refl, Nat.eqb_refl. reflexivity. Qed.

Lemma mval_same_eq v w : mval_same v w = true -> v = w.
Proof.
  destruct v as [l1 [r1|x1]], w as [l2 [r2|x2]]; cbn; try discriminate.
  intros H. apply andb_prop in H as [H1 H2]. apply Z.eqb_eq in H1. destruct (pres_eq_dec r1 r2); [|discriminate]. subst. reflexivity.
Qed.

Lemma same_fail_eq o1 o2 : same_fail o1 o2 = true -> o1 = o2.
Proof.
  destruct o1 as [l1 r1|x1|], o2 as [l2 r2|x2|]; cbn; try discriminate; [|reflexivity].
  destruct (exn_eq_dec x1 x2); [|discriminate]. subst. reflexivity.
Qed.
