(* C09 (model part): the parse from a position on depends only on the text from that position on (suffix locality), and
   a whitespace-skipping element absorbs extra leading whitespace.  Stated on the reference reading `peg`, which
   Proofs/PegEquiv.v proves equal to the element semantics on `in_class`. *)
From Coq Require Import List ZArith NArith Bool Arith Lia.
From PP Require Import Model.Str Model.Results Model.Prog Model.Core Model.Peg Proofs.PegEquiv Proofs.EachFacts.
Import ListNotations.

Definition shift (n : nat) (r : res) : res :=
  match r with POk l ts => POk (n + l) ts | other => other end.

(* tokens that only look forward from the location they are tried at (no look-behind, no column arithmetic) *)
Definition forward_token (t : tkind) : bool :=
  match t with
  | KLit _ | KCaselessLit _ _ | KNotIn _ _ _ | KWhite _ _ _ | KEmpty | KNoMatch | KLineEnd | KStringEnd => true
  | KWord _ _ _ _ _ askw use_re => negb askw        (* as_keyword looks at the preceding character *)
  | _ => false                                      (* Keyword, WordStart/End, LineStart, StringStart, GoToColumn *)
  end.

Section Fwd.
Variable G : env.
Fixpoint fwd_class (e : expr) : bool :=
  match e with
  | Tok _ _ t => forward_token t
  | Nary _ _ _ es => (fix all (l : list expr) : bool := match l with [] => true | x :: r => fwd_class x && all r end) es
  | Enh _ _ _ c => fwd_class c
  | Rep _ _ _ b ne => fwd_class b && match ne with Some n => fwd_class n | None => true end
  | Skip _ _ _ _ _ _ => false
  | Fwd _ _ _ => true
  end.
End Fwd.
Definition env_fwd_class (G : env) : bool := forallb fwd_class G.

(* ---- string facts under a prefix ---- *)
Lemma at_app x s k : at_ (x ++ s) (length x + k) = at_ s k.
Proof. unfold at_. rewrite nth_error_app2 by lia. f_equal. lia. Qed.

Lemma run_while_app x s p : forall fuel k m,
  run_while fuel (x ++ s) (length x + k) (length x + m) p = length x + run_while fuel s k m p.
Proof.
  induction fuel as [|f IH]; intros k m; simpl; [reflexivity|].
  assert (Nat.ltb (length x + k) (length x + m) = Nat.ltb k m) as ->.
  { destruct (Nat.ltb k m) eqn:E; [apply Nat.ltb_lt in E; apply Nat.ltb_lt; lia|apply Nat.ltb_ge in E; apply Nat.ltb_ge; lia]. }
  destruct (Nat.ltb k m); [|reflexivity]. rewrite at_app. destruct (at_ s k) as [c|]; [|reflexivity].
  destruct (p c); [|reflexivity]. replace (S (length x + k)) with (length x + S k) by lia. apply IH.
Qed.

(* run_while with more fuel than characters left gives the same answer *)
Lemma run_while_fuel s p m : forall f1 f2 k, m <= length s -> m - k <= f1 -> m - k <= f2 ->
  run_while f1 s k m p = run_while f2 s k m p.
Proof.
  induction f1 as [|f1 IH]; intros f2 k Hm H1 H2.
  - assert (m <= k) by lia. destruct f2; simpl; [reflexivity|].
    assert (Nat.ltb k m = false) as -> by (apply Nat.ltb_ge; lia). reflexivity.
  - destruct f2 as [|f2].
    + assert (m <= k) by lia. simpl. assert (Nat.ltb k m = false) as -> by (apply Nat.ltb_ge; lia). reflexivity.
    + simpl. destruct (Nat.ltb k m) eqn:E; [|reflexivity]. apply Nat.ltb_lt in E.
      destruct (at_ s k); [|reflexivity]. destruct (p c); [|reflexivity]. apply IH; lia.
Qed.

Lemma skip_white_app x s k w : skip_white (x ++ s) (length x + k) w = length x + skip_white s k w.
Proof.
  unfold skip_white. rewrite app_length.
  rewrite (run_while_fuel (x ++ s) _ (length x + length s) (length x + length s) (length s) (length x + k))
    by (rewrite ?app_length; lia).
  apply run_while_app.
Qed.

Lemma slice_app_shift x s a b : slice_ (x ++ s) (length x + a) (length x + b) = slice_ s a b.
Proof.
  unfold slice_. replace (length x + b - (length x + a)) with (b - a) by lia.
  f_equal. rewrite skipn_app. rewrite skipn_all2 by lia. simpl. f_equal. lia.
Qed.

Lemma startswith_app x s m : forall k, startswith_at (x ++ s) (length x + k) m = startswith_at s k m.
Proof.
  induction m as [|c m IH]; intros k; simpl; [reflexivity|].
  rewrite at_app. destruct (at_ s k); [|reflexivity].
  replace (S (length x + k)) with (length x + S k) by lia. rewrite IH. reflexivity.
Qed.

(* ---- whitespace inserted where a skipping element starts is absorbed by its pre-parse ---- *)
Lemma run_while_all w p : (forall c, In c w -> p c = true) -> forall fuel s k,
  length w - k <= fuel -> k <= length w ->
  run_while fuel (w ++ s) k (length (w ++ s)) p = run_while (fuel - (length w - k)) (w ++ s) (length w) (length (w ++ s)) p.
Proof.
  intros Hw. induction fuel as [|f IH]; intros s k Hf Hk.
  - assert (k = length w) as -> by lia. reflexivity.
  - destruct (Nat.eq_dec k (length w)) as [->|Hne]; [rewrite Nat.sub_diag, Nat.sub_0_r; reflexivity|].
    cbn [run_while]. assert (Nat.ltb k (length (w ++ s)) = true) as -> by (apply Nat.ltb_lt; rewrite app_length; lia).
    unfold at_. rewrite nth_error_app1 by lia.
    destruct (nth_error w k) as [c|] eqn:E; [|apply nth_error_None in E; lia].
    rewrite (Hw c) by (eapply nth_error_In; exact E).
    rewrite IH by lia. f_equal. assert (k < length w) by lia. lia.
Qed.

Lemma skip_white_absorb w s ws : (forall c, In c w -> mem_char c ws = true) ->
  skip_white (w ++ s) 0 ws = length w + skip_white s 0 ws.
Proof.
  intros Hw. unfold skip_white.
  rewrite (run_while_all w (fun c => mem_char c ws) Hw (length (w ++ s)) s 0) by (rewrite ?app_length; lia).
  rewrite app_length.
  rewrite (run_while_fuel (w ++ s) _ (length w + length s) _ (length s) (length w)) by (rewrite ?app_length; lia).
  assert (forall A B, A = length w + 0 -> B = length w + length s ->
            run_while (length s) (w ++ s) A B (fun c => mem_char c ws) =
            length w + run_while (length s) s 0 (length s) (fun c => mem_char c ws)) as H
    by (intros A B -> ->; apply run_while_app).
  apply H; lia.
Qed.

(* ---- tokens that only look forward behave identically on a shifted text ---- *)
Definition tok_peg (a : attrs) (t : tkind) (s : str) (loc : nat) : option (nat * list tok) :=
  match tok_impl a t s loc with IOk l r => Some (l, raw_tokens r) | _ => None end.

Lemma len_cap_shift n k maxl len : len_cap (n + k) maxl (n + len) = n + len_cap k maxl len.
Proof. unfold len_cap. destruct maxl; lia. Qed.

Lemma run_while_shift x s p k m : m <= length s ->
  run_while (length (x ++ s)) (x ++ s) (length x + k) (length x + m) p = length x + run_while (length s) s k m p.
Proof.
  intros Hm. rewrite app_length.
  rewrite (run_while_fuel (x ++ s) p (length x + m) (length x + length s) (length s) (length x + k))
    by (rewrite ?app_length; lia).
  apply run_while_app.
Qed.

Lemma len_cap_le k maxl len : len_cap k maxl len <= len.
Proof. unfold len_cap. destruct maxl; lia. Qed.

Ltac shift_norm x :=
  repeat match goal with
         | |- context [S (length x + ?k)] => replace (S (length x + k)) with (length x + S k) by lia
         end.

Ltac fin := match goal with |- Some (?a, ?t) = Some (?b, ?t) => replace a with b by (simpl; lia); reflexivity end.

Lemma tok_shift a t x s k : forward_token t = true ->
  tok_peg a t (x ++ s) (length x + k) =
  match tok_peg a t s k with Some (l, ts) => Some (length x + l, ts) | None => None end.
Proof.
  intros Hf. unfold tok_peg. destruct t; try discriminate Hf; unfold tok_impl; cbv zeta.
  - (* KLit *)
    destruct m as [|c [|c2 m']]; rewrite at_app; destruct (at_ s k) as [d|]; try reflexivity.
    + cbn [startswith_at]. cbv iota. fin.
    + destruct (N.eqb d c); [|reflexivity]. fin.
    + rewrite startswith_app. destruct (startswith_at s k (c :: c2 :: m')); [|reflexivity]. fin.
  - (* KCaselessLit *)
    replace (length x + k + length upper_m) with (length x + (k + length upper_m)) by lia.
    rewrite slice_app_shift. destruct (str_eqb _ upper_m); [|reflexivity]. fin.
  - (* KWord, not as_keyword *)
    simpl in Hf. destruct askw; [discriminate|].
    rewrite at_app. destruct (at_ s k) as [c0|]; [|destruct use_re; reflexivity].
    rewrite app_length. rewrite len_cap_shift. shift_norm x.
    pose proof (len_cap_le k maxl (length s)) as Hc.
    rewrite <- app_length. rewrite (run_while_shift x s _ (S k) _ Hc).
    set (e := run_while (length s) s (S k) (len_cap k maxl (length s)) (fun c => mem_char c body)).
    replace (length x + e - (length x + k)) with (e - k) by lia.
    destruct use_re.
    + destruct (negb (mem_char c0 init)); [reflexivity|]. cbn [andb negb orb].
      destruct (Nat.ltb (e - k) minl); [reflexivity|].
      rewrite slice_app_shift. reflexivity.
    + destruct (negb (mem_char c0 init)); [reflexivity|]. cbn [andb].
      destruct (Nat.ltb (e - k) minl); [reflexivity|].
      rewrite slice_app_shift. reflexivity.
  - (* KNotIn *)
    rewrite at_app. destruct (at_ s k) as [c0|]; [|reflexivity].
    destruct (mem_char c0 notchars); [reflexivity|].
    rewrite app_length. rewrite len_cap_shift. shift_norm x.
    pose proof (len_cap_le k maxl (length s)) as Hc.
    rewrite <- app_length. rewrite (run_while_shift x s _ (S k) _ Hc).
    set (e := run_while (length s) s (S k) (len_cap k maxl (length s)) _).
    replace (length x + e - (length x + k)) with (e - k) by lia.
    destruct (Nat.ltb (e - k) minl); [reflexivity|]. rewrite slice_app_shift. reflexivity.
  - (* KWhite *)
    rewrite at_app. destruct (at_ s k) as [c0|]; [|reflexivity].
    destruct (negb (mem_char c0 ws)); [reflexivity|].
    rewrite app_length. rewrite len_cap_shift. shift_norm x.
    pose proof (len_cap_le k maxl (length s)) as Hc.
    rewrite <- app_length. rewrite (run_while_shift x s _ (S k) _ Hc).
    set (e := run_while (length s) s (S k) (len_cap k maxl (length s)) _).
    replace (length x + e - (length x + k)) with (e - k) by lia.
    destruct (Nat.ltb (e - k) minl); [reflexivity|]. rewrite slice_app_shift. reflexivity.
  - reflexivity.
  - reflexivity.
  - (* KLineEnd *)
    rewrite app_length.
    assert (Nat.ltb (length x + k) (length x + length s) = Nat.ltb k (length s)) as ->.
    { destruct (Nat.ltb k (length s)) eqn:E; [apply Nat.ltb_lt in E; apply Nat.ltb_lt; lia|apply Nat.ltb_ge in E; apply Nat.ltb_ge; lia]. }
    assert (Nat.eqb (length x + k) (length x + length s) = Nat.eqb k (length s)) as ->.
    { destruct (Nat.eqb k (length s)) eqn:E; [apply Nat.eqb_eq in E; apply Nat.eqb_eq; lia|apply Nat.eqb_neq in E; apply Nat.eqb_neq; lia]. }
    rewrite at_app. destruct (Nat.ltb k (length s)).
    + destruct (at_ s k) as [c|]; [|reflexivity]. destruct (N.eqb c NL); [|reflexivity]. fin.
    + destruct (Nat.eqb k (length s)); [|reflexivity]. fin.
  - (* KStringEnd *)
    rewrite app_length.
    assert (Nat.ltb (length x + k) (length x + length s) = Nat.ltb k (length s)) as ->.
    { destruct (Nat.ltb k (length s)) eqn:E; [apply Nat.ltb_lt in E; apply Nat.ltb_lt; lia|apply Nat.ltb_ge in E; apply Nat.ltb_ge; lia]. }
    assert (Nat.eqb (length x + k) (length x + length s) = Nat.eqb k (length s)) as ->.
    { destruct (Nat.eqb k (length s)) eqn:E; [apply Nat.eqb_eq in E; apply Nat.eqb_eq; lia|apply Nat.eqb_neq in E; apply Nat.eqb_neq; lia]. }
    destruct (Nat.ltb k (length s)); [reflexivity|]. destruct (Nat.eqb k (length s)); fin.
Qed.

(* ---- suffix locality of the reading, for grammars without repetition constructs (recursion through Forward allowed) ---- *)
Fixpoint norep (e : expr) : bool :=
  match e with
  | Tok _ _ t => forward_token t
  | Nary _ _ _ es => (fix all (l : list expr) : bool := match l with [] => true | x :: r => norep x && all r end) es
  | Enh _ _ _ c => norep c
  | Rep _ _ _ _ _ => false
  | Skip _ _ _ _ _ _ => false
  | Fwd _ _ _ => true
  end.

Lemma eff_shift x s e k : eff (x ++ s) e (length x + k) = length x + eff s e k.
Proof. unfold eff. destruct (callpre (attrs_of e) && skipws (attrs_of e)); [apply skip_white_app|reflexivity]. Qed.

Section Shift.
Variable n : nat.
Variables rec1 rec2 : expr -> nat -> res.

Definition rel_on (es : list expr) : Prop := forall e, In e es -> forall l, rec1 e (n + l) = shift n (rec2 e l).

Lemma seq_shift es : rel_on es -> forall l acc, peg_seq rec1 es (n + l) acc = shift n (peg_seq rec2 es l acc).
Proof.
  induction es as [|e es IH]; intros H l acc; simpl; [reflexivity|].
  rewrite (H e (or_introl eq_refl)). destruct (rec2 e l) as [l' ts| | |]; simpl; try reflexivity.
  apply IH. intros e' Hin. apply H. right. exact Hin.
Qed.

Lemma first_shift es : rel_on es -> forall l, peg_first rec1 es (n + l) = shift n (peg_first rec2 es l).
Proof.
  induction es as [|e es IH]; intros H l; simpl; [reflexivity|].
  rewrite (H e (or_introl eq_refl)). destruct (rec2 e l) as [l' ts| | |]; simpl; try reflexivity.
  apply IH. intros e' Hin. apply H. right. exact Hin.
Qed.

Lemma longest_shift es : rel_on es -> forall l best,
  peg_longest rec1 es (n + l) (option_map (fun p => (n + fst p, snd p)) best) = shift n (peg_longest rec2 es l best).
Proof.
  induction es as [|e es IH]; intros H l best; simpl.
  - destruct best as [[bl ts]|]; reflexivity.
  - rewrite (H e (or_introl eq_refl)). destruct (rec2 e l) as [l' ts| | |]; simpl; try reflexivity.
    + assert (Hr : rel_on es) by (intros e' Hin; apply H; right; exact Hin).
      destruct best as [[bl bts]|]; simpl.
      * assert (Nat.ltb (n + bl) (n + l') = Nat.ltb bl l') as ->.
        { destruct (Nat.ltb bl l') eqn:E; [apply Nat.ltb_lt in E; apply Nat.ltb_lt; lia|apply Nat.ltb_ge in E; apply Nat.ltb_ge; lia]. }
        destruct (Nat.ltb bl l'); [apply (IH Hr l (Some (l', ts)))|apply (IH Hr l (Some (bl, bts)))].
      * apply (IH Hr l (Some (l', ts))).
    + apply IH. intros e' Hin. apply H. right. exact Hin.
Qed.
(* '&' : without repeatable operands the number of rounds does not depend on the input *)
Definition Rel (e : expr) : Prop := forall l, rec1 e (n + l) = shift n (rec2 e l).

Lemma eqb_shift a b : Nat.eqb (n + a) (n + b) = Nat.eqb a b.
Proof. destruct (Nat.eqb a b) eqn:E; [apply Nat.eqb_eq in E; apply Nat.eqb_eq; lia|apply Nat.eqb_neq in E; apply Nat.eqb_neq; lia]. Qed.

Lemma each_round_shift es : Forall Rel es -> forall cands l reqd opt mo nf k1 k2,
  entsP Rel cands -> entsP Rel reqd -> entsP Rel opt -> Forall Rel mo ->
  (forall l' r o m nf', entsP Rel r -> entsP Rel o -> Forall Rel m -> k1 (n + l') r o m nf' = shift n (k2 l' r o m nf')) ->
  peg_each_round rec1 es cands (n + l) reqd opt mo nf k1 = shift n (peg_each_round rec2 es cands l reqd opt mo nf k2).
Proof.
  intros Hes. induction cands as [|en rest IH]; intros l reqd opt mo nf k1 k2 Hc Hr Ho Hm Hk; cbn [peg_each_round].
  - apply Hk; assumption.
  - inversion Hc as [|? ? Hen Hrest]; subst. rewrite (Hen l).
    destruct (rec2 (ee_e en) l) as [l' ts| | |]; cbn [shift]; try reflexivity.
    + assert (Hm' : Forall Rel (mo ++ [each_order es en])).
      { apply Forall_app. split; [exact Hm|]. constructor; [|constructor]. apply each_order_P; assumption. }
      destruct (mem_cls (ee_cls en) reqd); [apply IH; try assumption; apply entsP_remove; assumption|].
      destruct (mem_cls (ee_cls en) opt); [apply IH; try assumption; apply entsP_remove; assumption|].
      apply IH; assumption.
    + apply IH; assumption.
Qed.

Lemma each_loop_shift es multis : Forall Rel es -> entsP Rel multis -> forall fuel l reqd opt mo k1 k2,
  entsP Rel reqd -> entsP Rel opt -> Forall Rel mo ->
  (forall r o m, entsP Rel r -> entsP Rel o -> Forall Rel m -> k1 r o m = shift n (k2 r o m)) ->
  peg_each_loop rec1 es fuel (n + l) reqd opt multis mo k1 = shift n (peg_each_loop rec2 es fuel l reqd opt multis mo k2).
Proof.
  intros Hes Hmu. induction fuel as [|f IH]; intros l reqd opt mo k1 k2 Hr Ho Hm Hk; cbn [peg_each_loop]; [reflexivity|].
  apply each_round_shift; try assumption.
  - apply entsP_app; [exact Hr|]. apply entsP_app; assumption.
  - intros l' r o m nf' Hr' Ho' Hm'. rewrite eqb_shift.
    destruct (Nat.eqb nf' _); [apply Hk; assumption|].
    destruct (_ && _); [reflexivity|]. apply IH; assumption.
Qed.

Lemma each_shift s1 s2 es info l : Forall Rel es ->
  entsP Rel (each_req1 (each_zip es info) ++ each_multi true (each_zip es info)) -> entsP Rel (each_opt1 (each_zip es info)) ->
  each_multi false (each_zip es info) = [] ->
  peg_each s1 rec1 es info (n + l) = shift n (peg_each s2 rec2 es info l).
Proof.
  intros Hes Hr Ho Hmu. unfold peg_each. cbv zeta. rewrite Hmu. unfold each_fuel.
  apply each_loop_shift; try assumption; try constructor.
  intros r o m Hr' Ho' Hm'. destruct r; [|reflexivity].
  apply seq_shift. intros e Hin. apply in_app_or in Hin as [Hin|Hin].
  - rewrite Forall_forall in Hm'. apply Hm'. exact Hin.
  - pose proof (each_unmatched_P Rel es info o Hes) as Hu. rewrite Forall_forall in Hu. apply Hu. exact Hin.
Qed.
End Shift.

Section Local.
Variable G : env.
Hypothesis HG : forallb norep G = true.

Lemma norep_all es e :
  (fix all (l : list expr) : bool := match l with [] => true | x :: r => norep x && all r end) es = true ->
  In e es -> norep e = true.
Proof.
  induction es as [|x es IH]; intros H []; apply andb_prop in H as [H1 H2]; [subst; exact H1|apply IH; assumption].
Qed.

Theorem peg_shift x s : forall f e k, norep e = true ->
  peg G (x ++ s) f e (length x + k) = shift (length x) (peg G s f e k).
Proof.
  induction f as [|f IH]; intros e k He; [reflexivity|].
  cbn [peg]. rewrite eff_shift. set (L := eff s e k).
  destruct e as [a i t|a i kd es|a i kd c|a i z b ne|a i c inc ig fo|a i id]; simpl in He; try discriminate He.
  - (* token *)
    cbn [attrs_of]. pose proof (tok_shift a t x s L He) as H. unfold tok_peg in H.
    destruct (tok_impl a t (x ++ s) (length x + L)) as [l r|e1|]; destruct (tok_impl a t s L) as [l2 r2|e2|];
      cbn [shift]; try discriminate H; try reflexivity. injection H as H1 H2. rewrite H1, H2. reflexivity.
  - assert (Hrel : rel_on (length x) (peg G (x ++ s) f) (peg G s f) es).
    { intros e Hin l. apply IH. eapply norep_all; eassumption. }
    destruct kd.
    + apply seq_shift. exact Hrel.
    + apply first_shift. exact Hrel.
    + cbn [attrs_of].
      assert ((if forallb (fun c => callpre (attrs_of c)) es
               then if skipws a then skip_white (x ++ s) (length x + L) (white a) else length x + L
               else length x + L) =
              length x + (if forallb (fun c => callpre (attrs_of c)) es
                          then if skipws a then skip_white s L (white a) else L else L)) as ->.
      { destruct (forallb _ es); [destruct (skipws a); [apply skip_white_app|reflexivity]|reflexivity]. }
      apply (longest_shift (length x) _ _ es Hrel _ None).
    + (* Each: no repetition among the operands, hence no repeatable operand *)
      assert (Hn : Forall (fun c => norep c = true) es).
      { apply Forall_forall. intros c Hin. eapply norep_all; eassumption. }
      assert (HR : forall c, norep c = true -> Rel (length x) (peg G (x ++ s) f) (peg G s f) c).
      { intros c Hc l. apply IH. exact Hc. }
      destruct (each_groups_P (fun c => norep c = true)
                  (fun a0 i0 z b ne H => ltac:(discriminate H)) (fun a0 i0 dflt b H => H) es info Hn) as (H1 & H2 & H3 & H4 & _).
      apply each_shift.
      * eapply Forall_impl; [|exact Hn]. exact HR.
      * apply entsP_app; (eapply Forall_impl; [|eassumption]); intros en Hen; apply HR; exact Hen.
      * eapply Forall_impl; [|exact H4]. intros en Hen. apply HR. exact Hen.
      * clear - Hn. unfold each_zip. revert info. induction Hn as [|c es Hc Hn IHn]; intros [|i0 info]; try reflexivity.
        cbn [combine each_multi flat_map fst]. fold (each_multi false (combine es info)). rewrite IHn.
        destruct c; simpl in Hc; try discriminate Hc; reflexivity.
  - destruct kd; try reflexivity; try (destruct aspy; [reflexivity|]); rewrite (IH c L He); destruct (peg G s f c L) as [l ts| | |]; reflexivity.
  - destruct id as [id|]; [|reflexivity]. destruct (nth_error G id) as [c|] eqn:E; [|reflexivity].
    apply IH. rewrite forallb_forall in HG. apply HG. eapply nth_error_In. exact E.
Qed.

(* the body of one level depends on the starting location only through the location reached after pre-parse *)
Lemma peg_eff_eq s f e l1 l2 : eff s e l1 = eff s e l2 -> peg G s f e l1 = peg G s f e l2.
Proof. intros H. destruct f; [reflexivity|]. cbn [peg]. rewrite H. reflexivity. Qed.

(* whitespace inserted in front of a skipping element is absorbed: same tokens, end shifted by its length *)
Theorem peg_absorb w s f e :
  norep e = true -> callpre (attrs_of e) && skipws (attrs_of e) = true ->
  (forall c, In c w -> mem_char c (white (attrs_of e)) = true) ->
  peg G (w ++ s) f e 0 = shift (length w) (peg G s f e 0).
Proof.
  intros He Hp Hw.
  rewrite <- (peg_shift w s f e 0 He). rewrite Nat.add_0_r.
  apply peg_eff_eq. unfold eff. rewrite Hp.
  rewrite (skip_white_absorb w s _ Hw).
  replace (length w) with (length w + 0) at 2 by lia. rewrite skip_white_app. reflexivity.
Qed.
End Local.
