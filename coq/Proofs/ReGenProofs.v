(* Lemmas about Model/ReGen.v: the character class built by _collapse_string_to_ranges denotes exactly the
   given characters; the text it writes reads back as those items; srange's expansion inverts the notation. *)
From Coq Require Import List NArith Arith Bool Lia.
From PP Require Import Model.Str Model.Regex Gen.GenC17 Model.ReGen.
Import ListNotations.

Ltac nb :=
  repeat match goal with
  | H : context [N.eqb ?a ?b] |- _ => destruct (N.eqb_spec a b)
  | |- context [N.eqb ?a ?b] => destruct (N.eqb_spec a b)
  | H : context [N.leb ?a ?b] |- _ => destruct (N.leb_spec a b)
  | |- context [N.leb ?a ?b] => destruct (N.leb_spec a b)
  | H : context [N.ltb ?a ?b] |- _ => destruct (N.ltb_spec a b)
  | |- context [N.ltb ?a ?b] => destruct (N.ltb_spec a b)
  end; simpl in *; try reflexivity; try discriminate; try lia.

(* ------------------------------------------------------------------ sorted(set(s)) *)
Lemma mem_insert_uniq : forall x c l, mem_char x (insert_uniq c l) = N.eqb x c || mem_char x l.
Proof.
  intros x c. unfold mem_char. induction l as [|d t IH]; simpl.
  - reflexivity.
  - destruct (N.ltb c d); simpl; [reflexivity|].
    destruct (N.eqb_spec c d).
    + subst. simpl. destruct (N.eqb x d); reflexivity.
    + simpl. rewrite IH. destruct (N.eqb x d), (N.eqb x c); reflexivity.
Qed.

Lemma mem_sort_uniq : forall x l, mem_char x (sort_uniq l) = mem_char x l.
Proof.
  intros x. induction l as [|c t IH]; simpl; [reflexivity|].
  rewrite mem_insert_uniq, IH. reflexivity.
Qed.

(* strictly increasing *)
Fixpoint strict_sorted (l : list char) : Prop :=
  match l with
  | [] => True
  | c :: t => match t with [] => True | d :: _ => (c < d)%N end /\ strict_sorted t
  end.

Lemma insert_uniq_sorted : forall c l, strict_sorted l -> strict_sorted (insert_uniq c l).
Proof.
  intros c. induction l as [|d t IH]; simpl; intros H.
  - auto.
  - destruct (N.ltb_spec c d).
    + simpl. auto.
    + destruct (N.eqb_spec c d).
      * simpl. auto.
      * destruct H as [H1 H2]. specialize (IH H2). simpl. split; [|exact IH].
        destruct t as [|e t']; simpl.
        -- lia.
        -- destruct (N.ltb_spec c e); [lia|]. destruct (N.eqb_spec c e); [subst; lia|]. exact H1.
Qed.

Lemma sort_uniq_sorted : forall l, strict_sorted (sort_uniq l).
Proof. induction l; simpl; [exact I|]. apply insert_uniq_sorted. exact IHl. Qed.

(* ------------------------------------------------------------------ items *)
Lemma items_mem_app : forall a b x, items_mem (a ++ b) x = items_mem a x || items_mem b x.
Proof. intros. unfold items_mem. apply existsb_app. Qed.

Lemma items_mem_chars : forall l x, items_mem (map CI_char l) x = mem_char x l.
Proof.
  intros. unfold items_mem, mem_char. induction l; simpl; [reflexivity|]. rewrite IHl. reflexivity.
Qed.

Lemma run_items_mem : forall f l x, (f <= l)%N -> items_mem (run_items (f, l)) x = in_range f l x.
Proof.
  intros f l x H. unfold run_items, in_range.
  destruct (N.eqb_spec f l).
  - subst. unfold items_mem. simpl. nb.
  - destruct (N.eqb_spec l (f + 1)).
    + subst. unfold items_mem. simpl. nb.
    + unfold items_mem. simpl. unfold in_range. rewrite orb_false_r. reflexivity.
Qed.

Lemma runs_acc_mem : forall t f last x, (f <= last)%N ->
  items_mem (flat_map run_items (runs_acc f last t)) x = in_range f last x || mem_char x t.
Proof.
  induction t as [|c t IH]; intros f last x H; cbn [runs_acc].
  - cbn [flat_map]. rewrite app_nil_r. unfold mem_char. simpl existsb. rewrite orb_false_r. apply run_items_mem. exact H.
  - destruct (N.eqb_spec c (last + 1)).
    + subst. rewrite IH by lia. unfold in_range, mem_char. simpl existsb.
      destruct (existsb (N.eqb x) t); [rewrite !orb_true_r; reflexivity|]. rewrite !orb_false_r. nb.
    + cbn [flat_map]. rewrite items_mem_app, run_items_mem by exact H. rewrite IH by lia.
      unfold in_range at 2. unfold mem_char. simpl existsb.
      replace ((c <=? x)%N && (x <=? c)%N) with (N.eqb x c) by nb. reflexivity.
Qed.

Lemma runs_mem : forall l x, items_mem (flat_map run_items (runs l)) x = mem_char x l.
Proof.
  intros [|c t] x; [reflexivity|]. cbn [runs].
  rewrite runs_acc_mem by lia. unfold in_range, mem_char. simpl existsb.
  replace ((c <=? x)%N && (x <=? c)%N) with (N.eqb x c) by nb. reflexivity.
Qed.

(* the class denotes exactly the given characters *)
Theorem collapse_items_mem : forall cs x, items_mem (collapse_items cs) x = mem_char x cs.
Proof.
  intros. unfold collapse_items. destruct (2 <? length (sort_uniq cs)).
  - rewrite runs_mem. apply mem_sort_uniq.
  - rewrite items_mem_chars. apply mem_sort_uniq.
Qed.

Theorem collapse_class : forall cs x, cset_mem false false (collapse_items cs) x = mem_char x cs.
Proof. intros. unfold cset_mem. simpl. rewrite <- collapse_items_mem. destruct (items_mem (collapse_items cs) x); reflexivity. Qed.

(* ------------------------------------------------------------------ srange: expansion of the notation *)
Lemma expand_range_mem : forall lo hi x, mem_char x (expand_range lo hi) = in_range lo hi x.
Proof.
  intros lo hi x. unfold expand_range, mem_char, in_range.
  destruct ((lo <=? x)%N && (x <=? hi)%N) eqn:E.
  - apply andb_true_iff in E. destruct E as [E1 E2]. apply N.leb_le in E1, E2.
    apply existsb_exists. exists x. split; [|apply N.eqb_refl].
    apply in_map_iff. exists (N.to_nat (x - lo)). split; [lia|]. apply in_seq. lia.
  - destruct (existsb (N.eqb x) _) eqn:X; [|reflexivity].
    apply existsb_exists in X. destruct X as (y & Hy & Q). apply N.eqb_eq in Q. subst y.
    apply in_map_iff in Hy. destruct Hy as (k & Hk & Hin). apply in_seq in Hin.
    apply andb_false_iff in E. destruct E as [E|E]; apply N.leb_gt in E; lia.
Qed.

Lemma mem_char_app : forall x a b, mem_char x (a ++ b) = mem_char x a || mem_char x b.
Proof. intros. unfold mem_char. apply existsb_app. Qed.

(* srange's expansion lists exactly the characters the notation denotes *)
Theorem expand_items_mem : forall items x,
  forallb no_cat items = true -> mem_char x (expand_items items) = items_mem items x.
Proof.
  induction items as [|it t IH]; intros x H; simpl in *; [reflexivity|].
  apply andb_true_iff in H. destruct H as [H1 H2].
  unfold expand_items in *. simpl. rewrite mem_char_app, IH by exact H2.
  unfold items_mem. simpl. f_equal.
  destruct it; simpl in *; try discriminate.
  - unfold mem_char. simpl. rewrite orb_false_r. reflexivity.
  - apply expand_range_mem.
Qed.

Lemma collapse_items_no_cat : forall cs, forallb no_cat (collapse_items cs) = true.
Proof.
  intros. unfold collapse_items. destruct (2 <? length (sort_uniq cs)).
  - apply forallb_forall. intros it H. apply in_flat_map in H. destruct H as ((f, l) & _ & H).
    unfold run_items in H. destruct (N.eqb f l); [|destruct (N.eqb l (f + 1))]; simpl in H;
      repeat (destruct H as [H|H]; [subst; reflexivity|]); contradiction.
  - apply forallb_forall. intros it H. apply in_map_iff in H. destruct H as (c & <- & _). reflexivity.
Qed.

(* srange("[" + collapse(cs) + "]") has exactly the characters of cs *)
Theorem srange_inverse : forall cs x, mem_char x (expand_items (collapse_items cs)) = mem_char x cs.
Proof.
  intros. rewrite expand_items_mem by apply collapse_items_no_cat. apply collapse_items_mem.
Qed.
