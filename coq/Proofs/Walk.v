(* Generic "every leaf of the resumption tree satisfies ..." invariants, with a state that is updated by the answers of the
   recursive calls, and their lift to the fuel-indexed parser.  Used by C06 (no internal exception escapes) and
   C07 (a fatal answer is never swallowed). *)
From Coq Require Import List Arith Bool Lia.
From PP Require Import Model.Prog.
Import ListNotations.

Section Walk.
  Variables A O : Type.
  Variable St : Type.
  Variable upd : St -> O -> St.          (* how an answer changes the state *)
  Variable C : A -> Prop.                (* the class of arguments considered (closed under the calls made) *)
  Variable Pans : O -> Prop.             (* what is known about every answer *)
  Variable Pret : St -> O -> Prop.       (* what must hold of the final result *)

  Inductive sinv : St -> prog A O -> Prop :=
  | SI_ret st o : Pret st o -> sinv st (Ret o)
  | SI_call st a k : C a -> (forall o, Pans o -> sinv (upd st o) (k o)) -> sinv st (Call a k).

  Lemma run_sinv (rec : A -> option O) p : forall st,
    (forall a o, C a -> rec a = Some o -> Pans o) ->
    sinv st p -> forall o, run rec p = Some o -> exists st', Pret st' o.
  Proof.
    induction p as [o'|a k IH]; intros st Hrec Hs o Hr; simpl in Hr.
    - inversion Hs; subst. injection Hr as <-. eexists. eassumption.
    - inversion Hs as [|st0 a0 k0 Ca Hk]; subst.
      destruct (rec a) as [o1|] eqn:E; [|discriminate].
      eapply (IH o1 (upd st o1)); [exact Hrec| |exact Hr]. apply Hk. eapply Hrec; eassumption.
  Qed.
End Walk.

(* the stateless instance, lifted to `parse` *)
Section Walk0.
  Variables A O : Type.
  Variable C : A -> Prop.
  Variable P : O -> Prop.
  Variable step : A -> prog A O.
  Hypothesis Hstep : forall a, C a -> sinv A O unit (fun _ _ => tt) C P (fun _ => P) tt (step a).

  Theorem parse_inv : forall fuel a o, C a -> parse step fuel a = Some o -> P o.
  Proof.
    induction fuel as [|f IH]; intros a o Ca H; simpl in H; [discriminate|].
    destruct (run_sinv A O unit (fun _ _ => tt) C P (fun _ => P) (parse step f) (step a) tt) with (o := o) as [_ Hp].
    - intros b ob Cb Hb. eapply IH; eassumption.
    - apply Hstep. exact Ca.
    - exact H.
    - exact Hp.
  Qed.
End Walk0.
