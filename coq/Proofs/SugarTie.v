(* C12: the source text of the operator methods transcribed in Model/Sugar.v, pinned.  Gen/GenSugar.v is re-read from
   pyparsing/core.py on every run (tools/translate/gen_sugar.py); an edit of one of these methods breaks the lemma named
   after it, and with it Props/C12.v. *)
From Coq Require Import List String.
From PP Require Import Gen.GenSugar.
Import ListNotations.
Local Open Scope string_scope.

(* ParserElement.__mul__  ->  Sugar.sg_mul (int), Sugar.sg_times / sg_minopt / sg_optlist (tuple) *)
Lemma tie_mul : gen_sugar_mul =
  "if other is Ellipsis: other = (0, None) elif isinstance(other, tuple) and other[:1] == (Ellipsis,): other = ((0,) + other[1:] + (None,))[:2] ; if not isinstance(other, (int, tuple)): return NotImplemented ; if isinstance(other, int): minElements, optElements = (other, 0) else: other = tuple((o if o is not Ellipsis else None for o in other)) other = (other + (None, None))[:2] if other[0] is None: other = (0, other[1]) if isinstance(other[0], int) and other[1] is None: if other[0] == 0: return ZeroOrMore(self) if other[0] == 1: return OneOrMore(self) else: return self * other[0] + ZeroOrMore(self) elif isinstance(other[0], int) and isinstance(other[1], int): minElements, optElements = other optElements -= minElements else: return NotImplemented ; if minElements < 0: raise ValueError('cannot multiply ParserElement by negative value') ; if optElements < 0: raise ValueError('second tuple value must be greater or equal to first tuple value') ; if minElements == optElements == 0: return And([]) ; if optElements: def makeOptionalList(n): if n > 1: return Opt(self + makeOptionalList(n - 1)) else: return Opt(self) if minElements: if minElements == 1: ret = self + makeOptionalList(optElements) else: ret = And([self] * minElements) + makeOptionalList(optElements) else: ret = makeOptionalList(optElements) elif minElements == 1: ret = self else: ret = And([self] * minElements) ; return ret".
Proof. reflexivity. Qed.

(* ParserElement.__getitem__  ->  Sugar.sg_item / key_tuple / set_stop *)
Lemma tie_getitem : gen_sugar_getitem =
  "stop_on_defined = False ; stop_on = NoMatch() ; if isinstance(key, slice): key, stop_on = (key.start, key.stop) if key is None: key = ... stop_on_defined = True elif isinstance(key, tuple) and isinstance(key[-1], slice): key, stop_on = ((key[0], key[1].start), key[1].stop) stop_on_defined = True ; if isinstance(key, str_type): key = (key,) ; try: iter(key) except TypeError: key = (key, key) ; if len(key) > 2: raise TypeError(f'only 1 or 2 index arguments supported ({key[:5]}{(f'... [{len(key)}]' if len(key) > 5 else '')})') ; ret = self * tuple(key[:2]) ; ret = typing.cast(_MultipleMatch, ret) ; if stop_on_defined: ret.stopOn(stop_on) ; return ret".
Proof. reflexivity. Qed.

(* ParserElement.__or__  ->  Sugar.sg_or  (other = '' : Opt(self)) *)
Lemma tie_or : gen_sugar_or =
  "if other is Ellipsis: return _PendingSkip(self, must_skip=True) ; if isinstance(other, str_type): if other == '': return Opt(self) other = self._literalStringClass(other) ; if not isinstance(other, ParserElement): return NotImplemented ; return MatchFirst([self, other])".
Proof. reflexivity. Qed.

(* ParserElement.__add__  ->  Sugar.c_add ; `+ ...` makes a _PendingSkip *)
Lemma tie_add : gen_sugar_add =
  "if other is Ellipsis: return _PendingSkip(self) ; if isinstance(other, str_type): other = self._literalStringClass(other) ; if not isinstance(other, ParserElement): return NotImplemented ; return And([self, other])".
Proof. reflexivity. Qed.

(* _PendingSkip.__add__  ->  Sugar.sg_skip (must_skip = False) *)
Lemma tie_pending_add : gen_sugar_pending_add =
  "skipper = SkipTo(other).set_name('...')('_skipped*') ; if self.must_skip: def must_skip(t): if not t._skipped or t._skipped.as_list() == ['']: del t[0] t.pop('_skipped', None) def show_skip(t): if t._skipped.as_list()[-1:] == ['']: t.pop('_skipped') t['_skipped'] = f'missing <{self.anchor!r}>' return (self.anchor + skipper().add_parse_action(must_skip) | skipper().add_parse_action(show_skip)) + other ; return self.anchor + skipper + other".
Proof. reflexivity. Qed.

(* _MultipleMatch.stopOn  ->  Sugar.set_stop / c_not *)
Lemma tie_stopon : gen_sugar_stopon =
  "if isinstance(ender, str_type): ender = self._literalStringClass(ender) ; self.not_ender = ~ender if ender is not None else None ; return self".
Proof. reflexivity. Qed.

(* ParseExpression.streamline splices only a two-element expression  ->  Sugar.c_and / c_mf *)
Lemma tie_splice_test : gen_sugar_splice_test =
  "len(self.exprs) == 2".
Proof. reflexivity. Qed.

(* first position, then last position *)
Lemma tie_splice_assigns : gen_sugar_splice_assigns =
  ["self.exprs = other.exprs[:] + [self.exprs[1]]"; "self.exprs = self.exprs[:-1] + other.exprs[:]"].
Proof. reflexivity. Qed.
