(* C07 (model part, second half): the elements that do NOT simply let a fatal exception through.
   Or and Each collect the fatal exceptions of their alternatives and raise one only when nothing matched; the stop_on
   sentinel of a repetition and SkipTo's fail_on / ignore tests are negative lookaheads.  One-level statements, for EVERY
   handler `rec` (whatever the sub-expressions are), every input, every continuation `k` of parseImpl. *)
From Coq Require Import List ZArith NArith Bool Arith Lia.
From PP Require Import Model.Str Model.Results Model.Prog Model.Core Proofs.Walk Proofs.Fatal.
Import ListNotations.

(* ------------------------------------------------------------------------------------------- *)
(* A. what `pick_fatal` computes                                                                *)
(* ------------------------------------------------------------------------------------------- *)
Section FirstMax.
Context {X : Type}.
Variable key : X -> Z.

(* the first element with the greatest key *)
Definition fm_step (b : option X) (x : X) : option X :=
  match b with None => Some x | Some y => if (key y <? key x)%Z then Some x else Some y end.
Definition first_max (l : list X) : option X := fold_left fm_step l None.

Lemma hd_insert_desc x l : hd_error (insert_desc key x l) = fm_step (hd_error l) x.
Proof. destruct l as [|y t]; simpl; [reflexivity|]. destruct (key y <? key x)%Z; reflexivity. Qed.

Lemma hd_fold_insert l : forall acc,
  hd_error (fold_left (fun acc x => insert_desc key x acc) l acc) = fold_left fm_step l (hd_error acc).
Proof.
  induction l as [|x l IH]; intros acc; simpl; [reflexivity|]. rewrite IH, hd_insert_desc. reflexivity.
Qed.

Lemma hd_sort_desc l : hd_error (sort_desc key l) = first_max l.
Proof. unfold sort_desc, first_max. rewrite hd_fold_insert. reflexivity. Qed.

Lemma fold_fm_some l : forall b, exists x, fold_left fm_step l (Some b) = Some x.
Proof.
  induction l as [|y l IH]; intros b; simpl; [eexists; reflexivity|]. destruct (key b <? key y)%Z; apply IH.
Qed.

(* specification: x is at some position, everything before it is strictly smaller, nothing after it is greater *)
Lemma fold_fm_spec l : forall b x, fold_left fm_step l (Some b) = Some x ->
  (x = b /\ forall y, In y l -> (key y <= key b)%Z) \/
  (exists l1 l2, l = l1 ++ x :: l2 /\ (key b < key x)%Z /\
                 (forall y, In y l1 -> (key y < key x)%Z) /\ (forall y, In y l2 -> (key y <= key x)%Z)).
Proof.
  induction l as [|y l IH]; intros b x H; simpl in H.
  - injection H as <-. left. split; [reflexivity|]. intros y [].
  - destruct (Z.ltb_spec (key b) (key y)) as [L|L].
    + destruct (IH _ _ H) as [[-> Hl]|(l1 & l2 & -> & Hb & H1 & H2)].
      * right. exists [], l. repeat split; auto. intros ? [].
      * right. exists (y :: l1), l2. repeat split; auto; [lia|]. intros z [<-|Hz]; auto.
    + destruct (IH _ _ H) as [[-> Hl]|(l1 & l2 & -> & Hb & H1 & H2)].
      * left. split; [reflexivity|]. intros z [<-|Hz]; auto.
      * right. exists (y :: l1), l2. repeat split; auto. intros z [<-|Hz]; auto. lia.
Qed.

Theorem first_max_spec l x : first_max l = Some x ->
  exists l1 l2, l = l1 ++ x :: l2 /\
    (forall y, In y l1 -> (key y < key x)%Z) /\ (forall y, In y l2 -> (key y <= key x)%Z).
Proof.
  unfold first_max. destruct l as [|b l]; simpl; [discriminate|]. intros H.
  destruct (fold_fm_spec _ _ _ H) as [[-> Hl]|(l1 & l2 & -> & Hb & H1 & H2)].
  - exists [], l. repeat split; auto. intros ? [].
  - exists (b :: l1), l2. repeat split; auto. intros z [<-|Hz]; auto.
Qed.

Lemma first_max_nonempty x l : exists y, first_max (x :: l) = Some y.
Proof. unfold first_max. simpl. apply fold_fm_some. Qed.

(* insertion sort: membership and sortedness *)
Lemma in_insert_desc x y l : In y (insert_desc key x l) <-> y = x \/ In y l.
Proof.
  induction l as [|z t IH]; simpl; [intuition|].
  destruct (key z <? key x)%Z; simpl; [intuition|]. rewrite IH. intuition.
Qed.

Lemma in_fold_insert y l : forall acc,
  In y (fold_left (fun acc x => insert_desc key x acc) l acc) <-> In y acc \/ In y l.
Proof.
  induction l as [|x l IH]; intros acc; simpl; [intuition|]. rewrite IH, in_insert_desc. intuition.
Qed.

Lemma in_sort_desc y l : In y (sort_desc key l) <-> In y l.
Proof. unfold sort_desc. rewrite in_fold_insert. simpl. intuition. Qed.

Fixpoint sorted_desc (l : list X) : Prop :=
  match l with [] => True | x :: t => (forall y, In y t -> (key y <= key x)%Z) /\ sorted_desc t end.

Lemma insert_desc_sorted x l : sorted_desc l -> sorted_desc (insert_desc key x l).
Proof.
  induction l as [|z t IH]; simpl; [intuition|]. intros [Hz Ht].
  destruct (Z.ltb_spec (key z) (key x)) as [L|L]; simpl.
  - split; [|split; assumption]. intros y [<-|Hy]; [lia|]. specialize (Hz _ Hy). lia.
  - split; [|apply IH; exact Ht]. intros y Hy. apply in_insert_desc in Hy as [->|Hy]; auto.
Qed.

Lemma fold_insert_sorted l : forall acc, sorted_desc acc ->
  sorted_desc (fold_left (fun acc x => insert_desc key x acc) l acc).
Proof. induction l as [|x l IH]; intros acc H; simpl; [exact H|]. apply IH, insert_desc_sorted, H. Qed.

Lemma sort_desc_sorted l : sorted_desc (sort_desc key l).
Proof. apply fold_insert_sorted. exact I. Qed.
End FirstMax.

(* a stable sort by key1 does not change which element is the first maximum of a finer key2 *)
Section Stable.
Context {X : Type}.
Variables key1 key2 : X -> Z.
Variable P : X -> Prop.
Hypothesis Hmono : forall x y, P x -> P y -> (key1 y < key1 x)%Z -> (key2 y < key2 x)%Z.

Lemma fm_step_swap b x y : (key2 y < key2 x)%Z ->
  fm_step key2 (fm_step key2 b y) x = fm_step key2 (fm_step key2 b x) y.
Proof.
  intros L. destruct b as [z|]; simpl.
  - destruct (Z.ltb_spec (key2 z) (key2 y)), (Z.ltb_spec (key2 z) (key2 x)); simpl;
      repeat match goal with |- context [(?a <? ?b)%Z] => destruct (Z.ltb_spec a b) end; try reflexivity; lia.
  - destruct (Z.ltb_spec (key2 y) (key2 x)), (Z.ltb_spec (key2 x) (key2 y)); try reflexivity; lia.
Qed.

Lemma fm_fold_commute l : forall b x, (forall y, In y l -> (key2 y < key2 x)%Z) ->
  fm_step key2 (fold_left (fm_step key2) l b) x = fold_left (fm_step key2) l (fm_step key2 b x).
Proof.
  induction l as [|y l IH]; intros b x H; simpl; [reflexivity|].
  rewrite IH by (intros; apply H; right; assumption).
  rewrite fm_step_swap by (apply H; left; reflexivity). reflexivity.
Qed.

Lemma fm_insert x acc : forall b, sorted_desc key1 acc -> P x -> Forall P acc ->
  fold_left (fm_step key2) (insert_desc key1 x acc) b = fm_step key2 (fold_left (fm_step key2) acc b) x.
Proof.
  induction acc as [|y t IH]; intros b Hs Px Pa; simpl; [reflexivity|].
  destruct Hs as [Hy Ht]. inversion Pa as [|? ? Py Pt]; subst.
  destruct (Z.ltb_spec (key1 y) (key1 x)) as [L|L].
  - change (fold_left (fm_step key2) (y :: t) (fm_step key2 b x) = fm_step key2 (fold_left (fm_step key2) (y :: t) b) x).
    symmetry. apply fm_fold_commute. intros z [<-|Hz].
    + apply Hmono; assumption.
    + apply Hmono; auto; [eapply Forall_forall; eassumption|]. specialize (Hy _ Hz). lia.
  - simpl. apply IH; assumption.
Qed.

Lemma fm_fold_insert l : forall acc, sorted_desc key1 acc -> Forall P acc -> Forall P l ->
  first_max key2 (fold_left (fun acc x => insert_desc key1 x acc) l acc) = fold_left (fm_step key2) l (first_max key2 acc).
Proof.
  induction l as [|x l IH]; intros acc Hs Pa Pl; simpl; [reflexivity|].
  inversion Pl as [|? ? Px Pl']; subst.
  rewrite IH.
  - unfold first_max. rewrite fm_insert by assumption. reflexivity.
  - apply insert_desc_sorted. exact Hs.
  - apply Forall_forall. intros y Hy. apply in_insert_desc in Hy as [->|Hy]; [exact Px|]. exact (proj1 (Forall_forall P acc) Pa y Hy).
  - exact Pl'.
Qed.

Lemma first_max_sort l : Forall P l -> first_max key2 (sort_desc key1 l) = first_max key2 l.
Proof. intros H. unfold sort_desc. rewrite fm_fold_insert; [reflexivity|exact I|constructor|exact H]. Qed.

Lemma first_max_strict_head p l : P p -> Forall P l -> (forall y, In y l -> (key1 y < key1 p)%Z) ->
  first_max key2 (p :: l) = Some p.
Proof.
  intros Pp Pl H. unfold first_max. simpl.
  assert (G : forall l b, (forall y, In y l -> (key2 y < key2 b)%Z) -> fold_left (fm_step key2) l (Some b) = Some b).
  { clear. induction l as [|y l IH]; intros b H; simpl; [reflexivity|].
    destruct (Z.ltb_spec (key2 b) (key2 y)) as [L|L]; [specialize (H y (or_introl eq_refl)); lia|].
    apply IH. intros; apply H; right; assumption. }
  apply G. intros y Hy. apply Hmono; auto. eapply Forall_forall; eassumption.
Qed.
End Stable.

Definition fkey1 (p : exn * nat) : Z := xloc (fst p).
Definition fkey2 (p : exn * nat) : Z := (xloc (fst p) * 1000000 + Z.of_nat (snd p))%Z.
Definition short_name (p : exn * nat) : Prop := (Z.of_nat (snd p) < 1000000)%Z.       (* len(str(parser_element)) < 10^6 *)

Lemma fkey_mono x y : short_name x -> short_name y -> (fkey1 y < fkey1 x)%Z -> (fkey2 y < fkey2 x)%Z.
Proof. unfold short_name, fkey1, fkey2. intros. lia. Qed.

(* `pick_fatal` = the first, in source order, among the collected fatal exceptions that maximise (loc, len(str(element))) *)
Theorem pick_fatal_first_max fatals : Forall short_name fatals ->
  pick_fatal fatals = option_map fst (first_max fkey2 fatals).
Proof.
  intros Hs. rewrite <- (first_max_sort fkey1 fkey2 short_name fkey_mono fatals Hs).
  unfold pick_fatal. fold fkey1.
  pose proof (sort_desc_sorted fkey1 fatals) as Sd.
  assert (Ps : Forall short_name (sort_desc fkey1 fatals)).
  { apply Forall_forall. intros y Hy. apply in_sort_desc in Hy. eapply Forall_forall; eassumption. }
  destruct (sort_desc fkey1 fatals) as [|p1 [|p2 rest]] eqn:E; try reflexivity.
  change (fun p : exn * nat => (xloc (fst p) * 1000000 + Z.of_nat (snd p))%Z) with fkey2.
  change (xloc (fst p1)) with (fkey1 p1). change (xloc (fst p2)) with (fkey1 p2).
  destruct (Z.eqb_spec (fkey1 p1) (fkey1 p2)) as [Q|Q].
  - pose proof (hd_sort_desc fkey2 (p1 :: p2 :: rest)) as Hh.
    destruct (sort_desc fkey2 (p1 :: p2 :: rest)) as [|q qs]; simpl in Hh; rewrite <- Hh; reflexivity.
  - inversion Ps as [|? ? P1 P23]; subst.
    rewrite (first_max_strict_head fkey1 fkey2 short_name fkey_mono p1 (p2 :: rest) P1 P23); [reflexivity|].
    destruct Sd as [S1 [S2 _]]. pose proof (S1 p2 (or_introl eq_refl)) as S12. intros y [Ey|Hy].
    + subst y. lia.
    + specialize (S2 _ Hy). lia.
Qed.

(* consequences that need no bound on the names *)
Lemma pick_fatal_in fatals fx : pick_fatal fatals = Some fx -> In fx (map fst fatals).
Proof.
  unfold pick_fatal. intros H.
  assert (Hin : forall p, In p (sort_desc (fun p => xloc (fst p)) fatals) -> In (fst p) (map fst fatals)).
  { intros p Hp. apply in_sort_desc in Hp. apply in_map. exact Hp. }
  destruct (sort_desc (fun p => xloc (fst p)) fatals) as [|p1 [|p2 rest]] eqn:E; [discriminate| |].
  - injection H as <-. apply Hin. left. reflexivity.
  - destruct (xloc (fst p1) =? xloc (fst p2))%Z.
    + match type of H with context [sort_desc ?k ?l] => destruct (sort_desc k l) as [|q qs] eqn:E2 end; [discriminate|].
      injection H as <-. apply Hin. apply (in_sort_desc (fun p => (xloc (fst p) * 1000000 + Z.of_nat (snd p))%Z)).
      rewrite E2. left. reflexivity.
    + injection H as <-. apply Hin. left. reflexivity.
Qed.

Lemma pick_fatal_some p fatals : exists fx, pick_fatal (p :: fatals) = Some fx.
Proof.
  unfold pick_fatal.
  destruct (sort_desc (fun p => xloc (fst p)) (p :: fatals)) as [|p1 [|p2 rest]] eqn:E.
  - exfalso. assert (In p []) as []. rewrite <- E. apply in_sort_desc. left. reflexivity.
  - eexists. reflexivity.
  - destruct (xloc (fst p1) =? xloc (fst p2))%Z; [|eexists; reflexivity].
    match goal with |- context [sort_desc ?k ?l] => destruct (sort_desc k l) as [|q qs] eqn:E2 end; [|eexists; reflexivity].
    exfalso. assert (In p1 []) as []. rewrite <- E2. apply in_sort_desc. left. reflexivity.
Qed.

(* greatest location; among those the longest name; among those the first *)
Theorem pick_fatal_spec fatals fx : Forall short_name fatals -> pick_fatal fatals = Some fx ->
  exists l1 n l2, fatals = l1 ++ (fx, n) :: l2 /\
    (forall y m, In (y, m) l1 -> (xloc y < xloc fx)%Z \/ (xloc y = xloc fx /\ m < n)) /\
    (forall y m, In (y, m) l2 -> (xloc y < xloc fx)%Z \/ (xloc y = xloc fx /\ m <= n)).
Proof.
  intros Hs H. rewrite pick_fatal_first_max in H by exact Hs.
  destruct (first_max fkey2 fatals) as [[fx' n]|] eqn:E; [|discriminate]. simpl in H. injection H as ->.
  destruct (first_max_spec _ _ _ E) as (l1 & l2 & -> & H1 & H2).
  exists l1, n, l2. split; [reflexivity|].
  assert (Sn : (Z.of_nat n < 1000000)%Z).
  { apply Forall_app in Hs as [_ Hs]. inversion Hs; subst. assumption. }
  split; intros y m Hy.
  - specialize (H1 _ Hy). assert ((Z.of_nat m < 1000000)%Z).
    { apply Forall_app in Hs as [Hs _]. eapply Forall_forall in Hs; [|exact Hy]. exact Hs. }
    unfold fkey2 in H1. simpl in H1. lia.
  - specialize (H2 _ Hy). assert ((Z.of_nat m < 1000000)%Z).
    { apply Forall_app in Hs as [_ Hs]. inversion Hs as [|? ? _ Hs']; subst. eapply Forall_forall in Hs'; [|exact Hy]. exact Hs'. }
    unfold fkey2 in H2. simpl in H2. lia.
Qed.

(* ------------------------------------------------------------------------------------------- *)
(* B. Or                                                                                        *)
(* ------------------------------------------------------------------------------------------- *)
Lemma run_call rec (a : args) (K : outcome -> prg) o : rec a = Some o -> run rec (Call a K) = run rec (K o).
Proof. intros H. simpl. rewrite H. reflexivity. Qed.

(* try_parse(raise_fatal=True) hands every answer on *)
Lemma run_try_parse_rf rec c s loc d K o : rec (mkargs c s loc d true) = Some o ->
  run rec (try_parse c s loc d true K) = run rec (K o).
Proof.
  intros H. unfold try_parse, call. rewrite (run_call _ _ _ _ H).
  destruct o as [l r|x|]; try reflexivity. rewrite andb_false_r. reflexivity.
Qed.

(* try_parse() turns a fatal exception into a ParseException of the element at loc *)
Definition tp_exn (c : expr) (loc : nat) : exn := mkx XParse (Z.of_nat loc) (MNode (nid (attrs_of c)) 0) (Some (nid (attrs_of c))).
Lemma run_try_parse_fatal rec c s loc d K x : rec (mkargs c s loc d true) = Some (Err x) -> is_fatal (xk x) = true ->
  run rec (try_parse c s loc d false K) = run rec (K (Err (tp_exn c loc))).
Proof. intros H Hx. unfold try_parse, call. rewrite (run_call _ _ _ _ H). rewrite Hx. reflexivity. Qed.

(* the body of Or.parseImpl after the optional preParse, by name (it is a `let` inside `impl`) *)
Definition or_tail (fail : exn -> prg) (e : expr) (s : str) (loc : nat) (fatals : list (exn * nat)) (best : option exn) : prg :=
  match pick_fatal fatals with
  | Some fx => fail fx
  | None => alt_fail fail e s loc best
  end.

Definition or_select (k : kont -> prg) (e : expr) (s : str) (d : bool) (loc : nat)
           (matches : list (nat * expr)) (fatals : list (exn * nat)) (best : option exn) : prg :=
  match matches with
  | [] => or_tail (fail_of k) e s loc fatals best
  | _ =>
    let sorted := sort_desc (fun p => Z.of_nat (fst p)) matches in
    if negb d then
      match sorted with
      | (_, c) :: _ => call c s loc false true (fun o => match o with Ok l r => k (inr (l, RPR r)) | _ => failo_of k o end)
      | [] => or_tail (fail_of k) e s loc fatals best
      end
    else or_go2 k (or_tail (fail_of k) e s loc fatals) s loc sorted None best
  end.

Definition or_body (k : kont -> prg) (e : expr) (es : list expr) (s : str) (d : bool) (loc : nat) : prg :=
  or_pass1 (fail_of k) e es s loc [] [] None (or_select k e s d loc).

Lemma impl_or G a i es s pl d k :
  impl G (Nary a i NOr es) s pl d k =
  if forallb (fun c => callpre (attrs_of c)) es
  then pre_parse (fail_of k) (Nary a i NOr es) s pl (or_body k (Nary a i NOr es) es s d)
  else or_body k (Nary a i NOr es) es s d pl.
Proof. reflexivity. Qed.

(* the answers of the alternatives in the first pass: Ok, or a ParseBaseException / IndexError *)
Definition alt_answer (o : outcome) : bool :=
  match o with Ok _ _ => true | Err x => is_pbe (xk x) || is_index (xk x) | Div => false end.

Definition fatal_entry (c : expr) (x : exn) : exn * nat :=
  (mkx (xk x) (xloc x) (xmsg x) (Some (nid (attrs_of c))), slen (attrs_of c)).

Definition or_matches (es : list expr) (os : list outcome) : list (nat * expr) :=
  flat_map (fun co => match snd co with Ok l _ => [(l, fst co)] | _ => [] end) (combine es os).
Definition or_fatals (es : list expr) (os : list outcome) : list (exn * nat) :=
  flat_map (fun co => match snd co with
                      | Err x => if is_fatal (xk x) then [fatal_entry (fst co) x] else []
                      | _ => [] end) (combine es os).

Definition pass1_answers (rec : args -> option outcome) (s : str) (loc : nat) (es : list expr) (os : list outcome) : Prop :=
  Forall2 (fun c o => rec (mkargs c s loc false true) = Some o /\ alt_answer o = true) es os.

Lemma or_pass1_run rec fail e s loc K : forall es os, pass1_answers rec s loc es os ->
  forall m f b, exists b',
    run rec (or_pass1 fail e es s loc m f b K) = run rec (K (m ++ or_matches es os) (f ++ or_fatals es os) b').
Proof.
  intros es os H. induction H as [|c o es os [Hr Ha] _ IH]; intros m f b.
  - exists b. unfold or_matches, or_fatals. simpl. rewrite !app_nil_r. reflexivity.
  - cbn [or_pass1]. rewrite (run_try_parse_rf _ _ _ _ _ _ _ Hr).
    unfold or_matches, or_fatals. cbn [combine flat_map snd fst].
    destruct o as [l r|x|]; [| |discriminate Ha].
    + destruct (IH (m ++ [(l, c)]) f b) as [b' E]. exists b'. rewrite E. rewrite <- app_assoc. reflexivity.
    + simpl in Ha. destruct (is_fatal (xk x)) eqn:Fx.
      * destruct (IH m (f ++ [fatal_entry c x]) None) as [b' E]. exists b'. unfold fatal_entry in *. rewrite E.
        rewrite <- app_assoc. reflexivity.
      * destruct (is_pe (xk x)) eqn:Px.
        { destruct (IH m f (match f with [] => better b x | _ => b end)) as [b' E]. exists b'. rewrite E. reflexivity. }
        assert (is_index (xk x) = true) as -> by (destruct (xk x); simpl in *; congruence).
        match goal with |- context [or_pass1 _ _ _ _ _ _ _ ?bb _] => destruct (IH m f bb) as [b' E] end.
        exists b'. rewrite E. reflexivity.
Qed.

Lemma in_or_matches rec s loc l c : forall es os, pass1_answers rec s loc es os -> In (l, c) (or_matches es os) ->
  In c es /\ exists r, rec (mkargs c s loc false true) = Some (Ok l r).
Proof.
  intros es os H. induction H as [|c0 o es os [Hr Ha] _ IH]; intros Hin; [destruct Hin|].
  unfold or_matches in Hin. cbn [combine flat_map snd fst] in Hin. apply in_app_or in Hin as [Hin|Hin].
  - destruct o as [l0 r0|x|]; simpl in Hin; [|destruct Hin..]. destruct Hin as [Hin|[]]. injection Hin as <- <-.
    split; [left; reflexivity|]. eexists. exact Hr.
  - destruct (IH Hin) as [Hc Hx]. split; [right; exact Hc|exact Hx].
Qed.

Lemma or_fatals_fatal es os fx : In fx (map fst (or_fatals es os)) -> is_fatal (xk fx) = true.
Proof.
  unfold or_fatals. intros H. apply in_map_iff in H as ([y n] & <- & H). apply in_flat_map in H as ([c o] & _ & H).
  simpl in H. destruct o as [l r|x|]; try destruct H. destruct (is_fatal (xk x)) eqn:Fx; [|destruct H].
  destruct H as [H|[]]. injection H as <- _. exact Fx.
Qed.

Lemma or_fatals_nonempty : forall es os, length es = length os -> existsb fatal_out os = true -> or_fatals es os <> [].
Proof.
  induction es as [|c es IH]; intros [|o os] Hl He; try discriminate.
  unfold or_fatals. cbn [combine flat_map snd fst]. simpl in He.
  destruct o as [l r|x|]; simpl in He; try (apply IH; [simpl in Hl; lia|exact He]).
  destruct (is_fatal (xk x)); [discriminate|]. apply IH; [simpl in Hl; lia|exact He].
Qed.

Lemma Forall2_len {A B} (R : A -> B -> Prop) l1 l2 : Forall2 R l1 l2 -> length l1 = length l2.
Proof. induction 1; simpl; congruence. Qed.

Lemma fail_of_fatal k x : is_fatal (xk x) = true -> fail_of k x = k (inl (IExc x)).
Proof. intros H. unfold fail_of. destruct (xk x); try discriminate; reflexivity. Qed.

(* (1) every alternative fails and at least one of them with a fatal exception: the Or raises the fatal exception chosen
   by pick_fatal (see pick_fatal_spec) - not a ParseException, not a success *)
Theorem or_no_match rec k e es s d loc os :
  pass1_answers rec s loc es os ->
  or_matches es os = [] ->
  existsb fatal_out os = true ->
  exists fx, pick_fatal (or_fatals es os) = Some fx /\ is_fatal (xk fx) = true /\
             run rec (or_body k e es s d loc) = run rec (k (inl (IExc fx))).
Proof.
  intros Ha Hm Hf.
  assert (Hne : or_fatals es os <> []) by (apply or_fatals_nonempty; [eapply Forall2_len; exact Ha|exact Hf]).
  destruct (or_fatals es os) as [|p fs] eqn:E; [congruence|].
  destruct (pick_fatal_some p fs) as [fx Hp]. exists fx.
  assert (Ffx : is_fatal (xk fx) = true) by (apply (or_fatals_fatal es os); rewrite E; apply pick_fatal_in; exact Hp).
  split; [exact Hp|]. split; [exact Ffx|].
  unfold or_body. destruct (or_pass1_run rec (fail_of k) e s loc (or_select k e s d loc) es os Ha [] [] None) as [b' ->].
  rewrite Hm, E. simpl. unfold or_tail. rewrite Hp. rewrite fail_of_fatal by exact Ffx. reflexivity.
Qed.

(* the head of the sorted matches: a longest match, the first of them in source order *)
Lemma sorted_matches_head rec s loc es os : pass1_answers rec s loc es os -> or_matches es os <> [] ->
  exists l c rest, sort_desc (fun p => Z.of_nat (fst p)) (or_matches es os) = (l, c) :: rest /\
    In c es /\ (exists r, rec (mkargs c s loc false true) = Some (Ok l r)) /\
    (forall l' c', In (l', c') (or_matches es os) -> l' <= l).
Proof.
  intros Ha Hne.
  pose proof (hd_sort_desc (fun p : nat * expr => Z.of_nat (fst p)) (or_matches es os)) as Hh.
  destruct (or_matches es os) as [|m ms] eqn:E; [congruence|].
  destruct (first_max_nonempty (fun p : nat * expr => Z.of_nat (fst p)) m ms) as [[l c] Hfm].
  rewrite Hfm in Hh. destruct (sort_desc _ (m :: ms)) as [|q rest] eqn:Es; [discriminate|]. injection Hh as ->.
  destruct (first_max_spec _ _ _ Hfm) as (l1 & l2 & El & H1 & H2).
  assert (Hin : In (l, c) (or_matches es os)) by (rewrite E, El; apply in_or_app; right; left; reflexivity).
  destruct (in_or_matches rec s loc l c es os Ha Hin) as [Hc Hr].
  exists l, c, rest. repeat split; auto.
  intros l' c' Hin'. rewrite El in Hin'. apply in_app_or in Hin' as [Hi|[Hi|Hi]].
  - specialize (H1 _ Hi). simpl in H1. lia.
  - injection Hi as <- _. lia.
  - specialize (H2 _ Hi). simpl in H2. lia.
Qed.

(* (2a) without actions (do_actions = False): as soon as one alternative matches, the fatal exceptions collected from the
   others play no role - the Or answers with the longest match (the first of the longest in source order) *)
Theorem or_some_match_noact rec k e es s loc os :
  pass1_answers rec s loc es os ->
  or_matches es os <> [] ->
  exists c l r, In c es /\ rec (mkargs c s loc false true) = Some (Ok l r) /\
    (forall l' c', In (l', c') (or_matches es os) -> l' <= l) /\
    run rec (or_body k e es s false loc) = run rec (k (inr (l, RPR r))).
Proof.
  intros Ha Hne. destruct (sorted_matches_head rec s loc es os Ha Hne) as (l & c & rest & Es & Hc & [r Hr] & Hmax).
  exists c, l, r. repeat split; auto.
  unfold or_body. destruct (or_pass1_run rec (fail_of k) e s loc (or_select k e s false loc) es os Ha [] [] None) as [b' ->].
  simpl app. unfold or_select. destruct (or_matches es os) as [|m ms] eqn:E; [congruence|].
  rewrite Es. simpl negb. cbv iota. unfold call. rewrite (run_call _ _ _ _ Hr). reflexivity.
Qed.

(* (2b) with actions: the second pass starts from the longest match of the first pass; the collected fatal exceptions
   are only kept for the case that every re-parse fails (or_tail) *)
Theorem or_some_match_act rec k e es s loc os :
  pass1_answers rec s loc es os ->
  or_matches es os <> [] ->
  exists b', run rec (or_body k e es s true loc) =
             run rec (or_go2 k (or_tail (fail_of k) e s loc (or_fatals es os)) s loc
                             (sort_desc (fun p => Z.of_nat (fst p)) (or_matches es os)) None b').
Proof.
  intros Ha Hne.
  unfold or_body. destruct (or_pass1_run rec (fail_of k) e s loc (or_select k e s true loc) es os Ha [] [] None) as [b' ->].
  exists b'. simpl app. unfold or_select. destruct (or_matches es os) as [|m ms] eqn:E; [congruence|]. reflexivity.
Qed.

(* one iteration of the second pass *)
Lemma or_go2_first_ok rec k tail s loc l1 c rest best l2 r2 :
  rec (mkargs c s loc true true) = Some (Ok l2 r2) -> l1 <= l2 ->
  run rec (or_go2 k tail s loc ((l1, c) :: rest) None best) = run rec (k (inr (l2, RPR r2))).
Proof.
  intros Hr Hl. cbn [or_go2]. unfold call. rewrite (run_call _ _ _ _ Hr).
  destruct (Nat.leb_spec l1 l2); [reflexivity|lia].
Qed.

(* a re-parse that is actually made and raises anything but a ParseException ends the Or with that exception *)
Lemma or_go2_propagates rec k tail s loc l1 c rest longest best x :
  (match longest with Some (l, _) => l < l1 | None => True end) ->
  rec (mkargs c s loc true true) = Some (Err x) -> is_pe (xk x) = false ->
  run rec (or_go2 k tail s loc ((l1, c) :: rest) longest best) = run rec (fail_of k x).
Proof.
  intros Hl Hr Hx. cbn [or_go2].
  assert ((match longest with Some (l, _) => Nat.leb l1 l | None => false end) = false) as ->.
  { destruct longest as [[l r]|]; [|reflexivity]. destruct (Nat.leb_spec l1 l); [lia|reflexivity]. }
  unfold call. rewrite (run_call _ _ _ _ Hr). rewrite Hx. reflexivity.
Qed.

(* every re-parse fails with a ParseException (a condition, say): nothing matched after all, the tail decides *)
Lemma or_go2_all_pe rec k tail s loc : forall ms best,
  Forall (fun lc => exists x, rec (mkargs (snd lc) s loc true true) = Some (Err x) /\ is_pe (xk x) = true) ms ->
  exists b', run rec (or_go2 k tail s loc ms None best) = run rec (tail b').
Proof.
  induction ms as [|[l1 c] ms IH]; intros best H.
  - exists best. reflexivity.
  - inversion H as [|? ? (x & Hr & Hx) Hms]; subst. simpl in Hr.
    destruct (IH (better best x) Hms) as [b' E]. exists b'. cbn [or_go2]. unfold call. rewrite (run_call _ _ _ _ Hr).
    rewrite Hx. exact E.
Qed.

Theorem or_pass2 rec k e es s loc os :
  pass1_answers rec s loc es os ->
  or_matches es os <> [] ->
  exists c l1, In c es /\ (exists r, rec (mkargs c s loc false true) = Some (Ok l1 r)) /\
    (forall l' c', In (l', c') (or_matches es os) -> l' <= l1) /\
    (* the longest alternative matches again, at least as far: that is the answer - fatal exceptions of the others dropped *)
    (forall l2 r2, rec (mkargs c s loc true true) = Some (Ok l2 r2) -> l1 <= l2 ->
       run rec (or_body k e es s true loc) = run rec (k (inr (l2, RPR r2)))) /\
    (* it raises something that is not a ParseException (a fatal condition / action): the Or raises that, although
       other alternatives may have matched *)
    (forall x, rec (mkargs c s loc true true) = Some (Err x) -> is_pe (xk x) = false ->
       run rec (or_body k e es s true loc) = run rec (fail_of k x)) /\
    (* every alternative that matched fails with a ParseException when re-parsed with actions: no alternative matches,
       and the fatal exception of the first pass - if there was one - is raised now *)
    (Forall (fun lc => exists x, rec (mkargs (snd lc) s loc true true) = Some (Err x) /\ is_pe (xk x) = true) (or_matches es os) ->
       forall fx, pick_fatal (or_fatals es os) = Some fx ->
       is_fatal (xk fx) = true /\ run rec (or_body k e es s true loc) = run rec (k (inl (IExc fx)))).
Proof.
  intros Ha Hne. destruct (sorted_matches_head rec s loc es os Ha Hne) as (l & c & rest & Es & Hc & Hr & Hmax).
  destruct (or_some_match_act rec k e es s loc os Ha Hne) as [b' E].
  exists c, l. repeat split; auto.
  - intros l2 r2 H2 Hl. rewrite E, Es. apply or_go2_first_ok; assumption.
  - intros x H2 Hx. rewrite E, Es. apply or_go2_propagates; auto.
  - apply (or_fatals_fatal es os). apply pick_fatal_in. assumption.
  - rewrite E.
    assert (Hs : Forall (fun lc => exists x, rec (mkargs (snd lc) s loc true true) = Some (Err x) /\ is_pe (xk x) = true)
                        (sort_desc (fun p => Z.of_nat (fst p)) (or_matches es os))).
    { apply Forall_forall. intros y Hy. apply in_sort_desc in Hy. eapply Forall_forall in H; eassumption. }
    destruct (or_go2_all_pe rec k (or_tail (fail_of k) e s loc (or_fatals es os)) s loc _ b' Hs) as [b2 ->].
    unfold or_tail. rewrite H0. apply f_equal. apply fail_of_fatal.
    apply (or_fatals_fatal es os). apply pick_fatal_in. assumption.
Qed.

(* ------------------------------------------------------------------------------------------- *)
(* C. "never swallowed" restricted to a set of watched calls                                    *)
(* ------------------------------------------------------------------------------------------- *)
(* like Fatal.run_seen, but only the calls selected by `watch` are looked at *)
Fixpoint run_seen_w (watch : args -> bool) (rec : args -> option outcome) (p : prg) (seen : bool) : option (bool * outcome) :=
  match p with
  | Ret o => Some (seen, o)
  | Call a k => match rec a with
                | None => None
                | Some o => run_seen_w watch rec (k o) (seen || (watch a && fatal_out o))
                end
  end.

Lemma run_seen_w_run watch rec p : forall seen b o, run_seen_w watch rec p seen = Some (b, o) -> run rec p = Some o.
Proof.
  induction p as [o'|a k IH]; intros seen b o H; simpl in *.
  - injection H as _ <-. reflexivity.
  - destruct (rec a) as [o1|]; [|discriminate]. eapply IH. exact H.
Qed.

Notation F := (sinv args outcome bool upd (fun _ => True) (fun _ => True) Pret).

Section Watch.
Variable watch : args -> bool.

Inductive finv : bool -> prg -> Prop :=
| FI_ret st o : (st = true -> fatal_out o = true) -> finv st (Ret o)
| FI_call st a k : (forall o, finv (st || (watch a && fatal_out o)) (k o)) -> finv st (Call a k).

Lemma run_seen_w_inv rec p : forall st, finv st p ->
  forall b o, run_seen_w watch rec p st = Some (b, o) -> b = true -> fatal_out o = true.
Proof.
  induction p as [o'|a k IH]; intros st Hs b o H Hb; simpl in H.
  - injection H as E1 E2. inversion Hs as [st1 o1 HP|]; subst. apply HP. reflexivity.
  - inversion Hs as [|st0 a0 k0 Hk]; subst.
    destruct (rec a) as [o1|]; [|discriminate].
    eapply (IH o1 _ (Hk o1)); [exact H|reflexivity].
Qed.

Lemma F_weaken p : forall st, F st p -> F false p.
Proof.
  induction p as [o|a k IH]; intros st H; inversion H as [? ? HP|? ? ? Ca Hk]; subst.
  - apply SI_ret. discriminate.
  - apply SI_call; [exact I|]. intros o _. specialize (Hk o I). unfold upd in *. destruct (fatal_out o); simpl.
    + rewrite orb_true_r in Hk. exact Hk.
    + rewrite orb_false_r in Hk. eapply IH. exact Hk.
Qed.

Lemma F_finv p : forall st, F st p -> finv st p.
Proof.
  induction p as [o|a k IH]; intros st H; inversion H as [? ? HP|? ? ? Ca Hk]; subst.
  - apply FI_ret. exact HP.
  - apply FI_call. intros o. apply IH. specialize (Hk o I). unfold upd in Hk.
    destruct (watch a && fatal_out o) eqn:W.
    + apply andb_prop in W as [_ Fo]. rewrite Fo in Hk. exact Hk.
    + rewrite orb_false_r. destruct st; [exact Hk|]. eapply F_weaken. exact Hk.
Qed.

Lemma W_ret0 o : finv false (Ret o).
Proof. apply FI_ret. discriminate. Qed.

Ltac callw := apply FI_call; intros [?l ?r|?x|]; cbn [fatal_out orb]; rewrite ?andb_false_r.

Section WConts.
Variable fail : exn -> prg.
Hypothesis Hfail : forall st x, (st = true -> is_fatal (xk x) = true) -> finv st (fail x).

Lemma W_skip_inner fuel : forall ig s loc found k,
  (forall l b, finv false (k l b)) -> finv false (skip_ign_inner fail fuel ig s loc found k).
Proof.
  induction fuel as [|f IH]; intros ig s loc found k Hk; simpl; [apply W_ret0|].
  unfold call. callw.
  - apply IH. exact Hk.
  - destruct (is_pe (xk x)) eqn:P.
    + assert (is_fatal (xk x) = false) as -> by (destruct (xk x); simpl in *; congruence). rewrite andb_false_r. apply Hk.
    + apply Hfail. intros E. apply andb_prop in E as [_ E]. exact E.
  - apply W_ret0.
Qed.

Lemma W_skip_pass fuel : forall igs s loc found k,
  (forall l b, finv false (k l b)) -> finv false (skip_ign_pass fail fuel igs s loc found k).
Proof.
  induction igs as [|ig igs IH]; intros s loc found k Hk; simpl; [apply Hk|].
  apply W_skip_inner. intros l b. apply IH. exact Hk.
Qed.

Lemma W_skip_ignorables : forall rounds igs s loc k,
  (forall l, finv false (k l)) -> finv false (skip_ignorables fail rounds igs s loc k).
Proof.
  induction rounds as [|r IH]; intros igs s loc k Hk; destruct igs as [|ig igs]; cbn [skip_ignorables]; try apply Hk;
    [apply W_ret0|].
  apply W_skip_pass. intros l b. destruct (negb b); [apply Hk|]. destruct (Nat.eqb l loc); [apply Hk|]. apply IH. exact Hk.
Qed.

Lemma W_pre_parse e s loc k : (forall l, finv false (k l)) -> finv false (pre_parse fail e s loc k).
Proof.
  intros Hk. unfold pre_parse.
  destruct e as [a i t| | | | |]; try (apply W_skip_ignorables; intros; apply Hk).
  destruct t; try (apply W_skip_ignorables; intros; apply Hk).
  - destruct loc; [apply Hk|]. destruct orig_has_nl; apply Hk.
  - destruct (Nat.eqb (col_at s loc) c); [apply Hk|]. apply W_skip_ignorables; intros; apply Hk.
Qed.
End WConts.

Section WImpl.
Variable e : expr. Variable s : str. Variable d : bool. Variable pl : nat.
Notation k := (step_k e s d pl).

Lemma W_k0 res : finv false (k res).
Proof. apply F_finv, F_k0. Qed.

Lemma W_fail st x : (st = true -> is_fatal (xk x) = true) -> finv st (fail_of k x).
Proof. intros H. apply F_finv, F_fail. exact H. Qed.

Lemma W_failo st o : (st = true -> fatal_out o = true) -> finv st (failo_of k o).
Proof.
  destruct o as [l r|x|]; intros H; simpl; try (apply FI_ret; intros E; specialize (H E); discriminate).
  apply W_fail. exact H.
Qed.

Lemma W_alt_fail e0 loc best : finv false (alt_fail (fail_of k) e0 s loc best).
Proof. apply F_finv, F_alt_fail. Qed.

(* try_parse of an element whose calls are not watched *)
Lemma W_try_parse_unwatched c loc dd rf K :
  watch (mkargs c s loc dd true) = false -> (forall o, finv false (K o)) -> finv false (try_parse c s loc dd rf K).
Proof.
  intros Hw HK. unfold try_parse, call. apply FI_call. intros o. rewrite Hw. simpl.
  destruct o as [l r|x|]; try apply HK. destruct (is_fatal (xk x) && negb rf); apply HK.
Qed.

(* ---- Or: the calls of the first pass (do_actions = False) are not watched ---- *)
Lemma W_or_tail e0 loc fatals best : finv false (or_tail (fail_of k) e0 s loc fatals best).
Proof. unfold or_tail. destruct (pick_fatal fatals); [apply W_fail; discriminate|apply W_alt_fail]. Qed.

Lemma W_or_pass1 fail e0 loc K :
  (forall c, watch (mkargs c s loc false true) = false) ->
  (forall x, finv false (fail x)) ->
  (forall m f b, finv false (K m f b)) ->
  forall es m f b, finv false (or_pass1 fail e0 es s loc m f b K).
Proof.
  intros Hw Hfail HK. induction es as [|c es IH]; intros m f b; cbn [or_pass1]; [apply HK|].
  apply W_try_parse_unwatched; [apply Hw|]. intros [l r|x|]; [apply IH| |apply W_ret0].
  destruct (is_fatal (xk x)); [apply IH|]. destruct (is_pe (xk x)); [apply IH|]. destruct (is_index (xk x)); [apply IH|apply Hfail].
Qed.

Lemma W_or_go2 tail loc : (forall b, finv false (tail b)) ->
  forall ms longest best, finv false (or_go2 k tail s loc ms longest best).
Proof.
  intros Ht. induction ms as [|[l1 c] ms IH]; intros longest best; cbn [or_go2].
  - destruct longest as [[l r]|]; [apply W_k0|apply Ht].
  - destruct (match longest with Some (l, _) => Nat.leb l1 l | None => false end).
    + destruct longest as [[l r]|]; [apply W_k0|apply W_ret0].
    + unfold call. callw.
      * destruct (Nat.leb l1 l); [apply W_k0|apply IH].
      * destruct (is_pe (xk x)) eqn:P.
        { assert (is_fatal (xk x) = false) as -> by (destruct (xk x); simpl in *; congruence). rewrite andb_false_r. apply IH. }
        apply W_fail. intros E. apply andb_prop in E as [_ E]. exact E.
      * apply W_ret0.
Qed.

Lemma W_or_body e0 es loc :
  (forall c, watch (mkargs c s loc false true) = false) -> finv false (or_body k e0 es s d loc).
Proof.
  intros Hw. unfold or_body. apply W_or_pass1; [exact Hw|intros; apply W_fail; discriminate|].
  intros m f b. unfold or_select. destruct m as [|m0 ms]; [apply W_or_tail|].
  destruct (negb d).
  - destruct (sort_desc _ (m0 :: ms)) as [|[l c] rest]; [apply W_or_tail|].
    unfold call. apply FI_call. intros o. rewrite Hw. cbn [andb orb].
    destruct o as [l' r'|x|]; [apply W_k0|apply W_failo; discriminate|apply W_failo; discriminate].
  - apply W_or_go2. intros b'. apply W_or_tail.
Qed.

(* ---- Each ---- *)
Lemma W_each_round fail es K :
  (forall c l, watch (mkargs c s l false true) = false) ->
  (forall x, finv false (fail x)) ->
  (forall tl reqd opt mo nf f, finv false (K tl reqd opt mo nf f)) ->
  forall cands tl reqd opt mo nf f, finv false (each_round fail es s cands tl reqd opt mo nf f K).
Proof.
  intros Hw Hfail HK. induction cands as [|en rest IH]; intros tl reqd opt mo nf f; cbn [each_round]; [apply HK|].
  apply W_try_parse_unwatched; [apply Hw|]. intros [l r|x|]; [| |apply W_ret0].
  - destruct (mem_cls (ee_cls en) reqd); [apply IH|]. destruct (mem_cls (ee_cls en) opt); apply IH.
  - destruct (is_fatal (xk x)); [apply IH|]. destruct (is_pe (xk x)); [apply IH|apply Hfail].
Qed.

Lemma W_each_loop fail es multis K :
  (forall c l, watch (mkargs c s l false true) = false) ->
  (forall x, finv false (fail x)) ->
  (forall reqd opt mo f, finv false (K reqd opt mo f)) ->
  forall fuel tl reqd opt mo, finv false (each_loop fail es s fuel tl reqd opt multis mo K).
Proof.
  intros Hw Hfail HK. induction fuel as [|fu IH]; intros tl reqd opt mo; cbn [each_loop]; [apply W_ret0|].
  apply (W_each_round fail es); [exact Hw|exact Hfail|].
  intros tl' reqd' opt' mo' nf f.
  destruct (Nat.eqb nf _); [apply HK|]. destruct (_ && _); [apply W_ret0|apply IH].
Qed.

Lemma W_each_go2 dd : forall mo loc acc, finv false (each_go2 k s dd mo loc acc).
Proof.
  induction mo as [|c mo IH]; intros loc acc; cbn [each_go2]; [apply W_k0|].
  unfold call. callw; [apply IH| |apply W_ret0].
  apply W_fail. intros E. apply andb_prop in E as [_ E]. exact E.
Qed.

Lemma W_each_impl es info loc :
  (forall c l, watch (mkargs c s l false true) = false) -> finv false (each_impl k es info s loc d).
Proof.
  intros Hw. unfold each_impl. apply W_each_loop; [exact Hw|intros; apply W_fail; discriminate|].
  intros reqd opt mo f. destruct (pick_fatal f); [apply W_fail; discriminate|].
  destruct reqd; [apply W_each_go2|apply W_fail; discriminate].
Qed.

(* ---- ZeroOrMore / OneOrMore with stop_on: the calls of the `not_ender` check are not watched ---- *)
Lemma W_check_ender ne loc K :
  watch (mkargs ne s loc false true) = false ->
  (forall r, finv false (K r)) -> finv false (check_ender (Some ne) s loc K).
Proof.
  intros Hw HK. unfold check_ender. apply W_try_parse_unwatched; [exact Hw|]. intros [l r|x|]; apply HK.
Qed.

Lemma W_rep_go foe e0 body ne :
  (forall l, watch (mkargs ne s l false true) = false) ->
  (forall st o, (st = true -> fatal_out o = true) -> finv st (foe o)) ->
  forall fuel loc acc, finv false (rep_go k foe e0 body (Some ne) s d fuel loc acc).
Proof.
  intros Hw Hfoe. induction fuel as [|f IH]; intros loc acc; cbn [rep_go]; [apply W_ret0|].
  assert (Hstop : forall st o, (st = true -> fatal_out o = true) ->
            finv st (match o with
                     | Err x => if is_pe (xk x) || is_index (xk x) then k (inr (loc, RPR acc)) else foe o
                     | _ => Ret Div end)).
  { intros st [l r|x|] H; try (apply FI_ret; intros E; specialize (H E); discriminate).
    destruct (is_pe (xk x) || is_index (xk x)) eqn:E; [|apply Hfoe; exact H].
    destruct st; [|apply W_k0]. specialize (H eq_refl). simpl in H. destruct (xk x); simpl in *; discriminate. }
  apply W_skip_ignorables.
  - intros st x Hx. apply (Hstop st (Err x)). exact Hx.
  - intros l. apply W_check_ender; [apply Hw|]. intros [o|].
    + apply Hstop. discriminate.
    + unfold call. callw.
      * match goal with |- context [Nat.eqb ?a loc] => destruct (Nat.eqb a loc) end; [apply W_ret0|apply IH].
      * apply (Hstop _ (Err x)). intros E. apply andb_prop in E as [_ E]. exact E.
      * apply W_ret0.
Qed.

(* ---- SkipTo: the calls made with callPreParse = True (fail_on, the ignorer) are not watched ---- *)
Lemma W_skipto_ign fail ig K :
  (forall c l dd, watch (mkargs c s l dd true) = false) ->
  (forall x, finv false (fail x)) -> (forall l, finv false (K l)) ->
  forall fuel tl, finv false (skipto_ign fail fuel ig s tl K).
Proof.
  intros Hw Hfail HK. induction fuel as [|f IH]; intros tl; cbn [skipto_ign]; [apply HK|].
  apply W_try_parse_unwatched; [apply Hw|]. intros [l r|x|]; [| |apply W_ret0].
  - destruct (Nat.eqb l tl); [apply HK|apply IH].
  - destruct (is_pbe (xk x)); [apply HK|apply Hfail].
Qed.

Lemma W_skipto_scan e0 target ignorer failon loc0 K :
  (forall c l dd, watch (mkargs c s l dd true) = false) ->
  (forall l, finv false (K l)) ->
  forall fuel tmploc, finv false (skipto_scan (fail_of k) fuel e0 target ignorer failon s loc0 tmploc K).
Proof.
  intros Hw HK. induction fuel as [|f IH]; intros tmploc; cbn [skipto_scan]; [apply W_fail; discriminate|].
  destruct (Nat.ltb (length s) tmploc); [apply W_fail; discriminate|].
  assert (Hafter : finv false
    ((match ignorer with
      | Some ig => skipto_ign (fail_of k) (length s + 2) ig s tmploc
      | None => fun k' => k' tmploc
      end) (fun tl =>
        call target s tl false false (fun o =>
          match o with
          | Ok _ _ => K tl
          | Div => Ret Div
          | Err x => if is_pe (xk x) || is_index (xk x)
                     then skipto_scan (fail_of k) f e0 target ignorer failon s loc0 (S tl) K
                     else fail_of k x
          end)))).
  { assert (Ht : forall tl, finv false (call target s tl false false (fun o =>
          match o with
          | Ok _ _ => K tl
          | Div => Ret Div
          | Err x => if is_pe (xk x) || is_index (xk x)
                     then skipto_scan (fail_of k) f e0 target ignorer failon s loc0 (S tl) K
                     else fail_of k x
          end))).
    { intros tl. unfold call. callw; [apply HK| |apply W_ret0].
      destruct (is_pe (xk x) || is_index (xk x)) eqn:E.
      - assert (is_fatal (xk x) = false) as -> by (destruct (xk x); simpl in *; congruence). rewrite andb_false_r. apply IH.
      - apply W_fail. intros E2. apply andb_prop in E2 as [_ E2]. exact E2. }
    destruct ignorer as [ig|]; [|apply Ht].
    apply W_skipto_ign; [exact Hw|intros; apply W_fail; discriminate|exact Ht]. }
  destruct failon as [fo|]; [|exact Hafter].
  unfold can_parse_next. apply W_try_parse_unwatched; [apply Hw|]. intros [l r|x|]; [apply W_fail; discriminate| |apply W_ret0].
  destruct (is_pe (xk x) || is_index (xk x)); [exact Hafter|apply W_fail; discriminate].
Qed.
End WImpl.

Theorem W_impl_or G a i es s pl d :
  (forall c l, watch (mkargs c s l false true) = false) ->
  finv false (impl G (Nary a i NOr es) s pl d (step_k (Nary a i NOr es) s d pl)).
Proof.
  intros Hw. rewrite impl_or. destruct (forallb _ es); [|apply W_or_body; intros; apply Hw].
  apply W_pre_parse; [intros; apply W_fail; assumption|]. intros l. apply W_or_body. intros; apply Hw.
Qed.

Theorem W_impl_each G a i info es s pl d :
  (forall c l, watch (mkargs c s l false true) = false) ->
  finv false (impl G (Nary a i (NEach info) es) s pl d (step_k (Nary a i (NEach info) es) s d pl)).
Proof. intros Hw. cbn [impl]. apply W_each_impl. exact Hw. Qed.

Theorem W_impl_rep G a i z body ne s pl d :
  (forall l, watch (mkargs ne s l false true) = false) ->
  finv false (impl G (Rep a i z body (Some ne)) s pl d (step_k (Rep a i z body (Some ne)) s d pl)).
Proof.
  intros Hw. cbn [impl].
  set (e := Rep a i z body (Some ne)).
  assert (Hfoe : forall st o, (st = true -> fatal_out o = true) ->
            finv st (match o with
                  | Err x => if z && (is_pe (xk x) || is_index (xk x))
                             then step_k e s d pl (inr (pl, RPR (pr_init (RList []) (rsname a) true true)))
                             else fail_of (step_k e s d pl) x
                  | _ => Ret Div end)).
  { intros st [l r|x|] H; try (apply FI_ret; intros E; specialize (H E); discriminate).
    destruct (z && (is_pe (xk x) || is_index (xk x))) eqn:E; [|apply W_fail; exact H].
    destruct st; [|apply W_k0]. specialize (H eq_refl). simpl in H.
    apply andb_prop in E as [_ E]. destruct (xk x); simpl in *; discriminate. }
  apply W_check_ender; [apply Hw|]. intros [o|].
  - apply Hfoe. discriminate.
  - unfold call. apply FI_call. intros [l r|x|]; cbn [fatal_out orb]; rewrite ?andb_false_r.
    + apply W_rep_go; [exact Hw|exact Hfoe].
    + apply (Hfoe _ (Err x)). intros E. apply andb_prop in E as [_ E]. exact E.
    + apply W_ret0.
Qed.

Theorem W_impl_skip G a i target incl igs failon s pl d :
  (forall c l dd, watch (mkargs c s l dd true) = false) ->
  finv false (impl G (Skip a i target incl igs failon) s pl d (step_k (Skip a i target incl igs failon) s d pl)).
Proof.
  intros Hw. cbn [impl]. apply W_skipto_scan; [exact Hw|]. intros tl.
  destruct incl; [|apply W_k0].
  unfold call. apply FI_call. intros [l r|x|]; cbn [fatal_out orb]; rewrite ?andb_false_r.
  - apply W_k0.
  - apply (W_failo _ _ _ _ _ (Err x)). intros E. apply andb_prop in E as [_ E]. exact E.
  - apply (W_failo _ _ _ _ _ Div). discriminate.
Qed.
End Watch.

(* from the invariants to executions *)
(* Or: a fatal answer to any call made with do_actions = True - the re-parses of the second pass, the ignore expressions of
   preParse - is the Or's answer's class: it propagates (the calls of the first pass are made with do_actions = False) *)
Theorem or_pass2_never_swallowed G rec a i es s pl d o :
  run_seen_w a_do rec (impl G (Nary a i NOr es) s pl d (step_k (Nary a i NOr es) s d pl)) false = Some (true, o) ->
  fatal_out o = true.
Proof.
  intros H. eapply run_seen_w_inv; [apply (W_impl_or a_do G a i es s pl d); intros; reflexivity|exact H|reflexivity].
Qed.

Theorem each_pass2_never_swallowed G rec a i info es s pl d o :
  run_seen_w a_do rec (impl G (Nary a i (NEach info) es) s pl d (step_k (Nary a i (NEach info) es) s d pl)) false = Some (true, o) ->
  fatal_out o = true.
Proof.
  intros H. eapply run_seen_w_inv; [apply (W_impl_each a_do G a i info es s pl d); intros; reflexivity|exact H|reflexivity].
Qed.

(* ZeroOrMore / OneOrMore with stop_on: a fatal answer to any watched call - whatever set of calls is watched, as long as it
   contains no `not_ender.try_parse(instring, loc)` - makes the repetition's answer fatal *)
Theorem rep_stop_on_never_swallowed G watch rec a i z body ne s pl d o :
  (forall l, watch (mkargs ne s l false true) = false) ->
  run_seen_w watch rec (impl G (Rep a i z body (Some ne)) s pl d (step_k (Rep a i z body (Some ne)) s d pl)) false = Some (true, o) ->
  fatal_out o = true.
Proof.
  intros Hw H. eapply run_seen_w_inv; [apply (W_impl_rep watch G a i z body ne s pl d Hw)|exact H|reflexivity].
Qed.

(* SkipTo: the target is parsed with callPreParse = False (in the scan and, with include=True, once more at the end);
   fail_on and the ignorer with callPreParse = True.  A fatal answer of the target propagates. *)
Theorem skipto_target_never_swallowed G rec a i target incl igs failon s pl d o :
  run_seen_w (fun ar => negb (a_pre ar)) rec
             (impl G (Skip a i target incl igs failon) s pl d (step_k (Skip a i target incl igs failon) s d pl)) false = Some (true, o) ->
  fatal_out o = true.
Proof.
  intros H. eapply run_seen_w_inv;
    [apply (W_impl_skip (fun ar => negb (a_pre ar)) G a i target incl igs failon s pl d); intros; reflexivity|exact H|reflexivity].
Qed.

(* ------------------------------------------------------------------------------------------- *)
(* D. Each                                                                                      *)
(* ------------------------------------------------------------------------------------------- *)
(* what Each.parseImpl does once the `while keepMatching` loop has ended, by name *)
Definition each_final (k : kont -> prg) (es : list expr) (info : list each_info) (s : str) (loc : nat) (d : bool)
  : list each_ent -> list each_ent -> list expr -> list (exn * nat) -> prg :=
  fun reqd' opt' mo fatals =>
    match pick_fatal fatals with
    | Some fx => fail_of k fx
    | None =>
      match reqd' with
      | _ :: _ => fail_of k (mkx XParse (Z.of_nat loc) (MMissing (map (fun en => nid (attrs_of (ee_e en))) reqd')) None)
      | [] =>
        let unmatched := flat_map (fun z => if is_opt (fst z) && mem_cls (snd (snd (snd z))) opt' then [fst z] else [])
                                  (each_zip es info) in
        each_go2 k s d (mo ++ unmatched) loc pr_empty
      end
    end.

Definition each_reqd (es : list expr) (info : list each_info) : list each_ent :=
  each_req1 (each_zip es info) ++ each_multi true (each_zip es info).
Definition each_opts (es : list expr) (info : list each_info) : list each_ent :=
  each_opt1 (each_zip es info) ++ each_opt2 (each_zip es info).
Definition each_multis (es : list expr) (info : list each_info) : list each_ent := each_multi false (each_zip es info).

Lemma each_impl_unfold k es info s loc d :
  each_impl k es info s loc d =
  each_loop (fail_of k) es s (each_fuel (length s) (each_reqd es info) (each_opts es info) (each_multis es info)) loc
            (each_reqd es info) (each_opts es info) (each_multis es info) [] (each_final k es info s loc d).
Proof. reflexivity. Qed.

(* the answers of one round `for e in tmpExprs:` - each operand is tried where the previous match ended *)
Inductive round_ans (rec : args -> option outcome) (s : str) : list each_ent -> nat -> list outcome -> Prop :=
| RA_nil tl : round_ans rec s [] tl []
| RA_ok en rest tl tl' r os :
    rec (mkargs (ee_e en) s tl false true) = Some (Ok tl' r) -> round_ans rec s rest tl' os ->
    round_ans rec s (en :: rest) tl (Ok tl' r :: os)
| RA_err en rest tl x os :
    rec (mkargs (ee_e en) s tl false true) = Some (Err x) -> is_pbe (xk x) = true -> round_ans rec s rest tl os ->
    round_ans rec s (en :: rest) tl (Err x :: os).

Definition is_ok (o : outcome) : bool := match o with Ok _ _ => true | _ => false end.
Definition ok_end (o : outcome) : option nat := match o with Ok l _ => Some l | _ => None end.
Definition n_failed (os : list outcome) : nat := length (filter (fun o => negb (is_ok o)) os).

(* the state after a round, from where the operands that matched ended - and from nothing else *)
Fixpoint each_round_sum (es : list expr) (cands : list each_ent) (ends : list (option nat)) (tl : nat)
         (reqd opt : list each_ent) (mo : list expr) : nat * list each_ent * list each_ent * list expr :=
  match cands, ends with
  | en :: rest, Some tl' :: ends' =>
    let mo' := mo ++ [each_order es en] in
    if mem_cls (ee_cls en) reqd then each_round_sum es rest ends' tl' (remove_cls (ee_cls en) reqd) opt mo'
    else if mem_cls (ee_cls en) opt then each_round_sum es rest ends' tl' reqd (remove_cls (ee_cls en) opt) mo'
    else each_round_sum es rest ends' tl' reqd opt mo'
  | en :: rest, None :: ends' => each_round_sum es rest ends' tl reqd opt mo
  | _, _ => (tl, reqd, opt, mo)
  end.

Lemma each_round_run rec fail es s K : forall cands tl os, round_ans rec s cands tl os ->
  forall reqd opt mo nf f tl' reqd' opt' mo',
    each_round_sum es cands (map ok_end os) tl reqd opt mo = (tl', reqd', opt', mo') ->
    run rec (each_round fail es s cands tl reqd opt mo nf f K) =
    run rec (K tl' reqd' opt' mo' (nf + n_failed os) (f ++ or_fatals (map ee_e cands) os)).
Proof.
  intros cands tl os H. induction H as [tl|en rest tl tl1 r os Hr _ IH|en rest tl x os Hr Hx _ IH];
    intros reqd opt mo nf f tl' reqd' opt' mo' Hs.
  - simpl in Hs. injection Hs as <- <- <- <-. unfold or_fatals, n_failed. simpl. rewrite Nat.add_0_r, app_nil_r. reflexivity.
  - cbn [each_round]. rewrite (run_try_parse_rf _ _ _ _ _ _ _ Hr).
    cbn [map ok_end each_round_sum] in Hs.
    replace (n_failed (Ok tl1 r :: os)) with (n_failed os) by reflexivity.
    replace (or_fatals (map ee_e (en :: rest)) (Ok tl1 r :: os)) with (or_fatals (map ee_e rest) os) by reflexivity.
    destruct (mem_cls (ee_cls en) reqd); [apply IH; exact Hs|].
    destruct (mem_cls (ee_cls en) opt); apply IH; exact Hs.
  - cbn [each_round]. rewrite (run_try_parse_rf _ _ _ _ _ _ _ Hr).
    cbn [map ok_end each_round_sum] in Hs.
    replace (n_failed (Err x :: os)) with (S (n_failed os)) by reflexivity.
    unfold or_fatals. cbn [map combine flat_map snd fst]. fold (or_fatals (map ee_e rest) os).
    destruct (is_fatal (xk x)) eqn:Fx.
    + rewrite (IH reqd opt mo (S nf) _ tl' reqd' opt' mo' Hs). unfold fatal_entry.
      rewrite <- app_assoc. simpl. rewrite Nat.add_succ_r. reflexivity.
    + assert (is_pe (xk x) = true) as -> by (destruct (xk x); simpl in *; congruence).
      rewrite (IH reqd opt mo (S nf) _ tl' reqd' opt' mo' Hs). simpl. rewrite Nat.add_succ_r. reflexivity.
Qed.

Lemma round_ans_len rec s cands tl os : round_ans rec s cands tl os -> length os = length cands.
Proof. induction 1; simpl; congruence. Qed.

Lemma n_failed_le os : n_failed os <= length os.
Proof. unfold n_failed. induction os as [|o os IH]; simpl; [lia|]. destruct (negb (is_ok o)); simpl; lia. Qed.

Lemma n_failed_all os : existsb is_ok os = false -> n_failed os = length os.
Proof.
  unfold n_failed. induction os as [|o os IH]; simpl; [reflexivity|]. intros H. apply orb_false_elim in H as [-> H]. simpl.
  rewrite IH by exact H. reflexivity.
Qed.

Lemma n_failed_some os : existsb is_ok os = true -> n_failed os < length os.
Proof.
  induction os as [|o os IH]; simpl; [discriminate|]. intros H.
  change (n_failed (o :: os)) with (length (if negb (is_ok o) then o :: filter (fun o => negb (is_ok o)) os else filter (fun o => negb (is_ok o)) os)).
  destruct (is_ok o); simpl.
  - pose proof (n_failed_le os). unfold n_failed in *. lia.
  - specialize (IH H). unfold n_failed in *. lia.
Qed.

Lemma sum_all_failed es : forall cands os tl reqd opt mo, existsb is_ok os = false ->
  each_round_sum es cands (map ok_end os) tl reqd opt mo = (tl, reqd, opt, mo).
Proof.
  induction cands as [|en rest IH]; intros [|o os] tl reqd opt mo H; try reflexivity.
  simpl in H. apply orb_false_elim in H as [Ho H]. destruct o; try discriminate; simpl; apply IH; exact H.
Qed.

(* (3a) a round in which no operand matches ends the loop; the fatal exceptions collected in THIS round are what the code
   after the loop sees *)
Theorem each_round_no_match rec fail es s f tl reqd opt multis mo K os :
  round_ans rec s (reqd ++ opt ++ multis) tl os ->
  existsb is_ok os = false ->
  run rec (each_loop fail es s (S f) tl reqd opt multis mo K) =
  run rec (K reqd opt mo (or_fatals (map ee_e (reqd ++ opt ++ multis)) os)).
Proof.
  intros Ha Hn. cbn [each_loop].
  rewrite (each_round_run rec fail es s _ _ _ _ Ha reqd opt mo 0 [] tl reqd opt mo (sum_all_failed es _ _ _ _ _ _ Hn)).
  rewrite (n_failed_all os Hn), (round_ans_len _ _ _ _ _ Ha). simpl. rewrite Nat.eqb_refl. reflexivity.
Qed.

(* ... and if one of them was fatal, Each raises the one chosen by pick_fatal *)
Theorem each_no_match rec k es info s loc d f tl reqd opt multis mo os :
  round_ans rec s (reqd ++ opt ++ multis) tl os ->
  existsb is_ok os = false ->
  existsb fatal_out os = true ->
  exists fx, pick_fatal (or_fatals (map ee_e (reqd ++ opt ++ multis)) os) = Some fx /\ is_fatal (xk fx) = true /\
    run rec (each_loop (fail_of k) es s (S f) tl reqd opt multis mo (each_final k es info s loc d)) = run rec (k (inl (IExc fx))).
Proof.
  intros Ha Hn Hf. rewrite (each_round_no_match rec _ es s f tl reqd opt multis mo _ os Ha Hn).
  set (cs := map ee_e (reqd ++ opt ++ multis)).
  assert (Hne : or_fatals cs os <> []).
  { apply or_fatals_nonempty; [|exact Hf]. unfold cs. rewrite map_length. symmetry. eapply round_ans_len. exact Ha. }
  destruct (or_fatals cs os) as [|p fs] eqn:E; [congruence|].
  destruct (pick_fatal_some p fs) as [fx Hp]. exists fx.
  assert (Ffx : is_fatal (xk fx) = true) by (apply (or_fatals_fatal cs os); rewrite E; apply pick_fatal_in; exact Hp).
  split; [exact Hp|]. split; [exact Ffx|].
  unfold each_final. rewrite Hp. rewrite fail_of_fatal by exact Ffx. reflexivity.
Qed.

(* (3b) a round in which some operand matches: `fatals.clear()` - the loop goes on from a state that is a function of the
   ends of the matches only (each_round_sum); whether an operand failed with ParseException or with a fatal exception
   makes no difference, the fatal exceptions of this round are gone *)
Theorem each_round_with_match rec fail es s f tl reqd opt multis mo K os tl' reqd' opt' mo' :
  round_ans rec s (reqd ++ opt ++ multis) tl os ->
  existsb is_ok os = true ->
  each_round_sum es (reqd ++ opt ++ multis) (map ok_end os) tl reqd opt mo = (tl', reqd', opt', mo') ->
  run rec (each_loop fail es s (S f) tl reqd opt multis mo K) =
  if Nat.eqb tl' tl && Nat.eqb (length reqd') (length reqd) && Nat.eqb (length opt') (length opt)
  then Some Div
  else run rec (each_loop fail es s f tl' reqd' opt' multis mo' K).
Proof.
  intros Ha Hs Hsum. cbn [each_loop].
  rewrite (each_round_run rec fail es s _ _ _ _ Ha reqd opt mo 0 [] tl' reqd' opt' mo' Hsum).
  pose proof (n_failed_some os Hs) as Hlt. rewrite (round_ans_len _ _ _ _ _ Ha) in Hlt.
  simpl. destruct (Nat.eqb_spec (n_failed os) (length (reqd ++ opt ++ multis))); [lia|].
  destruct (_ && _); reflexivity.
Qed.

(* the second pass of Each: every fatal answer propagates *)
Lemma F_each_go2 e s d pl dd : forall mo loc acc, F false (each_go2 (step_k e s d pl) s dd mo loc acc).
Proof.
  induction mo as [|c mo IH]; intros loc acc; cbn [each_go2]; [apply F_k0|].
  unfold call. apply SI_call; [exact I|]. intros [l r|x|] _; unfold upd; cbn [fatal_out orb].
  - apply IH.
  - apply F_fail. simpl. auto.
  - apply SI_ret. discriminate.
Qed.

Theorem each_go2_never_swallowed rec e s d pl dd mo loc acc o :
  run_seen rec (each_go2 (step_k e s d pl) s dd mo loc acc) false = Some (true, o) -> fatal_out o = true.
Proof. intros H. eapply run_seen_inv; [apply F_each_go2|exact H|reflexivity]. Qed.

Lemma impl_each (G : env) a i info es s pl d k :
  impl G (Nary a i (NEach info) es) s pl d k =
  each_loop (fail_of k) es s (each_fuel (length s) (each_reqd es info) (each_opts es info) (each_multis es info)) pl
            (each_reqd es info) (each_opts es info) (each_multis es info) [] (each_final k es info s pl d).
Proof. reflexivity. Qed.

(* ------------------------------------------------------------------------------------------- *)
(* E. stop_on                                                                                  *)
(* ------------------------------------------------------------------------------------------- *)
Definition rep_stop (k : kont -> prg) (foe : outcome -> prg) (loc : nat) (acc : pres) (o : outcome) : prg :=
  match o with
  | Err x => if is_pe (xk x) || is_index (xk x) then k (inr (loc, RPR acc)) else foe o
  | _ => Ret Div
  end.

(* one turn of the `while 1` loop: skip the ignorables, THEN ask the sentinel (at the position behind them), then the body *)
Definition rep_body (k : kont -> prg) (foe : outcome -> prg) (e body : expr) (ne : option expr) (s : str) (d : bool)
           (f : nat) (loc : nat) (acc : pres) (preloc : nat) : prg :=
  call body s preloc d true (fun o =>
    match o with
    | Ok loc' r' => if Nat.eqb loc' loc then Ret Div else rep_go k foe e body ne s d f loc' (pr_iadd acc r')
    | Div => Ret Div
    | Err _ => rep_stop k foe loc acc o
    end).

Definition rep_check (k : kont -> prg) (foe : outcome -> prg) (e body : expr) (ne : option expr) (s : str) (d : bool)
           (f : nat) (loc : nat) (acc : pres) (preloc : nat) : prg :=
  check_ender ne s preloc (fun r => match r with
                                    | Some o => rep_stop k foe loc acc o
                                    | None => rep_body k foe e body ne s d f loc acc preloc
                                    end).

Lemma rep_go_unfold k foe e body ne s d f loc acc :
  rep_go k foe e body ne s d (S f) loc acc =
  skip_ignorables (fun x => rep_stop k foe loc acc (Err x)) (length s + 2) (ign_of e) s loc
                  (rep_check k foe e body ne s d f loc acc).
Proof. reflexivity. Qed.

(* where the `not_ender` (NotAny without ignorables) starts its own parseImpl *)
Definition ender_loc (an : attrs) (s : str) (loc : nat) : nat :=
  if callpre an then (if skipws an then skip_white s loc (white an) else loc) else loc.

(* the sentinel raises a fatal exception: `not_ender` = ~sentinel succeeds (NotAny treats it as a non-match), hence the
   sentinel "is not there" *)
Lemma check_ender_fatal_sentinel G rec an c s loc x K :
  acts an = [] ->
  rec (mkargs (Enh an [] ENot c) s loc false true) = run rec (step G (mkargs (Enh an [] ENot c) s loc false true)) ->
  rec (mkargs c s (ender_loc an s loc) false true) = Some (Err x) -> is_fatal (xk x) = true ->
  run rec (check_ender (Some (Enh an [] ENot c)) s loc K) = run rec (K None).
Proof.
  intros Hacts Hrec Hc Hx.
  assert (Hstep : exists r, run rec (step G (mkargs (Enh an [] ENot c) s loc false true)) = Some (Ok (ender_loc an s loc) r)).
  { unfold step, ender_loc. cbn [mkargs a_e a_s a_do a_pre a_loc attrs_of andb].
    assert (Himpl : forall pl, rec (mkargs c s pl false true) = Some (Err x) -> exists r,
              run rec (impl G (Enh an [] ENot c) s pl false (step_k (Enh an [] ENot c) s false pl)) = Some (Ok pl r)).
    { intros pl Hpl. cbn [impl]. unfold can_parse_next. rewrite (run_try_parse_fatal _ _ _ _ _ _ _ Hpl Hx).
      cbn [tp_exn mkx xk is_pe orb]. unfold step_k, finish. cbn [attrs_of]. rewrite Hacts. eexists. reflexivity. }
    unfold ender_loc in Hc.
    destruct (callpre an); [|apply Himpl; exact Hc].
    unfold pre_parse. cbn [ign_of attrs_of]. rewrite (Nat.add_comm (length s) 2). cbn [Nat.add skip_ignorables].
    apply Himpl. exact Hc. }
  destruct Hstep as [r Hstep]. rewrite Hstep in Hrec.
  unfold check_ender, try_parse, call. rewrite (run_call _ _ _ _ Hrec). reflexivity.
Qed.

(* (4a) in the loop: the repetition goes on to try its body *)
Theorem stop_on_fatal_sentinel G rec k foe e body an c s d f loc acc x :
  acts an = [] ->
  rec (mkargs (Enh an [] ENot c) s loc false true) = run rec (step G (mkargs (Enh an [] ENot c) s loc false true)) ->
  rec (mkargs c s (ender_loc an s loc) false true) = Some (Err x) -> is_fatal (xk x) = true ->
  forall loc0,
  run rec (rep_check k foe e body (Some (Enh an [] ENot c)) s d f loc0 acc loc) =
  run rec (rep_body k foe e body (Some (Enh an [] ENot c)) s d f loc0 acc loc).
Proof.
  intros Ha Hrec Hc Hx loc0. unfold rep_check.
  rewrite (check_ender_fatal_sentinel G rec an c s loc x _ Ha Hrec Hc Hx). reflexivity.
Qed.

(* (4b) a fatal exception out of the `not_ender.try_parse(instring, loc)` call itself never leaves the repetition either:
   try_parse turns it into a ParseException and the loop ends quietly with what has been matched *)
Theorem stop_on_check_never_fatal rec k foe e body ne s d f loc acc x :
  rec (mkargs ne s loc false true) = Some (Err x) -> is_fatal (xk x) = true ->
  forall loc0,
  run rec (rep_check k foe e body (Some ne) s d f loc0 acc loc) = run rec (k (inr (loc0, RPR acc))).
Proof.
  intros Hr Hx loc0. unfold rep_check, check_ender. rewrite (run_try_parse_fatal _ _ _ _ _ _ _ Hr Hx). reflexivity.
Qed.

(* ------------------------------------------------------------------------------------------- *)
(* F. SkipTo                                                                                    *)
(* ------------------------------------------------------------------------------------------- *)
Lemma can_parse_next_fatal rec fail c s loc d K x :
  rec (mkargs c s loc d true) = Some (Err x) -> is_fatal (xk x) = true ->
  run rec (can_parse_next fail c s loc d K) = run rec (K false).
Proof. intros Hr Hx. unfold can_parse_next. rewrite (run_try_parse_fatal _ _ _ _ _ _ _ Hr Hx). reflexivity. Qed.

Lemma skipto_ign_fatal rec fail f ig s tl K x :
  rec (mkargs ig s tl false true) = Some (Err x) -> is_fatal (xk x) = true ->
  run rec (skipto_ign fail (S f) ig s tl K) = run rec (K tl).
Proof. intros Hr Hx. cbn [skipto_ign]. rewrite (run_try_parse_fatal _ _ _ _ _ _ _ Hr Hx). reflexivity. Qed.

(* one position of the scan after the fail_on test *)
Definition skipto_try (fail : exn -> prg) (f : nat) (e target : expr) (ignorer failon : option expr) (s : str)
           (loc0 tmploc : nat) (K : nat -> prg) : prg :=
  (match ignorer with
   | Some ig => skipto_ign fail (length s + 2) ig s tmploc
   | None => fun k' => k' tmploc
   end) (fun tl =>
     call target s tl false false (fun o =>
       match o with
       | Ok _ _ => K tl
       | Div => Ret Div
       | Err x => if is_pe (xk x) || is_index (xk x)
                  then skipto_scan fail f e target ignorer failon s loc0 (S tl) K
                  else fail x
       end)).

Lemma skipto_scan_unfold fail f e target ignorer failon s loc0 tmploc K :
  skipto_scan fail (S f) e target ignorer failon s loc0 tmploc K =
  if Nat.ltb (length s) tmploc then fail (mkx XParse (Z.of_nat loc0) (MNode (nid (attrs_of e)) 0) (Some (nid (attrs_of e))))
  else match failon with
       | Some fo => can_parse_next fail fo s tmploc false
                      (fun b => if b then fail (mkx XParse (Z.of_nat loc0) (MNode (nid (attrs_of e)) 0) (Some (nid (attrs_of e))))
                                else skipto_try fail f e target ignorer failon s loc0 tmploc K)
       | None => skipto_try fail f e target ignorer failon s loc0 tmploc K
       end.
Proof. reflexivity. Qed.

(* (5) fail_on raising a fatal exception = fail_on does not match here: the scan tries the target at this position *)
Theorem skipto_failon_fatal rec fail f e target ignorer fo s loc0 tmploc K x :
  tmploc <= length s ->
  rec (mkargs fo s tmploc false true) = Some (Err x) -> is_fatal (xk x) = true ->
  run rec (skipto_scan fail (S f) e target ignorer (Some fo) s loc0 tmploc K) =
  run rec (skipto_try fail f e target ignorer (Some fo) s loc0 tmploc K).
Proof.
  intros Hl Hr Hx. rewrite skipto_scan_unfold.
  destruct (Nat.ltb_spec (length s) tmploc); [lia|].
  rewrite (can_parse_next_fatal _ _ _ _ _ _ _ _ Hr Hx). reflexivity.
Qed.
