(* Proofs for C10 / C11 (value level). *)
From Coq Require Import List ZArith NArith Bool Lia.
From PP Require Import Model.Str Model.Results Model.ResultsAPI Model.ResultsSpec.
Import ListNotations.
Local Open Scope Z_scope.

Lemma getname_absent : forall r k, contains r k = false -> pr_getname r k = None.
Proof.
  intros r k H. unfold contains in H. unfold pr_getname. destruct (dict_get (dict r) k); [discriminate|reflexivity].
Qed.

Lemma unknown_attr : forall r k, contains r k = false -> starts_dunder k = false ->
  apply_op r (OGetAttr k) = (r, RTok (TStr [])).
Proof.
  intros r k H1 H2. simpl. unfold getattr. rewrite (getname_absent _ _ H1), H2. reflexivity.
Qed.
