(* Proofs for C10 / C11 (value level). *)
From Coq Require Import List ZArith NArith Bool Lia.
From PP Require Import Model.Str Model.Results Model.ResultsAPI Model.ResultsSpec.
Import ListNotations.
Local Open Scope Z_scope.

Lemma getname_absent : forall r k, contains r k = false -> pr_getname r k = None.
Proof.
  intros r k H. unfold contains in H. unfold pr_getname. destruct (dict_get (dict r) k); [discriminate|reflexivity].
Qed.

Lemma unknown_attr : forall r k, contains r k = false -> starts_dunder k = false ->
  apply_op r (OGetAttr k) = (r, RTok (TStr [])).
Proof.
  intros r k H1 H2. simpl. unfold getattr. rewrite (getname_absent _ _ H1), H2. reflexivity.
Qed.

(* ------------------------------------------------------------------------------------------------------ *)
(* induction over nested tokens                                                                              *)
(* ------------------------------------------------------------------------------------------------------ *)
Section tok_induction.
  Variable P : tok -> Prop.
  Hypothesis HStr : forall s, P (TStr s).
  Hypothesis HInt : forall z, P (TInt z).
  Hypothesis HBool : forall b, P (TBool b).
  Hypothesis HNone : P TNone.
  Hypothesis HList : forall l, Forall P l -> P (TList l).
  Hypothesis HPR : forall r, Forall P (toks r) ->
                             Forall (fun kv => Forall (fun vp => P (fst vp)) (snd kv)) (dict r) -> P (TPR r).
  Fixpoint tok_ind' (t : tok) : P t :=
    match t with
    | TStr s => HStr s
    | TInt z => HInt z
    | TBool b => HBool b
    | TNone => HNone
    | TList l => HList l ((fix go (l : list tok) : Forall P l :=
                             match l with [] => Forall_nil _ | x :: t => Forall_cons _ (tok_ind' x) (go t) end) l)
    | TPR r =>
      match r with
      | PR tl d an nm md =>
        HPR (PR tl d an nm md)
            ((fix go (l : list tok) : Forall P l :=
                match l with [] => Forall_nil _ | x :: t => Forall_cons _ (tok_ind' x) (go t) end) tl)
            ((fix god (d : list (str * list (tok * Z))) : Forall (fun kv => Forall (fun vp => P (fst vp)) (snd kv)) d :=
                match d with
                | [] => Forall_nil _
                | kv :: d' =>
                  Forall_cons _
                    ((fix goo (o : list (tok * Z)) : Forall (fun vp => P (fst vp)) o :=
                        match o with
                        | [] => Forall_nil _
                        | vp :: o' => Forall_cons _ (tok_ind' (fst vp)) (goo o')
                        end) (snd kv))
                    (god d')
                end) d)
      end
    end.
End tok_induction.

(* ------------------------------------------------------------------------------------------------------ *)
(* naturality of the Python list primitives                                                                  *)
(* ------------------------------------------------------------------------------------------------------ *)
Section naturality.
  Context {A B : Type} (f : A -> B).

  Lemma llen_map l : llen (map f l) = llen l.
  Proof. unfold llen. now rewrite map_length. Qed.

  Lemma nth_error_map' l j : nth_error (map f l) j = option_map f (nth_error l j).
  Proof. revert j; induction l; destruct j; simpl; auto. Qed.

  Lemma py_getitem_map l i : py_getitem (map f l) i = option_map f (py_getitem l i).
  Proof. unfold py_getitem. rewrite llen_map. destruct (norm_index i (llen l)); [apply nth_error_map'|reflexivity]. Qed.

  Lemma remove_nth_map l j : remove_nth (map f l) j = map f (remove_nth l j).
  Proof. unfold remove_nth. now rewrite map_app, firstn_map, skipn_map. Qed.

  Lemma set_nth_map l j x : set_nth (map f l) j (f x) = map f (set_nth l j x).
  Proof. unfold set_nth. rewrite map_app, firstn_map, skipn_map. reflexivity. Qed.

  Lemma py_delitem_map l i : py_delitem (map f l) i = option_map (map f) (py_delitem l i).
  Proof. unfold py_delitem. rewrite llen_map. destruct (norm_index i (llen l)); simpl; [now rewrite remove_nth_map|reflexivity]. Qed.

  Lemma py_setitem_map l i x : py_setitem (map f l) i (f x) = option_map (map f) (py_setitem l i x).
  Proof. unfold py_setitem. rewrite llen_map. destruct (norm_index i (llen l)); simpl; [now rewrite set_nth_map|reflexivity]. Qed.

  Lemma py_insert_map l i x : py_insert (map f l) i (f x) = map f (py_insert l i x).
  Proof. unfold py_insert. rewrite llen_map, map_app, firstn_map, skipn_map. reflexivity. Qed.

  Lemma select_map l idxs : select (map f l) idxs = map f (select l idxs).
  Proof.
    unfold select. induction idxs as [|i t IH]; simpl; [reflexivity|].
    rewrite map_app, IH, nth_error_map'. destruct (nth_error l (Z.to_nat i)); reflexivity.
  Qed.

  Lemma del_idx_map idxs l : forall k, del_idx k idxs (map f l) = map f (del_idx k idxs l).
  Proof. induction l as [|x t IH]; intros k; simpl; [reflexivity|]. destruct (existsb (Z.eqb k) idxs); simpl; now rewrite IH. Qed.

  Lemma assign_at_map idxs : forall l vs, assign_at (map f l) idxs (map f vs) = map f (assign_at l idxs vs).
  Proof.
    induction idxs as [|i t IH]; intros l vs; destruct vs as [|v vs]; simpl; try reflexivity.
    now rewrite set_nth_map, IH.
  Qed.

  Lemma py_getslice_map l s : py_getslice (map f l) s = option_map (map f) (py_getslice l s).
  Proof.
    unfold py_getslice. rewrite llen_map. destruct (slice_indices s (llen l)) as [[[a b] c]|]; simpl; [now rewrite select_map|reflexivity].
  Qed.

  Lemma py_delslice_map l s : py_delslice (map f l) s = option_map (map f) (py_delslice l s).
  Proof.
    unfold py_delslice. rewrite llen_map. destruct (slice_indices s (llen l)) as [[[a b] c]|]; simpl; [now rewrite del_idx_map|reflexivity].
  Qed.

  Lemma py_setslice_map l s vs : py_setslice (map f l) s (map f vs) = option_map (map f) (py_setslice l s vs).
  Proof.
    unfold py_setslice. rewrite llen_map. destruct (slice_indices s (llen l)) as [[[a b] c]|]; simpl; [|reflexivity].
    destruct (c =? 1).
    - simpl. now rewrite !map_app, firstn_map, skipn_map.
    - rewrite map_length. destruct (Nat.eqb _ _); simpl; [now rewrite assign_at_map|reflexivity].
  Qed.
End naturality.

(* ------------------------------------------------------------------------------------------------------ *)
(* the ordered dict under a map on the values                                                                *)
(* ------------------------------------------------------------------------------------------------------ *)
Definition dmap {V W} (g : V -> W) (d : list (str * V)) : list (str * W) := map (fun kv => (fst kv, g (snd kv))) d.

Lemma dict_get_dmap {V W} (g : V -> W) d k : dict_get (dmap g d) k = option_map g (dict_get d k).
Proof. induction d as [|[k' v] d IH]; simpl; [reflexivity|]. destruct (str_eqb k' k); [reflexivity|apply IH]. Qed.
Lemma dict_set_dmap {V W} (g : V -> W) d k v : dict_set (dmap g d) k (g v) = dmap g (dict_set d k v).
Proof. induction d as [|[k' v'] d IH]; simpl; [reflexivity|]. destruct (str_eqb k' k); simpl; [reflexivity|now rewrite IH]. Qed.
Lemma dict_del_dmap {V W} (g : V -> W) d k : dict_del (dmap g d) k = dmap g (dict_del d k).
Proof. induction d as [|[k' v'] d IH]; simpl; [reflexivity|]. destruct (str_eqb k' k); simpl; [reflexivity|now rewrite IH]. Qed.
Lemma dmap_keys {V W} (g : V -> W) d : map fst (dmap g d) = map fst d.
Proof. unfold dmap. rewrite map_map. reflexivity. Qed.

(* the name view of a concrete name table *)
Definition occ_view (occ : list (tok * Z)) : list vtok := map (fun vp => tview (fst vp)) occ.
Definition dict_view (d : list (str * list (tok * Z))) : list (str * list vtok) := dmap occ_view d.

Lemma view_eq r : view r = AV (map tview (toks r)) (dict_view (dict r)) (allnames r).
Proof. reflexivity. Qed.

Lemma dict_view_map_positions h d : dict_view (map_positions h d) = dict_view d.
Proof.
  unfold dict_view, dmap, map_positions. rewrite map_map. apply map_ext. intros [k occ]. simpl.
  unfold occ_view. rewrite map_map. reflexivity.
Qed.

(* ------------------------------------------------------------------------------------------------------ *)
(* every concrete operation, seen through `view`                                                             *)
(* ------------------------------------------------------------------------------------------------------ *)
Lemma occ_view_app o1 o2 : occ_view (o1 ++ o2) = occ_view o1 ++ occ_view o2.
Proof. unfold occ_view. apply map_app. Qed.

Lemma dict_get_view d k : dict_get (dict_view d) k = option_map occ_view (dict_get d k).
Proof. apply dict_get_dmap. Qed.

Lemma contains_view r k : contains r k = mm_contains (view r) k.
Proof. unfold contains, mm_contains. simpl. fold (dict_view (dict r)). rewrite dict_get_view. destruct (dict_get (dict r) k); reflexivity. Qed.

Lemma getname_view r k : option_map tview (pr_getname r k) = mm_lookup (view r) k.
Proof.
  unfold pr_getname, mm_lookup. simpl. fold (dict_view (dict r)). rewrite dict_get_view.
  destruct (dict_get (dict r) k) as [occ|]; simpl; [|reflexivity].
  destruct (name_in k (allnames r)); simpl.
  - unfold occ_view. rewrite map_map. reflexivity.
  - unfold occ_view. rewrite <- map_rev. destruct (rev occ) as [|[v p] t]; reflexivity.
Qed.

Lemma lookup_present_view r k : tview (lookup_present r k) = mm_lookup_present (view r) k.
Proof.
  unfold lookup_present, mm_lookup_present. rewrite <- getname_view. destruct (pr_getname r k); reflexivity.
Qed.

Lemma setname_view r k v p : view (pr_setname r k v p) = mm_add (view r) k (tview v).
Proof.
  change (view (pr_setname r k v p)) with
    (AV (map tview (toks r))
        (dict_view (dict_set (dict r) k (match dict_get (dict r) k with Some l => l | None => [] end ++ [(v, p)])))
        (allnames r)).
  change (mm_add (view r) k (tview v)) with
    (AV (map tview (toks r))
        (dict_set (dict_view (dict r)) k (match dict_get (dict_view (dict r)) k with Some vs => vs | None => [] end ++ [tview v]))
        (allnames r)).
  f_equal. rewrite dict_get_view. unfold dict_view. rewrite <- dict_set_dmap. f_equal. rewrite occ_view_app.
  destruct (dict_get (dict r) k); reflexivity.
Qed.

Lemma bool_view r : pr_bool r = spec_bool (view r).
Proof. unfold pr_bool, spec_bool. simpl. destruct (toks r), (dict r); reflexivity. Qed.

Lemma haskeys_view r : pr_haskeys r = negb (match av_map (view r) with [] => true | _ => false end).
Proof. unfold pr_haskeys. simpl. destruct (dict r); reflexivity. Qed.

Lemma fold_setname_view items : forall self,
  view (fold_left (fun acc (kvp : str * tok * Z) => match kvp with (k, v, p) => pr_setname acc k v p end) items self)
  = fold_left (fun acc kv => mm_add acc (fst kv) (snd kv))
              (map (fun kvp : str * tok * Z => match kvp with (k, v, p) => (k, tview v) end) items) (view self).
Proof.
  induction items as [|[[k v] p] t IH]; intros self; simpl; [reflexivity|].
  rewrite IH, setname_view. reflexivity.
Qed.

Lemma iadd_items_view (h : Z -> Z) d :
  map (fun kvp : str * tok * Z => match kvp with (k, v, p) => (k, tview v) end)
      (flat_map (fun kv : str * list (tok * Z) => map (fun vp => (fst kv, fst vp, h (snd vp))) (snd kv)) d)
  = flat_map (fun kv : str * list vtok => map (fun v => (fst kv, v)) (snd kv)) (dict_view d).
Proof.
  induction d as [|[k occ] d IH]; simpl; [reflexivity|].
  rewrite map_app, IH. f_equal. unfold occ_view. rewrite !map_map. reflexivity.
Qed.

Lemma view_PR t d an nm md : view (PR t d an nm md) = AV (map tview t) (dict_view d) an.
Proof. reflexivity. Qed.

Lemma iadd_view a b : view (pr_iadd a b) = spec_iadd (view a) (view b).
Proof.
  unfold pr_iadd, spec_iadd. rewrite <- bool_view. destruct (negb (pr_bool b)); [reflexivity|].
  cbv zeta. rewrite view_PR.
  match goal with |- context [dict_view (dict ?s)] => set (self1 := s) end.
  assert (Hv : view self1 =
     fold_left (fun acc kv => mm_add acc (fst kv) (snd kv))
       (flat_map (fun kv : str * list vtok => map (fun v => (fst kv, v)) (snd kv)) (av_map (view b))) (view a)).
  { unfold self1. rewrite fold_setname_view.
    change (av_map (view b)) with (dict_view (dict b)). rewrite <- iadd_items_view with (h := fun a0 : Z => if a0 <? 0 then Z.of_nat (length (toks a)) else a0 + Z.of_nat (length (toks a))).
    reflexivity. }
  rewrite <- Hv. rewrite map_app. reflexivity.
Qed.

Lemma copy_view r : view (pr_copy r) = spec_copy (view r).
Proof. reflexivity. Qed.

Lemma add_view a b : view (add a b) = spec_add (view a) (view b).
Proof. unfold add, spec_add. now rewrite iadd_view, copy_view. Qed.

(* as_list / as_dict / deepcopy : nested induction *)
Lemma as_list_tok_view : forall t, tview (tok_as_list t) = v_as_list (tview t).
Proof.
  induction t using tok_ind'; simpl; try reflexivity.
  f_equal. rewrite !map_map. apply map_ext_Forall. exact H.
Qed.

Lemma as_list_view r : map tview (pr_as_list r) = map v_as_list (av_list (view r)).
Proof. unfold pr_as_list. simpl. rewrite !map_map. apply map_ext. intros. apply as_list_tok_view. Qed.

Lemma last_map {A B} (f : A -> B) l d : last (map f l) (f d) = f (last l d).
Proof. induction l as [|x [|y t] IH]; simpl in *; auto. Qed.

Lemma to_item_view : forall t, dview (to_item t) = v_to_item (tview t).
Proof.
  induction t using tok_ind'; try reflexivity.
  destruct r as [tl d an nm md]. simpl in *.
  destruct d as [|kv0 d'].
  - simpl. f_equal. rewrite !map_map. apply map_ext_Forall. exact H.
  - remember (kv0 :: d') as d. simpl.
    assert (Hd : forall d, Forall (fun kv : str * list (tok * Z) => Forall (fun vp => dview (to_item (fst vp)) = v_to_item (tview (fst vp))) (snd kv)) d ->
      map (fun kv : str * dval => (fst kv, dview (snd kv)))
        (map (fun kv : str * list (tok * Z) =>
           (fst kv, if name_in (fst kv) an then DList (map (fun vp => to_item (fst vp)) (snd kv))
                    else last (map (fun vp => to_item (fst vp)) (snd kv)) (DTok TNone))) d)
      = map (fun kv : str * list vtok =>
           (fst kv, if name_in (fst kv) an then VDList (map v_to_item (snd kv)) else last (map v_to_item (snd kv)) (VDTok VNone)))
          (map (fun kv => (fst kv, map (fun vp => tview (fst vp)) (snd kv))) d)).
    { clear. intros d Hd. rewrite !map_map. apply map_ext_Forall. eapply Forall_impl; [|exact Hd].
      intros [k occ] Hocc. simpl in *. f_equal.
      assert (E : map dview (map (fun vp : tok * Z => to_item (fst vp)) occ) = map v_to_item (map (fun vp => tview (fst vp)) occ)).
      { rewrite !map_map. apply map_ext_Forall. exact Hocc. }
      destruct (name_in k an).
      - simpl. f_equal. exact E.
      - rewrite <- E. change (VDTok VNone) with (dview (DTok TNone)). rewrite last_map. reflexivity. }
    subst d. specialize (Hd _ H0). simpl in Hd. simpl. f_equal. exact Hd.
Qed.

Lemma as_dict_view r : map (fun kv => (fst kv, dview (snd kv))) (as_dict r) = spec_as_dict (view r).
Proof.
  unfold as_dict, spec_as_dict. simpl. rewrite !map_map. apply map_ext. intros [k occ]. simpl. f_equal.
  assert (E : map dview (map (fun vp : tok * Z => to_item (fst vp)) occ) = map v_to_item (map (fun vp => tview (fst vp)) occ)).
  { rewrite !map_map. apply map_ext. intros. apply to_item_view. }
  destruct (name_in k (allnames r)).
  - simpl. f_equal. exact E.
  - rewrite <- E. change (VDTok VNone) with (dview (DTok TNone)). rewrite last_map. reflexivity.
Qed.

Lemma names_union_nil_l an : names_union [] an = an.
Proof. unfold names_union. simpl. induction an as [|x t IH]; simpl; [reflexivity|]. now rewrite IH. Qed.

Lemma deepcopy_tok_view : forall t, tview (tok_deepcopy t) = tview t.
Proof.
  induction t using tok_ind'; simpl; try reflexivity.
  - f_equal. rewrite map_map. apply map_ext_Forall. eapply Forall_impl; [|exact H].
    intros a Ha. destruct a; try reflexivity. exact Ha.
  - rewrite names_union_nil_l. f_equal. rewrite map_map. apply map_ext_Forall. exact H.
Qed.

Lemma deepcopy_view r : view (deepcopy r) = spec_copy (view r).
Proof.
  unfold deepcopy, spec_copy. rewrite view_PR. simpl. f_equal.
  rewrite map_map. apply map_ext. intros. apply deepcopy_tok_view.
Qed.

(* ------------------------------------------------------------------------------------------------------ *)
(* C10: per-operation refinement                                                                             *)
(* ------------------------------------------------------------------------------------------------------ *)
Lemma view_with_toks r l : view (with_toks r l) = with_list (view r) (map tview l).
Proof. reflexivity. Qed.

Lemma slice_indices_nostep lo hi len : exists a b, slice_indices (Slice lo hi None) len = Some (a, b, 1).
Proof. unfold slice_indices. simpl. eauto. Qed.

Lemma delitem_int_view r i :
  match delitem_int r i with
  | Some r' => py_delitem (av_list (view r)) i = Some (av_list (view r')) /\ view r' = with_list (view r) (av_list (view r'))
  | None => py_delitem (av_list (view r)) i = None
  end.
Proof.
  unfold delitem_int. simpl av_list. rewrite py_delitem_map.
  destruct (py_delitem (toks r) i) as [l'|]; cbn [option_map]; [|reflexivity].
  cbv zeta.
  destruct (slice_indices_nostep (Some (if i <? 0 then i + llen (toks r) else i))
                                 (Some ((if i <? 0 then i + llen (toks r) else i) + 1)) (llen (toks r))) as (a & b & E).
  rewrite E. split; [reflexivity|]. rewrite view_PR. unfold with_list. simpl. rewrite dict_view_map_positions. reflexivity.
Qed.

Lemma delitem_slice_view r s :
  match delitem_slice r s with
  | Some r' => py_delslice (av_list (view r)) s = Some (av_list (view r')) /\ view r' = with_list (view r) (av_list (view r'))
  | None => py_delslice (av_list (view r)) s = None
  end.
Proof.
  unfold delitem_slice. simpl av_list. rewrite py_delslice_map. unfold py_delslice.
  destruct (slice_indices s (llen (toks r))) as [[[a b] c]|]; simpl; [|reflexivity].
  split; [reflexivity|]. rewrite view_PR. unfold with_list. simpl. rewrite dict_view_map_positions. reflexivity.
Qed.

Lemma delitem_name_view r k :
  match delitem_name r k with
  | Some r' => mm_contains (view r) k = true /\ view r' = mm_del (view r) k
  | None => mm_contains (view r) k = false
  end.
Proof.
  unfold delitem_name. rewrite <- contains_view. destruct (contains r k); [|reflexivity].
  split; [reflexivity|]. unfold with_dict, mm_del. rewrite view_PR.
  change (av_map (view r)) with (dict_view (dict r)). unfold dict_view. rewrite dict_del_dmap. reflexivity.
Qed.

Lemma insert_view r i v : view (insert r i v) = with_list (view r) (py_insert (av_list (view r)) i (tview v)).
Proof.
  unfold insert. rewrite view_PR. unfold with_list. simpl. rewrite dict_view_map_positions, py_insert_map. reflexivity.
Qed.

Lemma pop_refines r a0 extra kwd badkw :
  spec_pop (view r) a0 (map tview extra) (option_map tview kwd) badkw
  = (view (fst (pop r a0 extra kwd badkw)), result_view (snd (pop r a0 extra kwd badkw))).
Proof.
  unfold pop, spec_pop. destruct badkw; [reflexivity|].
  set (a0' := match a0 with Some a => a | None => PKInt (-1) end).
  assert (Hrest : match (match option_map tview kwd with Some d => [d] | None => map tview extra end) with [] => true | _ => false end
                  = match (match kwd with Some d => [d] | None => extra end) with [] => true | _ => false end).
  { destruct kwd; simpl; [reflexivity|]. destruct extra; reflexivity. }
  destruct a0' as [i|k].
  - (* list semantics *)
    unfold getitem_int. simpl av_list. rewrite py_getitem_map.
    pose proof (delitem_int_view r i) as Hd. simpl av_list in Hd.
    destruct (py_getitem (toks r) i) as [v|]; simpl.
    + destruct (delitem_int r i) as [r'|].
      * destruct Hd as [Hd1 Hd2]. rewrite Hd1. simpl. rewrite Hd2. reflexivity.
      * rewrite Hd. reflexivity.
    + destruct (py_delitem (map tview (toks r)) i); reflexivity.
  - (* dict semantics when the name is present or no default was given *)
    rewrite <- contains_view.
    assert (Hls : (match (match option_map tview kwd with Some d => [d] | None => map tview extra end) with [] => true | _ :: _ => contains r k end)
                = (match (match kwd with Some d => [d] | None => extra end) with [] => true | _ :: _ => contains r k end)).
    { destruct kwd; simpl; [reflexivity|]. destruct extra; reflexivity. }
    rewrite Hls. clear Hls.
    destruct (match (match kwd with Some d => [d] | None => extra end) with [] => true | _ :: _ => contains r k end).
    + unfold getitem_name. rewrite <- getname_view.
      pose proof (delitem_name_view r k) as Hd. rewrite <- contains_view in Hd.
      destruct (pr_getname r k) as [v|]; simpl.
      * destruct (delitem_name r k) as [r'|].
        -- destruct Hd as [Hc Hv]. rewrite Hc. cbn [fst snd]. rewrite Hv. reflexivity.
        -- rewrite Hd. reflexivity.
      * reflexivity.
    + destruct kwd; simpl; [reflexivity|]. destruct extra; reflexivity.
Qed.

Lemma op_refines : forall r o, observes_views o = true ->
  spec_op (view r) o = (view (fst (apply_op r o)), result_view (snd (apply_op r o))).
Proof.
  intros r o Ho. destruct o; try discriminate Ho; clear Ho; cbn [apply_op spec_op fst snd].
  - (* getint *) unfold getitem_int. simpl av_list. rewrite py_getitem_map. destruct (py_getitem (toks r) i); reflexivity.
  - (* getslice *) unfold getitem_slice. simpl av_list. rewrite py_getslice_map. destruct (py_getslice (toks r) s); reflexivity.
  - (* getname *) unfold getitem_name. rewrite <- getname_view. destruct (pr_getname r k); reflexivity.
  - (* setint *) unfold setitem_int. simpl av_list. rewrite py_setitem_map. destruct (py_setitem (toks r) i v); reflexivity.
  - (* setslice *) unfold setitem_slice. simpl av_list. rewrite py_setslice_map. destruct (py_setslice (toks r) s vs); reflexivity.
  - (* setname *) unfold setitem_name. now rewrite setname_view.
  - unfold setitem_name_off. now rewrite setname_view.
  - (* delint *) pose proof (delitem_int_view r i) as H. destruct (delitem_int r i) as [r'|]; cbn [opt_state fst snd].
    + destruct H as [H1 H2]. rewrite H1. cbn [sp_state]. now rewrite <- H2.
    + rewrite H. reflexivity.
  - (* delslice *) pose proof (delitem_slice_view r s) as H. destruct (delitem_slice r s) as [r'|]; cbn [opt_state fst snd].
    + destruct H as [H1 H2]. rewrite H1. cbn [sp_state]. now rewrite <- H2.
    + rewrite H. reflexivity.
  - (* delname *) pose proof (delitem_name_view r k) as H. destruct (delitem_name r k) as [r'|]; cbn [opt_state fst snd].
    + destruct H as [H1 H2]. now rewrite H1, H2.
    + now rewrite H.
  - (* contains *) now rewrite contains_view.
  - (* len *) unfold len. simpl av_list. now rewrite llen_map.
  - (* bool *) now rewrite bool_view.
  - reflexivity.
  - (* reversed *) unfold reversed. simpl. now rewrite map_rev.
  - (* keys *) unfold keys. simpl. rewrite map_map. reflexivity.
  - (* values *) unfold values, keys. simpl. rewrite !map_map. f_equal. f_equal. apply map_ext. intros. now rewrite lookup_present_view.
  - (* items *) unfold items, keys. simpl. rewrite !map_map. f_equal. f_equal. apply map_ext. intros. simpl. now rewrite lookup_present_view.
  - (* haskeys *) now rewrite haskeys_view.
  - (* pop *) apply pop_refines.
  - (* get *) unfold get. rewrite <- contains_view. destruct (contains r k); simpl; [now rewrite lookup_present_view|reflexivity].
  - (* insert *) now rewrite insert_view.
  - (* append *) unfold append. rewrite view_with_toks, map_app. reflexivity.
  - unfold extend_list. rewrite view_with_toks, map_app. reflexivity.
  - unfold extend_pr. now rewrite iadd_view.
  - reflexivity.
  - (* getattr *) unfold getattr. rewrite <- getname_view. destruct (pr_getname r k); simpl; [reflexivity|]. destruct (starts_dunder k); reflexivity.
  - (* add *) simpl. now rewrite add_view.
  - unfold iadd. now rewrite iadd_view.
  - reflexivity.
  - simpl. now rewrite add_view.
  - (* as_list *) simpl. unfold as_list. now rewrite as_list_view.
  - simpl. now rewrite as_dict_view.
  - reflexivity.
  - simpl. now rewrite deepcopy_view.
  - reflexivity.
Qed.

(* ------------------------------------------------------------------------------------------------------ *)
(* C10: histories, invisibility of stored positions                                                          *)
(* ------------------------------------------------------------------------------------------------------ *)
Lemma history_refines : forall ops r, forallb observes_views ops = true ->
  spec_run (view r) ops = (map result_view (fst (run_ops r ops)), view (snd (run_ops r ops))).
Proof.
  induction ops as [|o ops IH]; intros r H; simpl; [reflexivity|].
  simpl in H. apply andb_prop in H. destruct H as [Ho Hops].
  rewrite (op_refines r o Ho). destruct (apply_op r o) as [r1 res]. cbn [fst snd].
  rewrite (IH r1 Hops). destruct (run_ops r1 ops) as [rs rf]. reflexivity.
Qed.

Lemma positions_invisible : forall r1 r2 ops, view r1 = view r2 -> forallb observes_views ops = true ->
  map result_view (fst (run_ops r1 ops)) = map result_view (fst (run_ops r2 ops)) /\
  view (snd (run_ops r1 ops)) = view (snd (run_ops r2 ops)).
Proof.
  intros r1 r2 ops Hv Ho.
  pose proof (history_refines ops r1 Ho) as H1. pose proof (history_refines ops r2 Ho) as H2.
  rewrite Hv in H1. rewrite H1 in H2. split; [exact (f_equal fst H2)|exact (f_equal snd H2)].
Qed.

(* operations that touch list items only *)
Definition list_item_op (o : op) : bool :=
  match o with
  | ODelInt _ | ODelSlice _ | OInsert _ _ | OAppend _ | OExtendList _ | OSetInt _ _ | OSetSlice _ _ => true
  | OPop None _ _ _ | OPop (Some (PKInt _)) _ _ _ => true
  | _ => false
  end.

Lemma sp_state_names a o e : av_map (fst (sp_state a o e)) = av_map a /\ av_all (fst (sp_state a o e)) = av_all a.
Proof. destruct o; simpl; auto. Qed.

Lemma list_item_op_keeps_names : forall r o, list_item_op o = true ->
  av_map (view (fst (apply_op r o))) = av_map (view r) /\ av_all (view (fst (apply_op r o))) = av_all (view r).
Proof.
  intros r o H.
  assert (Ho : observes_views o = true) by (destruct o; try reflexivity; discriminate).
  pose proof (op_refines r o Ho) as E.
  assert (Hs : av_map (fst (spec_op (view r) o)) = av_map (view r) /\ av_all (fst (spec_op (view r) o)) = av_all (view r)).
  { generalize (view r). intros a. destruct o; try discriminate H; cbn [spec_op]; try apply sp_state_names; try (split; reflexivity).
    unfold spec_pop. destruct badkw; [split; reflexivity|].
    destruct a0 as [[i|k]|]; try discriminate H.
    - cbn. destruct (py_getitem (av_list a) i), (py_delitem (av_list a) i); split; reflexivity.
    - cbn. destruct (py_getitem (av_list a) (-1)), (py_delitem (av_list a) (-1)); split; reflexivity. }
  rewrite E in Hs. exact Hs.
Qed.

(* get_name() is the one method through which a stored position can be seen *)
Definition gn_r1 : pres := PR [TStr [97%N]] [([107%N], [(TStr [118%N], 0)])] [] None true.
Definition gn_r2 : pres := PR [TStr [97%N]] [([107%N], [(TStr [118%N], 1)])] [] None true.
Lemma get_name_reads_positions : view gn_r1 = view gn_r2 /\ rname gn_r1 = rname gn_r2 /\ get_name gn_r1 <> get_name gn_r2.
Proof. repeat split. vm_compute. discriminate. Qed.
(* both are reachable: r1 = PR(['a']); r1['k'] = 'v'   and   r2 = PR(['z','a']); r2 += PR(['v'],'k',asList=False); del r2[-1]; del r2[0] *)
Lemma gn_r2_reachable :
  snd (run_ops (pr_of_list [TStr [122%N]; TStr [97%N]])
               [OIAdd (pr_init (RList [TStr [118%N]]) (Some [107%N]) false true); ODelInt (-1); ODelInt 0])
  = PR [TStr [97%N]] [([107%N], [(TStr [118%N], 1)])] [] None true.
Proof. vm_compute. reflexivity. Qed.

(* lookup forms agree: r[name], getattr, get and as_dict are functions of the same multimap entry *)
Lemma lookup_forms_agree : forall r k, contains r k = true ->
  exists v, getitem_name r k = Some v /\ getattr r k = RTok v /\ (forall d, get r k d = v) \/
            (* an empty occurrence list (not well-formed) *) pr_getname r k = None.
Proof.
  intros r k Hc. destruct (pr_getname r k) as [v|] eqn:E.
  - exists v. left. repeat split.
    + exact E.
    + unfold getattr. now rewrite E.
    + intros d. unfold get, lookup_present. now rewrite Hc, E.
  - exists TNone. right. reflexivity.
Qed.

Lemma as_dict_entry : forall r k, In k (keys r) ->
  In (k, v_to_item (mm_lookup_present (view r) k)) (spec_as_dict (view r)) \/ mm_lookup (view r) k = None.
Proof.
  intros r k Hin. unfold spec_as_dict, mm_lookup_present, mm_lookup.
  change (av_map (view r)) with (dict_view (dict r)). change (av_all (view r)) with (allnames r).
  unfold keys in Hin. induction (dict r) as [|[k' occ] d IH]; [destruct Hin|].
  simpl. destruct (str_eqb k' k) eqn:Ek.
  - assert (k' = k) as ->.
    { clear -Ek. revert k Ek. induction k' as [|x a IH]; destruct k as [|y b]; simpl; intros; try discriminate; [reflexivity|].
      apply andb_prop in Ek. destruct Ek as [E1 E2]. apply N.eqb_eq in E1. subst. f_equal. now apply IH. }
    destruct (name_in k (allnames r)).
    + left. left. reflexivity.
    + destruct (occ_view occ) as [|v0 vs] eqn:Eo using rev_ind; [right; reflexivity|].
      left. left. rewrite rev_app_distr. simpl. f_equal. rewrite map_app. simpl.
      clear. induction (map v_to_item vs); simpl; auto. destruct l; auto.
  - simpl in Hin. destruct Hin as [->|Hin].
    + exfalso. clear -Ek. induction k as [|x a IH]; simpl in Ek; [discriminate|]. rewrite N.eqb_refl in Ek. simpl in Ek. auto.
    + destruct (IH Hin) as [H|H]; [left; right; exact H|right; exact H].
Qed.

(* ------------------------------------------------------------------------------------------------------ *)
(* C11 (value level): copies and pickles preserve the views; concatenation                                   *)
(* ------------------------------------------------------------------------------------------------------ *)
Lemma spec_copy_id a : spec_copy a = a.
Proof. destruct a. unfold spec_copy. simpl. now rewrite names_union_nil_l. Qed.

Lemma copy_same_view r : view (copy r) = view r.
Proof. unfold copy. now rewrite copy_view, spec_copy_id. Qed.
Lemma deepcopy_same_view r : view (deepcopy r) = view r.
Proof. now rewrite deepcopy_view, spec_copy_id. Qed.
Lemma pickle_same_view r : view (pickle_roundtrip r) = view r /\ rname (pickle_roundtrip r) = rname r.
Proof. split; reflexivity. Qed.

(* what C11 observes: as_list(), as_dict(), keys, len, dump() — all functions of the views *)
Definition observations (r : pres) :=
  (map tview (as_list r), map (fun kv => (fst kv, dview (snd kv))) (as_dict r), keys r, len r, pr_dump r, pr_str r, pr_repr r).
Definition spec_observations (a : aview) :=
  (map v_as_list (av_list a), spec_as_dict a, map fst (av_map a), llen (av_list a),
   (let t := vpr a in vdump (fuel_of t) 0 t), py_str (vpr a), py_repr (vpr a)).
Lemma observations_of_view r : observations r = spec_observations (view r).
Proof.
  unfold observations, spec_observations, as_list. rewrite as_list_view, as_dict_view.
  unfold keys, len. change (av_map (view r)) with (dict_view (dict r)). unfold dict_view. rewrite dmap_keys.
  change (av_list (view r)) with (map tview (toks r)). rewrite llen_map. reflexivity.
Qed.
Lemma same_view_same_observations r1 r2 : view r1 = view r2 -> observations r1 = observations r2.
Proof. intros H. now rewrite !observations_of_view, H. Qed.

(* concatenation *)
Lemma fold_mm_add_list items : forall a,
  av_list (fold_left (fun acc (kv : str * vtok) => mm_add acc (fst kv) (snd kv)) items a) = av_list a /\
  av_all (fold_left (fun acc (kv : str * vtok) => mm_add acc (fst kv) (snd kv)) items a) = av_all a.
Proof. induction items as [|kv t IH]; intros a; simpl; [auto|]. destruct (IH (mm_add a (fst kv) (snd kv))) as [H1 H2]. rewrite H1, H2. auto. Qed.

Lemma spec_bool_false a : spec_bool a = false -> av_list a = [] /\ av_map a = [].
Proof. unfold spec_bool. destruct (av_list a), (av_map a); simpl; intros; try discriminate; auto. Qed.

Lemma spec_iadd_list a b : av_list (spec_iadd a b) = av_list a ++ av_list b.
Proof.
  unfold spec_iadd. destruct (spec_bool b) eqn:E; simpl.
  - now rewrite (proj1 (fold_mm_add_list _ a)).
  - destruct (spec_bool_false _ E) as [-> _]. now rewrite app_nil_r.
Qed.
Lemma spec_add_list a b : av_list (spec_add a b) = av_list a ++ av_list b.
Proof. unfold spec_add. rewrite spec_iadd_list. reflexivity. Qed.

Lemma add_list_view a b : map tview (toks (add a b)) = map tview (toks a) ++ map tview (toks b).
Proof. pose proof (f_equal av_list (add_view a b)) as H. rewrite spec_add_list in H. exact H. Qed.

Lemma add_assoc_list a b c : av_list (view (add (add a b) c)) = av_list (view (add a (add b c))).
Proof. rewrite !add_view, !spec_add_list. now rewrite app_assoc. Qed.

Definition spec_empty : aview := AV [] [] [].
Lemma iadd_empty_r a : spec_iadd a spec_empty = a.
Proof. reflexivity. Qed.
Lemma add_empty_r r : view (add r pr_empty) = view r.
Proof. rewrite add_view. change (view pr_empty) with spec_empty. unfold spec_add. now rewrite iadd_empty_r, spec_copy_id. Qed.

(* left identity: empty + r has r's list and names; the list-all flags survive only if r is truthy *)
Lemma dict_set_fresh_app {V} (d : list (str * V)) k v : dict_get d k = None -> dict_set d k v = d ++ [(k, v)].
Proof. induction d as [|[k' v'] d IH]; simpl; [reflexivity|]. destruct (str_eqb k' k); [discriminate|]. intros H. now rewrite IH. Qed.

Lemma str_eqb_eq a : forall b, str_eqb a b = true <-> a = b.
Proof.
  induction a as [|x a IH]; destruct b as [|y b]; simpl; split; intros H; try discriminate; try reflexivity.
  - apply andb_prop in H. destruct H as [H1 H2]. apply N.eqb_eq in H1. apply IH in H2. now subst.
  - injection H as -> ->. rewrite N.eqb_refl. simpl. now apply IH.
Qed.
Lemma str_eqb_refl a : str_eqb a a = true.
Proof. now apply str_eqb_eq. Qed.

Lemma sum_is_fold_add l r0 : pr_sum (r0 :: l) = Some (fold_left add l (copy r0)).
Proof. reflexivity. Qed.

Lemma sum_list_view l : forall r0,
  av_list (view (fold_left add l r0)) = av_list (view r0) ++ flat_map (fun r => av_list (view r)) l.
Proof.
  induction l as [|x t IH]; intros r0; cbn [fold_left flat_map]; [now rewrite app_nil_r|].
  rewrite IH, add_view, spec_add_list. now rewrite app_assoc.
Qed.

(* associativity fails on the list-all flags: a falsy operand is skipped together with its `_all_names` *)
Definition mono_a : pres := pr_init (RList [TStr [117%N]]) (Some [120%N]) false true.     (* PR(['u'],'x',asList=False) *)
Definition mono_b : pres := pr_init (RList []) (Some [120%N]) true false.                 (* PR([],'x',modal=False) : falsy, list-all x *)
Definition mono_c : pres := pr_init (RList [TStr [118%N]]) (Some [120%N]) false true.     (* PR(['v'],'x',asList=False) *)
Lemma add_assoc_refuted :
  getitem_name (add (add mono_a mono_b) mono_c) [120%N] = Some (TStr [118%N]) /\
  getitem_name (add mono_a (add mono_b mono_c)) [120%N] = Some (TPR (pr_of_list [TStr [117%N]; TStr [118%N]])).
Proof. split; vm_compute; reflexivity. Qed.

(* ------------------------------------------------------------------------------------------------------ *)
(* the well-formedness invariant of reachable results: distinct keys, no empty occurrence list               *)
(* ------------------------------------------------------------------------------------------------------ *)
Definition wf_dict (d : list (str * list (tok * Z))) : Prop :=
  NoDup (map fst d) /\ Forall (fun kv => snd kv <> []) d.
Definition wf (r : pres) : Prop := wf_dict (dict r).

Lemma dict_set_keys {V} (d : list (str * V)) k v k' :
  In k' (map fst (dict_set d k v)) -> In k' (map fst d) \/ k' = k.
Proof.
  induction d as [|[k0 v0] d IH]; simpl; [intros [<-|[]]; auto|].
  destruct (str_eqb k0 k) eqn:E; simpl; intros [<-|H]; auto. destruct (IH H); auto.
Qed.
Lemma dict_set_wf d k v : wf_dict d -> v <> [] -> wf_dict (dict_set d k v).
Proof.
  intros [Hn Hf] Hv. induction d as [|[k0 v0] d IH]; simpl.
  - split; [repeat constructor; auto|repeat constructor; exact Hv].
  - inversion Hn as [|? ? Hnotin Hn']; subst. inversion Hf as [|? ? Hv0 Hf']; subst.
    destruct (str_eqb k0 k) eqn:E.
    + split; [simpl; constructor; assumption|constructor; [exact Hv|exact Hf']].
    + destruct (IH Hn' Hf') as [IH1 IH2]. split; [|constructor; assumption].
      simpl. constructor; [|exact IH1]. intros Hin. destruct (dict_set_keys _ _ _ _ Hin) as [H| ->]; [contradiction|].
      rewrite str_eqb_refl in E. discriminate.
Qed.
Lemma dict_del_keys {V} (d : list (str * V)) k k' : In k' (map fst (dict_del d k)) -> In k' (map fst d).
Proof. induction d as [|[k0 v0] d IH]; simpl; [auto|]. destruct (str_eqb k0 k); simpl; intros H; [auto|destruct H; auto]. Qed.
Lemma dict_del_wf d k : wf_dict d -> wf_dict (dict_del d k).
Proof.
  intros [Hn Hf]. induction d as [|[k0 v0] d IH]; simpl; [split; constructor|].
  inversion Hn; subst. inversion Hf; subst. destruct (str_eqb k0 k); [split; assumption|].
  destruct (IH H2 H4) as [IH1 IH2]. split; [|constructor; assumption].
  simpl. constructor; [|exact IH1]. intros Hin. apply dict_del_keys in Hin. contradiction.
Qed.
Lemma map_positions_wf f d : wf_dict d -> wf_dict (map_positions f d).
Proof.
  intros [Hn Hf]. split.
  - unfold map_positions. rewrite map_map. simpl. exact Hn.
  - unfold map_positions. rewrite Forall_map. eapply Forall_impl; [|exact Hf]. intros [k occ] H. simpl in *. destruct occ; [contradiction|discriminate].
Qed.

Lemma setname_wf r k v p : wf r -> wf (pr_setname r k v p).
Proof. intros H. unfold wf, pr_setname. simpl. apply dict_set_wf; [exact H|]. destruct (dict_get (dict r) k) as [[|? ?]|]; discriminate. Qed.

Lemma iadd_wf a b : wf a -> wf (pr_iadd a b).
Proof.
  intros H. unfold pr_iadd. destruct (negb (pr_bool b)); [exact H|]. cbv zeta. unfold wf. simpl dict.
  match goal with |- wf_dict (dict (fold_left ?f ?items a)) => generalize items end.
  intros items. revert a H. induction items as [|[[k v] p] t IH]; intros a H; simpl; [exact H|]. apply IH. now apply setname_wf.
Qed.

Lemma apply_op_wf : forall r o, wf r -> wf (fst (apply_op r o)).
Proof.
  intros r o H. destruct o; cbn [apply_op fst]; try exact H.
  - unfold opt_tok. destruct (getitem_int r i); exact H.
  - unfold opt_tok. destruct (getitem_name r k); exact H.
  - unfold opt_state, setitem_int. destruct (py_setitem (toks r) i v); exact H.
  - unfold opt_state, setitem_slice. destruct (py_setslice (toks r) s vs); exact H.
  - now apply setname_wf.
  - now apply setname_wf.
  - unfold opt_state, delitem_int. destruct (py_delitem (toks r) i); [|exact H].
    destruct (slice_indices _ _) as [[[a b] c]|]; [|exact H]. cbn [fst]. unfold wf. simpl. now apply map_positions_wf.
  - unfold opt_state, delitem_slice. destruct (py_delslice (toks r) s); [|exact H].
    destruct (slice_indices _ _) as [[[a b] c]|]; [|exact H]. cbn [fst]. unfold wf. simpl. now apply map_positions_wf.
  - unfold opt_state, delitem_name. destruct (contains r k); [|exact H]. cbn [fst]. unfold wf. simpl. now apply dict_del_wf.
  - (* pop *)
    unfold pop. destruct badkw; [exact H|].
    destruct (match a0 with Some a => a | None => PKInt (-1) end) as [i|k].
    + destruct (getitem_int r i); [|exact H]. unfold delitem_int. destruct (py_delitem (toks r) i); [|exact H].
      destruct (slice_indices _ _) as [[[a b] c]|]; [|exact H]. cbn [fst]. unfold wf. simpl. now apply map_positions_wf.
    + destruct (match match kwdefault with Some d => [d] | None => extra end with [] => true | _ :: _ => contains r k end); [|exact H].
      destruct (getitem_name r k); [|exact H]. unfold delitem_name. destruct (contains r k); [|exact H].
      cbn [fst]. unfold wf. simpl. now apply dict_del_wf.
  - (* insert *) unfold wf, insert. simpl. now apply map_positions_wf.
  - now apply iadd_wf.
  - unfold wf, clear. simpl. split; constructor.
  - now apply iadd_wf.
Qed.

Lemma run_ops_wf : forall ops r, wf r -> wf (snd (run_ops r ops)).
Proof.
  induction ops as [|o ops IH]; intros r H; simpl; [exact H|].
  pose proof (apply_op_wf r o H) as H1. destruct (apply_op r o) as [r1 res]. cbn [fst] in H1.
  specialize (IH r1 H1). destruct (run_ops r1 ops). exact IH.
Qed.

(* every constructor call yields a well-formed result (given a well-formed argument when that is a ParseResults) *)
Lemma set_last_value_name_wf r k : wf r -> wf (set_last_value_name r k).
Proof.
  intros H. unfold set_last_value_name. destruct (name_in k (allnames r)); [exact H|].
  destruct (dict_get (dict r) k) as [occ|]; [|exact H]. destruct (rev occ) as [|[[| | | | |v] p] rest]; try exact H.
  unfold wf. simpl. apply dict_set_wf; [exact H|]. destruct (rev rest); discriminate.
Qed.
Lemma pr_new_wf x : (forall r, x = RPR r -> wf r) -> wf (pr_new x).
Proof. intros H. destruct x as [s|v|l|r]; simpl; try (split; constructor). - destruct v; split; constructor. - now apply H. Qed.
Lemma pr_init_gen_wf g x name asList modal_ : (forall r, x = RPR r -> wf r) -> wf (pr_init_gen g x name asList modal_).
Proof.
  intros Hx. pose proof (pr_new_wf x Hx) as H0. unfold pr_init_gen.
  destruct name as [[|c n]|]; try exact H0.
  cbv zeta. destruct (raw_is_null x); [exact H0|].
  destruct asList.
  - match goal with |- wf (if ?b then ?a else ?c) => assert (Ha : wf a) end.
    { apply set_last_value_name_wf. apply setname_wf. exact H0. }
    destruct (name_in _ _); [exact Ha|]. destruct x as [s|v|l|r]; [exact Ha|destruct v; exact Ha|exact Ha|exact Ha].
  - destruct x as [s|v|l|r].
    + apply setname_wf. exact H0.
    + destruct v; try (apply setname_wf; exact H0). destruct l; [exact H0|apply setname_wf; exact H0].
    + destruct l; [exact H0|apply setname_wf; exact H0].
    + destruct (toks r); [exact H0|apply setname_wf; exact H0].
Qed.

(* under wf a present name always has a value: r[name] never raises IndexError *)
Lemma wf_lookup r k : wf r -> contains r k = true -> exists v, pr_getname r k = Some v.
Proof.
  intros [_ Hf] Hc. unfold contains in Hc. unfold pr_getname.
  destruct (dict_get (dict r) k) as [occ|] eqn:E; [|discriminate].
  destruct (name_in k (allnames r)); [eauto|].
  assert (occ <> []).
  { clear Hc. induction (dict r) as [|[k0 v0] d IH]; simpl in E; [discriminate|]. inversion Hf; subst.
    destruct (str_eqb k0 k); [injection E as <-; assumption|auto]. }
  destruct occ as [|x t] using rev_ind; [contradiction|]. rewrite rev_app_distr. simpl. destruct x. eauto.
Qed.
Lemma lookup_forms_agree_wf : forall r k, wf r -> contains r k = true ->
  exists v, getitem_name r k = Some v /\ getattr r k = RTok v /\ forall d, get r k d = v.
Proof.
  intros r k Hw Hc. destruct (wf_lookup r k Hw Hc) as [v E]. exists v. repeat split.
  - exact E.
  - unfold getattr. now rewrite E.
  - intros d. unfold get, lookup_present. now rewrite Hc, E.
Qed.
