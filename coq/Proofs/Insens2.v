(* C09 (model part, continued): Proofs/Insens.v without the `norep` restriction, the interior (And-level) statement, and
   comments skipped by `ignore()`.

   Part 1.  Suffix locality and absorption of leading whitespace for every grammar of forward-looking tokens
            (`fwd_class`), ZeroOrMore / OneOrMore (with or without stop_on), DelimitedList's wrapper and Each with
            repeatable operands included.  The loops of the reading run on a fuel derived from the length of the text
            (`length s + 3`, `each_fuel (length s) ..`); a prefix changes that fuel.  `peg_bnd` shows that a successful
            reading never moves backwards and, when it advances, ends at most at `length s + 1`; hence a loop that
            advances in every round needs at most `length s + 2 - loc` rounds and its result does not depend on the
            fuel beyond that (`star_fuel`, `star_stop_fuel`, `each_loop_fuel`).
   Part 2.  The interior statement for sequences.
   Part 3.  Comments: the pre-parse of an element carrying an ignore expression absorbs an inserted comment. *)
From Coq Require Import List ZArith NArith Bool Arith Lia.
From PP Require Import Model.Str Model.Results Model.Prog Model.Core Model.Peg Proofs.PegEquiv Proofs.EachFacts
  Proofs.ScanProofs Proofs.LocBound Proofs.Insens.
Import ListNotations.

(* ------------------------------------------------------------------------------------------- *)
(* Part 1a: where a successful reading ends                                                      *)
(* ------------------------------------------------------------------------------------------- *)
Definition bnd (s : str) (loc : nat) (r : res) : Prop :=
  match r with POk l _ => loc <= l /\ l <= Nat.max loc (length s + 1) | _ => True end.

Ltac bfacts :=
  repeat match goal with
         | E : at_ _ _ = None |- _ => apply at_none in E
         | E : at_ _ _ = Some _ |- _ => apply at_some in E
         | E : (_ <? _)%nat = true |- _ => apply Nat.ltb_lt in E
         | E : (_ <? _)%nat = false |- _ => apply Nat.ltb_ge in E
         | E : (_ =? _)%nat = true |- _ => apply Nat.eqb_eq in E
         | E : (_ =? _)%nat = false |- _ => apply Nat.eqb_neq in E
         end.

Ltac bfin H := try discriminate H; injection H as <- _; bfacts; cbn [length] in *; try lia.

Lemma span_bnd s loc maxl p : loc < length s ->
  S loc <= run_while (length s) s (S loc) (len_cap loc maxl (length s)) p <= length s.
Proof.
  intros H. pose proof (run_while_ge (length s) s p (S loc) (len_cap loc maxl (length s))).
  pose proof (run_while_le (length s) s p (S loc) (len_cap loc maxl (length s))).
  pose proof (LocBound.len_cap_le loc maxl (length s)). lia.
Qed.

Lemma tok_fwd_bnd a t s loc l r : forward_token t = true -> tok_impl a t s loc = IOk l r ->
  loc <= l /\ l <= Nat.max loc (length s + 1).
Proof.
  intros Hf H. destruct t; try discriminate Hf; unfold tok_impl in H; cbv zeta in H.
  - (* KLit *)
    destruct m as [|c [|c2 m']].
    + destruct (at_ s loc) eqn:E; [|discriminate]. simpl in H. bfin H.
    + destruct (at_ s loc) as [d|] eqn:E; [|discriminate]. destruct (N.eqb d c); bfin H.
    + destruct (at_ s loc) eqn:E; [|discriminate].
      destruct (startswith_at s loc (c :: c2 :: m')) eqn:Es; [|discriminate].
      apply at_some in E. apply startswith_len in Es; [|lia]. bfin H.
  - (* KCaselessLit *)
    destruct (str_eqb _ upper_m) eqn:E; [|discriminate].
    apply slice_match in E; [|lia]. bfin H.
  - (* KWord *)
    simpl in Hf. destruct askw; [discriminate|].
    destruct (at_ s loc) as [c0|] eqn:E0; [|destruct use_re; discriminate].
    apply at_some in E0. pose proof (span_bnd s loc maxl (fun c => mem_char c body) E0) as Hsp.
    set (e := run_while _ _ _ _ _) in *. clearbody e.
    destruct use_re.
    + destruct (negb (mem_char c0 init)); [discriminate|]. cbn [andb negb orb] in H.
      destruct (Nat.ltb (e - loc) minl); bfin H.
    + destruct (negb (mem_char c0 init)); [discriminate|]. cbn [andb] in H.
      destruct (Nat.ltb (e - loc) minl); bfin H.
  - (* KNotIn *)
    destruct (at_ s loc) as [c0|] eqn:E0; [|discriminate]. apply at_some in E0.
    pose proof (span_bnd s loc maxl (fun c => negb (mem_char c notchars)) E0) as Hsp.
    set (e := run_while _ _ _ _ _) in *. clearbody e.
    destruct (mem_char c0 notchars); [discriminate|]. destruct (Nat.ltb (e - loc) minl); bfin H.
  - (* KWhite *)
    destruct (at_ s loc) as [c0|] eqn:E0; [|discriminate]. apply at_some in E0.
    pose proof (span_bnd s loc maxl (fun c => mem_char c ws) E0) as Hsp.
    set (e := run_while _ _ _ _ _) in *. clearbody e.
    destruct (negb (mem_char c0 ws)); [discriminate|]. destruct (Nat.ltb (e - loc) minl); bfin H.
  - bfin H.
  - discriminate.
  - (* KLineEnd *)
    destruct (Nat.ltb loc (length s)) eqn:E1.
    + destruct (at_ s loc); [destruct (N.eqb c NL)|]; bfin H.
    + destruct (Nat.eqb loc (length s)) eqn:E2; bfin H.
  - (* KStringEnd *)
    destruct (Nat.ltb loc (length s)) eqn:E1; [discriminate|]. destruct (Nat.eqb loc (length s)) eqn:E2; bfin H.
Qed.

Lemma bnd_mono s l l1 r : l <= l1 -> l1 <= Nat.max l (length s + 1) -> bnd s l1 r -> bnd s l r.
Proof. intros H1 H2. destruct r; simpl; try exact (fun x => x). lia. Qed.

Definition fwdP (e : expr) : Prop := fwd_class e = true.

Lemma fwd_named_copy b n : fwd_class (named_copy b n) = fwd_class b.
Proof. destruct b; reflexivity. Qed.

Lemma fwdP_rep a i z b ne : fwdP (Rep a i z b ne) -> fwdP (snd (rep_operand (Rep a i z b ne) b)).
Proof.
  unfold fwdP, rep_operand. intros H. simpl in H. apply andb_prop in H as [H _].
  destruct (rsname (attrs_of (Rep a i z b ne))); cbn [snd]; [rewrite fwd_named_copy|]; exact H.
Qed.

Lemma fwdP_opt a i dflt b : fwdP (Enh a i (EOpt dflt) b) -> fwdP b.
Proof. exact (fun H => H). Qed.

Lemma fwd_all es e :
  (fix all (l : list expr) : bool := match l with [] => true | x :: r => fwd_class x && all r end) es = true ->
  In e es -> fwd_class e = true.
Proof.
  induction es as [|x es IH]; intros H []; apply andb_prop in H as [H1 H2]; [subst; exact H1|apply IH; assumption].
Qed.

Lemma fwd_all_Forall es :
  (fix all (l : list expr) : bool := match l with [] => true | x :: r => fwd_class x && all r end) es = true ->
  Forall fwdP es.
Proof. intros H. apply Forall_forall. intros e Hin. eapply fwd_all; eassumption. Qed.

Lemma remove_cls_len c : forall l, length (remove_cls c l) <= length l.
Proof. induction l as [|en l IH]; simpl; [lia|]. destruct (Nat.eqb (ee_cls en) c); simpl; lia. Qed.

Section Bnd.
Variable s : str.
Variable rec : expr -> nat -> res.
Definition recB (e : expr) : Prop := forall l, bnd s l (rec e l).
Hypothesis Hrec : forall e, fwdP e -> recB e.

Lemma seq_bnd es : Forall fwdP es -> forall l acc, bnd s l (peg_seq rec es l acc).
Proof.
  induction 1 as [|e es He Hes IH]; intros l acc; simpl; [lia|].
  pose proof (Hrec e He l) as Hb. destruct (rec e l) as [l1 ts| | |]; try exact I.
  simpl in Hb. eapply bnd_mono; [| |apply IH]; lia.
Qed.

Lemma first_bnd es : Forall fwdP es -> forall l, bnd s l (peg_first rec es l).
Proof.
  induction 1 as [|e es He Hes IH]; intros l; simpl; [exact I|].
  pose proof (Hrec e He l) as Hb. destruct (rec e l) as [l1 ts| | |]; try exact I; [exact Hb|apply IH].
Qed.

Definition best_bnd (l : nat) (best : option (nat * list tok)) : Prop :=
  match best with Some (bl, _) => l <= bl /\ bl <= Nat.max l (length s + 1) | None => True end.

Lemma longest_bnd es : Forall fwdP es -> forall l best, best_bnd l best -> bnd s l (peg_longest rec es l best).
Proof.
  induction 1 as [|e es He Hes IH]; intros l best Hbest; simpl.
  - destruct best as [[bl ts]|]; [exact Hbest|exact I].
  - pose proof (Hrec e He l) as Hb. destruct (rec e l) as [l1 ts| | |]; try exact I.
    + apply IH. destruct best as [[bl bts]|]; [|exact Hb]. destruct (Nat.ltb bl l1); [exact Hb|exact Hbest].
    + apply IH. exact Hbest.
Qed.

Lemma star_bnd e : fwdP e -> forall n l acc, bnd s l (peg_star rec n e l acc).
Proof.
  intros He. induction n as [|n IH]; intros l acc; simpl; [exact I|].
  pose proof (Hrec e He l) as Hb. destruct (rec e l) as [l1 ts| | |]; try exact I; [|simpl; lia].
  destruct (Nat.eqb l1 l); [exact I|]. simpl in Hb. eapply bnd_mono; [| |apply IH]; lia.
Qed.

Lemma star_stop_bnd e ender : fwdP e -> forall n l acc, bnd s l (peg_star_stop rec n e ender l acc).
Proof.
  intros He. induction n as [|n IH]; intros l acc; simpl; [exact I|].
  destruct (rec ender l) as [le tse| | |]; try exact I; [|simpl; lia].
  pose proof (Hrec e He l) as Hb. destruct (rec e l) as [l1 ts| | |]; try exact I; [|simpl; lia].
  destruct (Nat.eqb l1 l); [exact I|]. simpl in Hb. eapply bnd_mono; [| |apply IH]; lia.
Qed.

(* the rounds of '&': what reaches the continuation *)
Lemma each_round_Q (Q : res -> Prop) es : Q PDiv -> Q POut -> Forall fwdP es ->
  forall cands l reqd opt mo nf k, entsP fwdP cands -> entsP fwdP reqd -> entsP fwdP opt -> Forall fwdP mo ->
  (forall l' r o m nf', entsP fwdP r -> entsP fwdP o -> Forall fwdP m -> Q (k l' r o m nf')) ->
  Q (peg_each_round rec es cands l reqd opt mo nf k).
Proof.
  intros QD QO Hes. induction cands as [|en rest IH]; intros l reqd opt mo nf k Hc Hr Ho Hm Hk; cbn [peg_each_round].
  - apply Hk; assumption.
  - inversion Hc as [|? ? Hen Hrest]; subst.
    destruct (rec (ee_e en) l) as [l' ts| | |]; try assumption.
    + assert (Hm' : Forall fwdP (mo ++ [each_order es en])).
      { apply Forall_app. split; [exact Hm|]. constructor; [|constructor]. apply each_order_P; assumption. }
      destruct (mem_cls (ee_cls en) reqd); [apply IH; try assumption; apply entsP_remove; assumption|].
      destruct (mem_cls (ee_cls en) opt); [apply IH; try assumption; apply entsP_remove; assumption|].
      apply IH; assumption.
    + apply IH; assumption.
Qed.

Lemma each_loop_Q (Q : res -> Prop) es multis : Q PDiv -> Q POut -> Forall fwdP es -> entsP fwdP multis ->
  forall fuel l reqd opt mo k, entsP fwdP reqd -> entsP fwdP opt -> Forall fwdP mo ->
  (forall r o m, entsP fwdP r -> entsP fwdP o -> Forall fwdP m -> Q (k r o m)) ->
  Q (peg_each_loop rec es fuel l reqd opt multis mo k).
Proof.
  intros QD QO Hes Hmu. induction fuel as [|f IH]; intros l reqd opt mo k Hr Ho Hm Hk; cbn [peg_each_loop]; [exact QD|].
  apply each_round_Q; try assumption.
  - apply entsP_app; [exact Hr|]. apply entsP_app; assumption.
  - intros l' r o m nf' Hr' Ho' Hm'. destruct (Nat.eqb nf' _); [apply Hk; assumption|].
    destruct (_ && _); [exact QD|]. apply IH; assumption.
Qed.

Lemma each_bnd es info l : Forall fwdP es -> bnd s l (peg_each s rec es info l).
Proof.
  intros Hes. unfold peg_each. cbv zeta.
  destruct (each_groups_P fwdP fwdP_rep fwdP_opt es info Hes) as (H1 & H2 & H3 & H4 & _).
  apply (each_loop_Q (bnd s l)); try assumption; try exact I; try constructor.
  - apply entsP_app; assumption.
  - intros r o m Hr Ho Hm. destruct r; [|exact I]. apply seq_bnd.
    apply Forall_app. split; [exact Hm|]. apply each_unmatched_P. exact Hes.
Qed.
End Bnd.

Lemma eff_bnd s e l : l <= eff s e l /\ eff s e l <= Nat.max l (length s + 1).
Proof.
  unfold eff. destruct (_ && _); [|lia].
  pose proof (skip_white_ge s l (white (attrs_of e))). pose proof (skip_white_le s l (white (attrs_of e))). lia.
Qed.

Section PegBnd.
Variable G : env.
Hypothesis HG : forallb fwd_class G = true.
Variable s : str.

Theorem peg_bnd : forall f e, fwdP e -> recB s (peg G s f) e.
Proof.
  induction f as [|f IH]; intros e He loc0; [exact I|].
  cbn [peg]. pose proof (eff_bnd s e loc0) as HL. set (L := eff s e loc0) in *.
  assert (Hup : forall r, bnd s L r -> bnd s loc0 r) by (intros r; apply bnd_mono; lia).
  apply Hup.
  destruct e as [a i t|a i kd es|a i kd c|a i z b ne|a i c inc ig fo|a i id]; unfold fwdP in He; simpl in He; try discriminate He.
  - cbn [attrs_of]. destruct (tok_impl a t s L) as [l r| |] eqn:E; try exact I.
    simpl. eapply tok_fwd_bnd; eassumption.
  - apply fwd_all_Forall in He. destruct kd.
    + apply seq_bnd; assumption.
    + apply first_bnd; assumption.
    + cbn [attrs_of]. set (L1 := if forallb _ es then _ else L).
      assert (L <= L1 /\ L1 <= Nat.max L (length s + 1)) as HL1.
      { unfold L1. destruct (forallb _ es); [|lia]. destruct (skipws a); [|lia].
        pose proof (skip_white_ge s L (white a)). pose proof (skip_white_le s L (white a)). lia. }
      eapply bnd_mono; [| |apply longest_bnd; [exact IH|exact He|exact I]]; lia.
    + apply each_bnd; assumption.
  - pose proof (IH c He L) as Hc.
    destruct kd; try exact I; try (destruct aspy; [exact I|]); destruct (peg G s f c L) as [l ts| | |]; try exact I;
      simpl in *; try lia; exact Hc.
  - apply andb_prop in He as [Hb Hne]. pose proof (IH b Hb L) as Hbb.
    destruct ne as [n|].
    + destruct (peg G s f n L) as [le tse| | |]; try exact I; [|destruct z; simpl; try lia; exact I].
      destruct (peg G s f b L) as [l ts| | |]; try exact I; [|destruct z; simpl; try lia; exact I].
      simpl in Hbb. eapply bnd_mono; [| |apply star_stop_bnd; [exact IH|exact Hb]]; lia.
    + destruct (peg G s f b L) as [l ts| | |]; try exact I; [|destruct z; simpl; try lia; exact I].
      simpl in Hbb. eapply bnd_mono; [| |apply star_bnd; [exact IH|exact Hb]]; lia.
  - destruct id as [id|]; [|exact I]. destruct (nth_error G id) as [c|] eqn:E; [|exact I].
    apply IH. rewrite forallb_forall in HG. apply HG. eapply nth_error_In. exact E.
Qed.
End PegBnd.

(* ------------------------------------------------------------------------------------------- *)
(* Part 1b: the loops do not depend on their fuel once it exceeds the number of characters left   *)
(* ------------------------------------------------------------------------------------------- *)
Section Fuel.
Variable s : str.
Variable rec : expr -> nat -> res.

Lemma star_fuel e : recB s rec e -> forall n1 n2 l acc,
  S (length s + 1 - l) <= n1 -> S (length s + 1 - l) <= n2 ->
  peg_star rec n1 e l acc = peg_star rec n2 e l acc.
Proof.
  intros He. induction n1 as [|n1 IH]; intros n2 l acc H1 H2; [lia|].
  destruct n2 as [|n2]; [lia|]. simpl.
  pose proof (He l) as Hb. destruct (rec e l) as [l1 ts| | |]; try reflexivity.
  destruct (Nat.eqb l1 l) eqn:E; [reflexivity|]. apply Nat.eqb_neq in E. simpl in Hb. apply IH; lia.
Qed.

Lemma star_stop_fuel e ender : recB s rec e -> forall n1 n2 l acc,
  S (length s + 1 - l) <= n1 -> S (length s + 1 - l) <= n2 ->
  peg_star_stop rec n1 e ender l acc = peg_star_stop rec n2 e ender l acc.
Proof.
  intros He. induction n1 as [|n1 IH]; intros n2 l acc H1 H2; [lia|].
  destruct n2 as [|n2]; [lia|]. simpl.
  destruct (rec ender l) as [le tse| | |]; try reflexivity.
  pose proof (He l) as Hb. destruct (rec e l) as [l1 ts| | |]; try reflexivity.
  destruct (Nat.eqb l1 l) eqn:E; [reflexivity|]. apply Nat.eqb_neq in E. simpl in Hb. apply IH; lia.
Qed.

Hypothesis Hrec : forall e, fwdP e -> recB s rec e.

Lemma each_round_eq es : Forall fwdP es ->
  forall cands l reqd opt mo nf k1 k2, entsP fwdP cands -> entsP fwdP reqd -> entsP fwdP opt -> Forall fwdP mo ->
  (forall l' r o m nf', l <= l' -> l' <= Nat.max l (length s + 1) -> length r <= length reqd -> length o <= length opt ->
                        entsP fwdP r -> entsP fwdP o -> Forall fwdP m -> k1 l' r o m nf' = k2 l' r o m nf') ->
  peg_each_round rec es cands l reqd opt mo nf k1 = peg_each_round rec es cands l reqd opt mo nf k2.
Proof.
  intros Hes. induction cands as [|en rest IH]; intros l reqd opt mo nf k1 k2 Hc Hr Ho Hm Hk; cbn [peg_each_round].
  - apply Hk; try assumption; lia.
  - inversion Hc as [|? ? Hen Hrest]; subst.
    pose proof (Hrec _ Hen l) as Hb.
    destruct (rec (ee_e en) l) as [l' ts| | |]; try reflexivity.
    + simpl in Hb.
      assert (Hm' : Forall fwdP (mo ++ [each_order es en])).
      { apply Forall_app. split; [exact Hm|]. constructor; [|constructor]. apply each_order_P; assumption. }
      pose proof (remove_cls_len (ee_cls en) reqd) as Lr. pose proof (remove_cls_len (ee_cls en) opt) as Lo.
      destruct (mem_cls (ee_cls en) reqd).
      { apply IH; try assumption; [apply entsP_remove; assumption|].
        intros l'' r o m nf' A B C D. apply Hk; lia. }
      destruct (mem_cls (ee_cls en) opt).
      { apply IH; try assumption; [apply entsP_remove; assumption|].
        intros l'' r o m nf' A B C D. apply Hk; lia. }
      apply IH; try assumption. intros l'' r o m nf' A B C D. apply Hk; lia.
    + apply IH; assumption.
Qed.

Lemma each_loop_fuel es multis : Forall fwdP es -> entsP fwdP multis ->
  forall f1 f2 l reqd opt mo k, entsP fwdP reqd -> entsP fwdP opt -> Forall fwdP mo ->
  S ((length s + 1 - l) + length reqd + length opt) <= f1 ->
  S ((length s + 1 - l) + length reqd + length opt) <= f2 ->
  peg_each_loop rec es f1 l reqd opt multis mo k = peg_each_loop rec es f2 l reqd opt multis mo k.
Proof.
  intros Hes Hmu. induction f1 as [|f1 IH]; intros f2 l reqd opt mo k Hr Ho Hm H1 H2; [lia|].
  destruct f2 as [|f2]; [lia|]. cbn [peg_each_loop].
  apply each_round_eq; try assumption.
  - apply entsP_app; [exact Hr|]. apply entsP_app; assumption.
  - intros l' r o m nf' A B C D Hr' Ho' Hm'.
    destruct (Nat.eqb nf' _); [reflexivity|].
    destruct (Nat.eqb l' l && Nat.eqb (length r) (length reqd) && Nat.eqb (length o) (length opt)) eqn:E; [reflexivity|].
    assert (l' <> l \/ length r <> length reqd \/ length o <> length opt) as Hne.
    { apply andb_false_iff in E as [E|E]; [apply andb_false_iff in E as [E|E]|]; apply Nat.eqb_neq in E; tauto. }
    apply IH; try assumption; lia.
Qed.
End Fuel.

(* ------------------------------------------------------------------------------------------- *)
(* Part 1c: the loops under a prefix (same fuel), then suffix locality without `norep`            *)
(* ------------------------------------------------------------------------------------------- *)
Section Shift2.
Variable n : nat.
Variables rec1 rec2 : expr -> nat -> res.

Lemma star_shift e : Rel n rec1 rec2 e -> forall fuel l acc,
  peg_star rec1 fuel e (n + l) acc = shift n (peg_star rec2 fuel e l acc).
Proof.
  intros He. induction fuel as [|f IH]; intros l acc; simpl; [reflexivity|].
  rewrite (He l). destruct (rec2 e l) as [l' ts| | |]; simpl; try reflexivity.
  rewrite eqb_shift. destruct (Nat.eqb l' l); [reflexivity|apply IH].
Qed.

Lemma star_stop_shift e ender : Rel n rec1 rec2 e -> Rel n rec1 rec2 ender -> forall fuel l acc,
  peg_star_stop rec1 fuel e ender (n + l) acc = shift n (peg_star_stop rec2 fuel e ender l acc).
Proof.
  intros He Hn. induction fuel as [|f IH]; intros l acc; simpl; [reflexivity|].
  rewrite (Hn l). destruct (rec2 ender l) as [le tse| | |]; simpl; try reflexivity.
  rewrite (He l). destruct (rec2 e l) as [l' ts| | |]; simpl; try reflexivity.
  rewrite eqb_shift. destruct (Nat.eqb l' l); [reflexivity|apply IH].
Qed.

Lemma each_shift2 s1 s2 es info l : length s1 = n + length s2 ->
  (forall e, fwdP e -> recB s2 rec2 e) -> (forall e, fwdP e -> Rel n rec1 rec2 e) -> Forall fwdP es ->
  peg_each s1 rec1 es info (n + l) = shift n (peg_each s2 rec2 es info l).
Proof.
  intros Hlen HB HR Hes. unfold peg_each. cbv zeta.
  destruct (each_groups_P fwdP fwdP_rep fwdP_opt es info Hes) as (H1 & H2 & H3 & H4 & _).
  set (reqd := each_req1 (each_zip es info) ++ each_multi true (each_zip es info)).
  set (opt := each_opt1 (each_zip es info)). set (multis := each_multi false (each_zip es info)).
  assert (Hreqd : entsP fwdP reqd) by (apply entsP_app; assumption).
  assert (toRel : forall l0, entsP fwdP l0 -> entsP (Rel n rec1 rec2) l0).
  { intros l0 H. eapply Forall_impl; [|exact H]. intros en Hen. apply HR. exact Hen. }
  assert (HesR : Forall (Rel n rec1 rec2) es) by (eapply Forall_impl; [|exact Hes]; exact HR).
  rewrite (each_loop_shift n rec1 rec2 es multis HesR (toRel _ H3) (each_fuel (length s1) reqd opt multis) l reqd opt []
             _ (fun reqd' opt' mo => match reqd' with
                                     | _ :: _ => PFail
                                     | [] => peg_seq rec2 (mo ++ flat_map (fun z : expr * each_info =>
                                               if is_opt (fst z) && mem_cls (snd (snd (snd z))) opt' then [fst z] else [])
                                               (each_zip es info)) l []
                                     end)); try (apply toRel; assumption); try constructor.
  - f_equal.
    assert (Hcase : each_fuel (length s1) reqd opt multis = each_fuel (length s2) reqd opt multis \/
                    (S (length s2 + 1 - l + length reqd + length opt) <= each_fuel (length s1) reqd opt multis /\
                     S (length s2 + 1 - l + length reqd + length opt) <= each_fuel (length s2) reqd opt multis)).
    { unfold each_fuel. destruct multis; [left; reflexivity|right; lia]. }
    destruct Hcase as [->|[A B]]; [reflexivity|].
    exact (each_loop_fuel s2 rec2 HB es multis Hes H3 _ _ l reqd opt [] _ Hreqd H4 (Forall_nil _) A B).
  - intros r o m Hr' Ho' Hm'. destruct r; [|reflexivity].
    apply seq_shift. intros e Hin. apply in_app_or in Hin as [Hin|Hin].
    + rewrite Forall_forall in Hm'. apply Hm'. exact Hin.
    + pose proof (each_unmatched_P (Rel n rec1 rec2) es info o HesR) as Hu. rewrite Forall_forall in Hu. apply Hu. exact Hin.
Qed.
End Shift2.

Section Local2.
Variable G : env.
Hypothesis HG : forallb fwd_class G = true.

(* suffix locality for every grammar of forward-looking tokens, repetitions included *)
Theorem peg_shift2 x s : forall f e k, fwd_class e = true ->
  peg G (x ++ s) f e (length x + k) = shift (length x) (peg G s f e k).
Proof.
  induction f as [|f IH]; intros e k He; [reflexivity|].
  cbn [peg]. rewrite eff_shift. set (L := eff s e k).
  assert (HR : forall c, fwdP c -> Rel (length x) (peg G (x ++ s) f) (peg G s f) c).
  { intros c Hc l. apply IH. exact Hc. }
  assert (HB : forall c, fwdP c -> recB s (peg G s f) c) by (intros c Hc; apply peg_bnd; assumption).
  destruct e as [a i t|a i kd es|a i kd c|a i z b ne|a i c inc ig fo|a i id]; simpl in He; try discriminate He.
  - (* token *)
    cbn [attrs_of]. pose proof (tok_shift a t x s L He) as H. unfold tok_peg in H.
    destruct (tok_impl a t (x ++ s) (length x + L)) as [l r|e1|]; destruct (tok_impl a t s L) as [l2 r2|e2|];
      cbn [shift]; try discriminate H; try reflexivity. injection H as H1 H2. rewrite H1, H2. reflexivity.
  - assert (Hrel : rel_on (length x) (peg G (x ++ s) f) (peg G s f) es).
    { intros e Hin l. apply IH. eapply fwd_all; eassumption. }
    destruct kd.
    + apply seq_shift. exact Hrel.
    + apply first_shift. exact Hrel.
    + cbn [attrs_of].
      assert ((if forallb (fun c => callpre (attrs_of c)) es
               then if skipws a then skip_white (x ++ s) (length x + L) (white a) else length x + L
               else length x + L) =
              length x + (if forallb (fun c => callpre (attrs_of c)) es
                          then if skipws a then skip_white s L (white a) else L else L)) as ->.
      { destruct (forallb _ es); [destruct (skipws a); [apply skip_white_app|reflexivity]|reflexivity]. }
      apply (longest_shift (length x) _ _ es Hrel _ None).
    + apply each_shift2; [apply app_length|exact HB|exact HR|apply fwd_all_Forall; exact He].
  - destruct kd; try reflexivity; try (destruct aspy; [reflexivity|]); rewrite (IH c L He); destruct (peg G s f c L) as [l ts| | |]; reflexivity.
  - (* ZeroOrMore / OneOrMore *)
    apply andb_prop in He as [Hb Hne].
    assert (Hfuel : forall l, S (length s + 1 - l) <= length (x ++ s) + 3 /\ S (length s + 1 - l) <= length s + 3)
      by (intros l; rewrite app_length; lia).
    destruct ne as [ne|].
    + rewrite (IH ne L Hne). destruct (peg G s f ne L) as [le tse| | |]; cbn [shift]; try reflexivity; [|destruct z; reflexivity].
      rewrite (IH b L Hb). destruct (peg G s f b L) as [l ts| | |]; cbn [shift]; try reflexivity; [|destruct z; reflexivity].
      rewrite (star_stop_shift (length x) _ (peg G s f) b ne (HR b Hb) (HR ne Hne)). f_equal.
      apply (star_stop_fuel s); [apply HB; exact Hb| |]; apply Hfuel.
    + rewrite (IH b L Hb). destruct (peg G s f b L) as [l ts| | |]; cbn [shift]; try reflexivity; [|destruct z; reflexivity].
      rewrite (star_shift (length x) _ (peg G s f) b (HR b Hb)). f_equal.
      apply (star_fuel s); [apply HB; exact Hb| |]; apply Hfuel.
  - destruct id as [id|]; [|reflexivity]. destruct (nth_error G id) as [c|] eqn:E; [|reflexivity].
    apply IH. rewrite forallb_forall in HG. apply HG. eapply nth_error_In. exact E.
Qed.

(* whitespace inserted in front of a skipping element is absorbed: same tokens, end shifted by its length *)
Theorem peg_absorb2 w s f e :
  fwd_class e = true -> callpre (attrs_of e) && skipws (attrs_of e) = true ->
  (forall c, In c w -> mem_char c (white (attrs_of e)) = true) ->
  peg G (w ++ s) f e 0 = shift (length w) (peg G s f e 0).
Proof.
  intros He Hp Hw.
  rewrite <- (peg_shift2 w s f e 0 He). rewrite Nat.add_0_r.
  apply (peg_eff_eq G). unfold eff. rewrite Hp.
  rewrite (skip_white_absorb w s _ Hw).
  replace (length w) with (length w + 0) at 2 by lia. rewrite skip_white_app. reflexivity.
Qed.

(* ... at any position |x| at which such an element is started *)
Theorem peg_absorb_at x w s f e :
  fwd_class e = true -> callpre (attrs_of e) && skipws (attrs_of e) = true ->
  (forall c, In c w -> mem_char c (white (attrs_of e)) = true) ->
  peg G (x ++ w ++ s) f e (length x) = shift (length x + length w) (peg G s f e 0).
Proof.
  intros He Hp Hw.
  replace (length x) with (length x + 0) at 1 by apply Nat.add_0_r.
  rewrite (peg_shift2 x (w ++ s) f e 0 He). rewrite (peg_absorb2 w s f e He Hp Hw).
  destruct (peg G s f e 0); simpl; try reflexivity. f_equal. apply Nat.add_assoc.
Qed.
End Local2.

Lemma norep_fwd : forall e, norep e = true -> fwd_class e = true.
Proof.
  fix IH 1. intros e. destruct e as [a i t|a i kd es|a i kd c|a i z b ne|a i c inc ig fo|a i id]; simpl; intros H;
    try discriminate H; try exact H.
  - induction es as [|x es IHes]; [reflexivity|]. apply andb_prop in H as [H1 H2].
    apply andb_true_intro. split; [apply IH; exact H1|apply IHes; exact H2].
  - apply IH. exact H.
Qed.

(* ------------------------------------------------------------------------------------------- *)
(* Part 2: whitespace at an interior token boundary of a sequence                                *)
(* ------------------------------------------------------------------------------------------- *)
(* A sequence  es1 ++ e2 :: es2  read on  u ++ w ++ v : when the reading of the prefix es1 ends exactly at |u| (the
   token boundary) and the element e2 started there skips whitespace, the rest of the reading is the reading of
   e2 :: es2 on v alone, moved by |u| + |w| -- whatever whitespace string w stands between u and v.  Hence two
   texts that differ only in the whitespace w at that boundary (insertion: w1 = [], removal: w2 = []) give the same
   tokens, PROVIDED the prefix derivation is the same on both texts.  That proviso is a hypothesis here (it is what
   fails in F-09 and F-09b); Part 2c (`lf_ok`, `and_insert_interior_lf`) discharges it for prefixes that end in a Literal. *)
Lemma peg_seq_app rec es1 es2 : forall l acc,
  peg_seq rec (es1 ++ es2) l acc = match peg_seq rec es1 l acc with POk m ts => peg_seq rec es2 m ts | r => r end.
Proof.
  induction es1 as [|e es1 IH]; intros l acc; simpl; [reflexivity|].
  destruct (rec e l); try reflexivity. apply IH.
Qed.

Section Interior.
Variable G : env.
Hypothesis HG : forallb fwd_class G = true.

Lemma seq_tail_absorb u w v f e2 es2 acc :
  fwd_class e2 = true -> Forall fwdP es2 ->
  callpre (attrs_of e2) && skipws (attrs_of e2) = true ->
  (forall c, In c w -> mem_char c (white (attrs_of e2)) = true) ->
  peg_seq (peg G (u ++ w ++ v) f) (e2 :: es2) (length u) acc =
  shift (length u + length w) (peg_seq (peg G v f) (e2 :: es2) 0 acc).
Proof.
  intros He2 Hes2 Hp Hw. cbn [peg_seq].
  rewrite (peg_absorb_at G HG u w v f e2 He2 Hp Hw).
  destruct (peg G v f e2 0) as [l ts| | |]; cbn [shift]; try reflexivity.
  rewrite app_assoc. rewrite <- app_length. apply seq_shift.
  intros e Hin k. apply peg_shift2; [exact HG|]. rewrite Forall_forall in Hes2. apply Hes2. exact Hin.
Qed.

Theorem and_interior u w1 w2 v f a i es1 e2 es2 loc0 ts1 :
  fwd_class e2 = true -> Forall fwdP es2 ->
  callpre (attrs_of e2) && skipws (attrs_of e2) = true ->
  (forall c, In c w1 -> mem_char c (white (attrs_of e2)) = true) ->
  (forall c, In c w2 -> mem_char c (white (attrs_of e2)) = true) ->
  let e := Nary a i NAnd (es1 ++ e2 :: es2) in
  peg_seq (peg G (u ++ w1 ++ v) f) es1 (eff (u ++ w1 ++ v) e loc0) [] = POk (length u) ts1 ->
  peg_seq (peg G (u ++ w2 ++ v) f) es1 (eff (u ++ w2 ++ v) e loc0) [] = POk (length u) ts1 ->
  peg G (u ++ w1 ++ v) (S f) e loc0 = shift (length u + length w1) (peg_seq (peg G v f) (e2 :: es2) 0 ts1) /\
  peg G (u ++ w2 ++ v) (S f) e loc0 = shift (length u + length w2) (peg_seq (peg G v f) (e2 :: es2) 0 ts1).
Proof.
  intros He2 Hes2 Hp Hw1 Hw2 e H1 H2. unfold e in *. cbn [peg]. split.
  - rewrite peg_seq_app, H1. apply seq_tail_absorb; assumption.
  - rewrite peg_seq_app, H2. apply seq_tail_absorb; assumption.
Qed.

(* insertion: the accepted text is u ++ v, whitespace w is inserted at the boundary |u| *)
Corollary and_insert_interior u w v f a i es1 e2 es2 loc0 ts1 l ts :
  fwd_class e2 = true -> Forall fwdP es2 ->
  callpre (attrs_of e2) && skipws (attrs_of e2) = true ->
  (forall c, In c w -> mem_char c (white (attrs_of e2)) = true) ->
  let e := Nary a i NAnd (es1 ++ e2 :: es2) in
  peg G (u ++ v) (S f) e loc0 = POk l ts ->
  peg_seq (peg G (u ++ v) f) es1 (eff (u ++ v) e loc0) [] = POk (length u) ts1 ->
  peg_seq (peg G (u ++ w ++ v) f) es1 (eff (u ++ w ++ v) e loc0) [] = POk (length u) ts1 ->
  peg G (u ++ w ++ v) (S f) e loc0 = POk (length w + l) ts.
Proof.
  intros He2 Hes2 Hp Hw e H0 H1 H2.
  destruct (and_interior u [] w v f a i es1 e2 es2 loc0 ts1 He2 Hes2 Hp (fun c (F : In c []) => match F with end) Hw H1 H2)
    as [A B].
  fold e in A, B. cbn [app] in A. rewrite H0 in A. rewrite B.
  destruct (peg_seq (peg G v f) (e2 :: es2) 0 ts1) as [l' ts'| | |]; try discriminate A.
  cbn [shift length] in *. injection A as -> ->. f_equal. lia.
Qed.

(* removal: the accepted text is u ++ w ++ v, the whitespace w at the boundary |u| is removed *)
Corollary and_remove_interior u w v f a i es1 e2 es2 loc0 ts1 l ts :
  fwd_class e2 = true -> Forall fwdP es2 ->
  callpre (attrs_of e2) && skipws (attrs_of e2) = true ->
  (forall c, In c w -> mem_char c (white (attrs_of e2)) = true) ->
  let e := Nary a i NAnd (es1 ++ e2 :: es2) in
  peg G (u ++ w ++ v) (S f) e loc0 = POk (length w + l) ts ->
  peg_seq (peg G (u ++ w ++ v) f) es1 (eff (u ++ w ++ v) e loc0) [] = POk (length u) ts1 ->
  peg_seq (peg G (u ++ v) f) es1 (eff (u ++ v) e loc0) [] = POk (length u) ts1 ->
  peg G (u ++ v) (S f) e loc0 = POk l ts.
Proof.
  intros He2 Hes2 Hp Hw e H0 H1 H2.
  destruct (and_interior u w [] v f a i es1 e2 es2 loc0 ts1 He2 Hes2 Hp Hw (fun c (F : In c []) => match F with end) H1 H2)
    as [A B].
  fold e in A, B. cbn [app] in B. rewrite H0 in A. rewrite B.
  destruct (peg_seq (peg G v f) (e2 :: es2) 0 ts1) as [l' ts'| | |]; try discriminate A.
  cbn [shift length] in *. injection A as A ->. f_equal. lia.
Qed.
End Interior.

(* ---- a JSON-like instance:  obj = '{' key ':' val '}' ,  val = Word(digits) | Group('[' val (',' val)* ']')  ---- *)
Definition xa (id : nat) (cp asl : bool) : attrs :=
  {| nid := id; rsname := None; modalr := true; aslist := asl; skipws := true; white := [32; 10; 9; 13]%N; callpre := cp;
     mayidx := false; custom := false; hasmsg := true; acts := []; calltry := false; slen := 3 |}.
Definition xlit (c : char) (id : nat) : expr := Tok (xa id true false) [] (KLit [c]).
Definition xword (cs : list char) (id : nat) : expr := Tok (xa id true false) [] (KWord cs cs 1 None false false false).
Definition xval : expr := Fwd (xa 20 true false) [] (Some 0).
Definition xlist : expr :=
  Enh (xa 21 true true) [] (EGroup false)
    (Nary (xa 22 true true) [] NAnd
       [xlit 91%N 1; xval;
        Rep (xa 23 true true) [] true (Nary (xa 24 true true) [] NAnd [Enh (xa 25 true false) [] ESuppress (xlit 44%N 2); xval]) None;
        xlit 93%N 3]).
Definition xG : env := [Nary (xa 26 false false) [] NMatchFirst [xword [48; 49; 50; 51]%N 4; xlist]].
Definition xpre : list expr := [xlit 123%N 5; xword [107; 118]%N 6; xlit 58%N 7].
Definition xobj : expr := Nary (xa 27 true true) [] NAnd (xpre ++ xval :: [xlit 125%N 8]).
Definition xu : str := [123; 107; 58]%N.                 (* {k:        *)
Definition xv : str := [91; 49; 44; 50; 93; 125]%N.      (* [1,2]}     *)
Definition xw : str := [32; 10]%N.

Lemma xG_fwd : forallb fwd_class xG = true.
Proof. reflexivity. Qed.

Definition xresult : list tok :=
  [TStr [123%N]; TStr [107%N]; TStr [58%N]; TList [TStr [91%N]; TStr [49%N]; TStr [50%N]; TStr [93%N]]; TStr [125%N]].

(* the hypotheses of `and_insert_interior` hold of the instance, and the theorem (not a computation) gives the reading of
   the text with the inserted whitespace *)
Lemma json_instance :
  peg xG (xu ++ xv) 12 xobj 0 = POk 9 xresult /\
  peg xG (xu ++ xw ++ xv) 12 xobj 0 = POk 11 xresult.
Proof.
  assert (H0 : peg xG (xu ++ xv) 12 xobj 0 = POk 9 xresult) by (vm_compute; reflexivity).
  split; [exact H0|].
  change 11 with (length xw + 9).
  apply (and_insert_interior xG xG_fwd xu xw xv 11 (xa 27 true true) [] xpre xval [xlit 125%N 8] 0
           [TStr [123%N]; TStr [107%N]; TStr [58%N]] 9 xresult).
  - reflexivity.
  - repeat constructor.
  - reflexivity.
  - intros c [<-|[<-|[]]]; reflexivity.
  - exact H0.
  - vm_compute. reflexivity.
  - vm_compute. reflexivity.
Qed.

(* ------------------------------------------------------------------------------------------- *)
(* Part 2b: counterexamples on the faithful reading (closed witnesses)                           *)
(* ------------------------------------------------------------------------------------------- *)
(* F-09b:  (Suppress('ab') ^ DelimitedList(Word('ab'))) + ')'  on  'ab)'  and on  'ab )'.
   '^' compares the alternatives by their end position; the empty repetition that ends the DelimitedList has consumed the
   inserted blank (a skipping element consumes leading whitespace even when it then matches nothing), which makes the second
   alternative one character "longer".  The insertion point 2 is a token boundary: the ')' starts there. *)
Definition yab : list char := [97; 98]%N.
Definition ydl : expr :=
  Enh (xa 31 true true) [] EPass
    (Nary (xa 32 true true) [] NAnd
       [xword yab 33;
        Rep (xa 34 true true) [] true (Nary (xa 35 true true) [] NAnd [Enh (xa 36 true false) [] ESuppress (xlit 44%N 37); xword yab 38]) None]).
Definition yor : expr := Nary (xa 39 false false) [] NOr [Enh (xa 40 true false) [] ESuppress (Tok (xa 41 true false) [] (KLit yab)); ydl].
Definition yg : expr := Nary (xa 42 true true) [] NAnd [yor; xlit 41%N 43].

Lemma or_longest_witness :
  fwd_class yg = true /\ in_class [] yg = true /\
  peg [] ([97; 98]%N ++ [41]%N) 8 yg 0 = POk 3 [TStr [41%N]] /\
  peg [] ([97; 98]%N ++ [32]%N ++ [41]%N) 8 yg 0 = POk 4 [TStr yab; TStr [41%N]] /\
  proj (parse (step []) 8 (mkargs yg ([97; 98]%N ++ [41]%N) 0 true true)) = Some (POk 3 [TStr [41%N]]) /\
  proj (parse (step []) 8 (mkargs yg ([97; 98]%N ++ [32]%N ++ [41]%N) 0 true true)) = Some (POk 4 [TStr yab; TStr [41%N]]).
Proof. vm_compute. repeat split. Qed.

(* F-09:  Group(Keyword('a') + 'b') | Literal('a') + 'b'  on  'a b'  and on  'ab' : Keyword looks at the character that
   follows, so removing the blank between the two tokens changes the alternative taken *)
Definition zkw : expr := Tok (xa 51 true false) [] (KKeyword [97%N] [97; 98; 99]%N false [65%N]).
Definition zg : expr :=
  Nary (xa 52 false false) [] NMatchFirst
    [Enh (xa 53 true true) [] (EGroup false) (Nary (xa 54 true true) [] NAnd [zkw; xlit 98%N 55]);
     Nary (xa 56 true true) [] NAnd [xlit 97%N 57; xlit 98%N 58]].

Lemma keyword_witness :
  in_class [] zg = true /\
  peg [] ([97%N] ++ [32%N] ++ [98%N]) 8 zg 0 = POk 3 [TList [TStr [97%N]; TStr [98%N]]] /\
  peg [] ([97%N] ++ [98%N]) 8 zg 0 = POk 2 [TStr [97%N]; TStr [98%N]] /\
  proj (parse (step []) 8 (mkargs zg ([97%N] ++ [32%N] ++ [98%N]) 0 true true)) = Some (POk 3 [TList [TStr [97%N]; TStr [98%N]]]) /\
  proj (parse (step []) 8 (mkargs zg ([97%N] ++ [98%N]) 0 true true)) = Some (POk 2 [TStr [97%N]; TStr [98%N]]).
Proof. vm_compute. repeat split. Qed.

(* ------------------------------------------------------------------------------------------- *)
(* Part 3: comments.  The pre-parse of an element with one ignore expression                     *)
(* ------------------------------------------------------------------------------------------- *)
(* `preParse` = `_skipIgnorables` (rounds of: call the ignore expression until it fails), then the element's own
   whitespace.  Stated on the element semantics itself (Model/Core.v `pre_parse`, run by ANY handler `rec` of the `_parse`
   calls), because the reference reading has no ignore expressions.  What is assumed of the handler, on the positions
   |x| .. len+1 only:
     osim     - behind the inserted text it answers the ignore expression as on the original text, moved by |c|
                (Ok/Ok with the end moved, ParseException/ParseException, Div/Div, out-of-fuel/out-of-fuel);
     advances - a match of the ignore expression consumes something and ends at most at len + 1
                (so that neither `_skipIgnorables` loop runs out of its length-derived fuel). *)
Definition osim (n : nat) (o1 o2 : option outcome) : bool :=
  match o1, o2 with
  | None, None => true
  | Some (Ok l1 _), Some (Ok l2 _) => Nat.eqb l2 (n + l1)
  | Some (Err x1), Some (Err x2) => is_pe (xk x1) && is_pe (xk x2)
  | Some Div, Some Div => true
  | _, _ => false
  end.
Definition advances (len l : nat) (o : option outcome) : bool :=
  match o with Some (Ok l' _) => Nat.ltb l l' && Nat.leb l' (len + 1) | _ => true end.

Definition plain_pre (e : expr) : Prop :=
  match e with Tok _ _ (KGoToCol _) | Tok _ _ (KLineStart _ _) => False | _ => True end.

Lemma pre_parse_general fail e s loc k : plain_pre e ->
  pre_parse fail e s loc k =
  skip_ignorables fail (length s + 2) (ign_of e) s loc
    (fun loc1 => k (if skipws (attrs_of e) then skip_white s loc1 (white (attrs_of e)) else loc1)).
Proof. intros H. destruct e as [a i t| | | | |]; try reflexivity. destruct t; try reflexivity; contradiction. Qed.

Section Comment.
Variable rec : args -> option outcome.
Variable ig : expr.
Variables s1 s2 : str.
Variables n x0 : nat.
Hypothesis Hlen : length s2 = n + length s1.
Hypothesis Hshift : forall l, x0 <= l -> l <= length s1 + 1 ->
  osim n (rec (mkargs ig s1 l true true)) (rec (mkargs ig s2 (n + l) true true)) = true.
Hypothesis Hadv : forall l, x0 <= l -> l <= length s1 + 1 ->
  advances (length s1) l (rec (mkargs ig s1 l true true)) = true.
Variable Q : option outcome -> option outcome -> Prop.
Hypothesis QN : Q None None.
Hypothesis QD : Q (Some Div) (Some Div).
Variables fail1 fail2 : exn -> prg.

Definition pe_at (p : nat) : Prop := exists xe, rec (mkargs ig s1 p true true) = Some (Err xe) /\ is_pe (xk xe) = true.

Lemma inner_sim : forall F1 F2 l fnd1 fnd2 k1 k2,
  x0 <= l -> l <= length s1 + 1 ->
  S (length s1 + 1 - l) <= F1 -> S (length s1 + 1 - l) <= F2 ->
  (forall p f1 f2, l <= p -> p <= length s1 + 1 -> pe_at p ->
      (p = l /\ f1 = fnd1 /\ f2 = fnd2) \/ (l < p /\ f1 = true /\ f2 = true) ->
      Q (run rec (k1 p f1)) (run rec (k2 (n + p) f2))) ->
  Q (run rec (skip_ign_inner fail1 F1 ig s1 l fnd1 k1)) (run rec (skip_ign_inner fail2 F2 ig s2 (n + l) fnd2 k2)).
Proof.
  induction F1 as [|F1 IH]; intros F2 l fnd1 fnd2 k1 k2 Hx Hl H1 H2 Hk; [lia|].
  destruct F2 as [|F2]; [lia|]. cbn [skip_ign_inner]. unfold call. cbn [run].
  pose proof (Hshift l Hx Hl) as Hs. pose proof (Hadv l Hx Hl) as Ha.
  destruct (rec (mkargs ig s1 l true true)) as [[l1 r1|x1|]|] eqn:E1;
    destruct (rec (mkargs ig s2 (n + l) true true)) as [[l2 r2|x2|]|] eqn:E2; simpl in Hs; try discriminate Hs.
  - apply Nat.eqb_eq in Hs. subst l2. simpl in Ha. apply andb_prop in Ha as [A B].
    apply Nat.ltb_lt in A. apply Nat.leb_le in B.
    apply IH; try lia. intros p f1 f2 P1 P2 P3 P4. apply Hk; try assumption; try lia.
    right. destruct P4 as [[-> [-> ->]]|[P4 [-> ->]]]; repeat split; lia.
  - apply andb_prop in Hs as [A B]. rewrite A, B. apply Hk; try lia; [exists x1; split; [exact E1|exact A]|left; repeat split].
  - exact QD.
  - exact QN.
Qed.

Lemma rounds_sim : forall r1 r2 l k1 k2, x0 <= l -> l <= length s1 + 1 ->
  S (length s1 + 1 - l) <= r1 -> S (length s1 + 1 - l) <= r2 ->
  (forall p, l <= p -> p <= length s1 + 1 -> Q (run rec (k1 p)) (run rec (k2 (n + p)))) ->
  Q (run rec (skip_ignorables fail1 r1 [ig] s1 l k1)) (run rec (skip_ignorables fail2 r2 [ig] s2 (n + l) k2)).
Proof.
  induction r1 as [|r1 IH]; intros r2 l k1 k2 Hx Hl H1 H2 Hk; [lia|].
  destruct r2 as [|r2]; [lia|]. cbn [skip_ignorables skip_ign_pass].
  apply inner_sim; try assumption; try lia.
  intros p f1 f2 P1 P2 _ [[-> [-> ->]]|[P4 [-> ->]]]; cbn [negb].
  - apply Hk; lia.
  - assert (Nat.eqb p l = false) as -> by (apply Nat.eqb_neq; lia).
    assert (Nat.eqb (n + p) (n + l) = false) as -> by (apply Nat.eqb_neq; lia).
    apply IH; try lia. intros q Q1 Q2. apply Hk; lia.
Qed.

(* the ignore expression matches the inserted text: the first round on the new text continues as the original *)
Lemma ignorables_absorb k1 k2 : x0 <= length s1 -> 1 <= n ->
  (exists r, rec (mkargs ig s2 x0 true true) = Some (Ok (n + x0) r)) ->
  (forall p, x0 <= p -> p <= length s1 + 1 -> Q (run rec (k1 p)) (run rec (k2 (n + p)))) ->
  Q (run rec (skip_ignorables fail1 (length s1 + 2) [ig] s1 x0 k1))
    (run rec (skip_ignorables fail2 (length s2 + 2) [ig] s2 x0 k2)).
Proof.
  intros Hx0 Hn1 [r0 Hm] Hk.
  replace (length s1 + 2) with (S (length s1 + 1)) by lia. replace (length s2 + 2) with (S (length s2 + 1)) by lia.
  cbn [skip_ignorables skip_ign_pass].
  replace (length s2 + 2) with (S (length s2 + 1)) by lia.
  cbn [skip_ign_inner]. unfold call. cbn [run]. rewrite Hm.
  apply inner_sim; try lia.
  intros p f1 f2 P1 P2 [xe [Pe Pk]] [[-> [-> ->]]|[P4 [-> ->]]]; cbn [negb].
  - (* the original text has no comment here *)
    destruct (Nat.eqb (n + x0) x0); [apply Hk; lia|].
    replace (length s2 + 1) with (S (length s2)) by lia. cbn [skip_ignorables skip_ign_pass].
    replace (length s2 + 2) with (S (length s2 + 1)) by lia. cbn [skip_ign_inner]. unfold call. cbn [run].
    pose proof (Hshift x0 (le_n _) P2) as Hs. rewrite Pe in Hs.
    destruct (rec (mkargs ig s2 (n + x0) true true)) as [[l2 r2|x2|]|]; simpl in Hs; try discriminate Hs.
    apply andb_prop in Hs as [_ B]. rewrite B. cbn [negb]. apply Hk; lia.
  - assert (Nat.eqb p x0 = false) as -> by (apply Nat.eqb_neq; lia).
    assert (Nat.eqb (n + p) x0 = false) as -> by (apply Nat.eqb_neq; lia).
    apply rounds_sim; try lia. intros q Q1 Q2. apply Hk; lia.
Qed.
End Comment.

Lemma sw_insert x c s p w : length x <= p ->
  skip_white (x ++ c ++ s) (length c + p) w = length c + skip_white (x ++ s) p w.
Proof.
  intros H. replace p with (length x + (p - length x)) by lia.
  rewrite skip_white_app. rewrite app_assoc.
  replace (length c + (length x + (p - length x))) with (length (x ++ c) + (p - length x)) by (rewrite app_length; lia).
  rewrite skip_white_app. rewrite app_length. lia.
Qed.

(* inserting, where an element with the ignore expression `ig` starts its pre-parse, a text c that `ig` matches completely:
   the pre-parse reaches the same character as without it (position moved by |c|), whatever is done there (k1 / k2) *)
Theorem pre_parse_absorbs_comment (rec : args -> option outcome) (Q : option outcome -> option outcome -> Prop)
        e ig x c s fail1 fail2 k1 k2 :
  ign_of e = [ig] -> plain_pre e -> c <> [] ->
  (exists r, rec (mkargs ig (x ++ c ++ s) (length x) true true) = Some (Ok (length c + length x) r)) ->
  (forall l, length x <= l -> l <= length (x ++ s) + 1 ->
     osim (length c) (rec (mkargs ig (x ++ s) l true true)) (rec (mkargs ig (x ++ c ++ s) (length c + l) true true)) = true) ->
  (forall l, length x <= l -> l <= length (x ++ s) + 1 ->
     advances (length (x ++ s)) l (rec (mkargs ig (x ++ s) l true true)) = true) ->
  Q None None -> Q (Some Div) (Some Div) ->
  (forall p, length x <= p -> Q (run rec (k1 p)) (run rec (k2 (length c + p)))) ->
  Q (run rec (pre_parse fail1 e (x ++ s) (length x) k1)) (run rec (pre_parse fail2 e (x ++ c ++ s) (length x) k2)).
Proof.
  intros Hi Hp Hc Hm Hs Ha QN QD Hk.
  rewrite !pre_parse_general by exact Hp. rewrite Hi.
  apply (ignorables_absorb rec ig (x ++ s) (x ++ c ++ s) (length c) (length x)); try assumption.
  - rewrite !app_length. lia.
  - rewrite app_length. lia.
  - destruct c; [contradiction|simpl; lia].
  - intros p P1 P2. destruct (skipws (attrs_of e)); [|apply Hk; exact P1].
    rewrite sw_insert by exact P1. apply Hk. pose proof (skip_white_ge (x ++ s) p (white (attrs_of e))). lia.
Qed.

(* the same with the landing position observed *)
Definition obs (l : nat) : prg := Ret (Ok l pr_empty).

Corollary pre_parse_comment_lands (rec : args -> option outcome) e ig x c s p :
  ign_of e = [ig] -> plain_pre e -> c <> [] ->
  (exists r, rec (mkargs ig (x ++ c ++ s) (length x) true true) = Some (Ok (length c + length x) r)) ->
  forallb (fun l => osim (length c) (rec (mkargs ig (x ++ s) l true true)) (rec (mkargs ig (x ++ c ++ s) (length c + l) true true))
                    && advances (length (x ++ s)) l (rec (mkargs ig (x ++ s) l true true)))
          (seq (length x) (length s + 2)) = true ->
  run rec (pre_parse escape e (x ++ s) (length x) obs) = Some (Ok p pr_empty) ->
  run rec (pre_parse escape e (x ++ c ++ s) (length x) obs) = Some (Ok (length c + p) pr_empty).
Proof.
  intros Hi Hp Hc Hm Hall H1.
  assert (Hl : forall l, length x <= l -> l <= length (x ++ s) + 1 ->
            osim (length c) (rec (mkargs ig (x ++ s) l true true)) (rec (mkargs ig (x ++ c ++ s) (length c + l) true true)) = true /\
            advances (length (x ++ s)) l (rec (mkargs ig (x ++ s) l true true)) = true).
  { intros l A B. rewrite forallb_forall in Hall. apply andb_prop. apply Hall. apply in_seq. rewrite app_length in B. lia. }
  revert p H1.
  apply (pre_parse_absorbs_comment rec
           (fun o1 o2 => forall p, o1 = Some (Ok p pr_empty) -> o2 = Some (Ok (length c + p) pr_empty))
           e ig x c s escape escape obs obs Hi Hp Hc Hm).
  - intros l A B. apply (Hl l A B).
  - intros l A B. apply (Hl l A B).
  - discriminate.
  - discriminate.
  - intros q _ p. unfold obs. cbn [run]. intros E. injection E as ->. reflexivity.
Qed.

(* an instance:  Literal('b').ignore('#' + CharsNotIn('\n'))  started at 1 on  'a\nb'  and on  'a #hi\nb' ; the handler is
   the parser itself *)
Definition cig : expr :=
  Enh (xa 61 true false) [] ESuppress
    (Nary (xa 62 true true) [] NAnd [xlit 35%N 63; Tok (xa 64 true false) [] (KNotIn [10%N] 1 None)]).
Definition celt : expr := Tok (xa 65 true false) [cig] (KLit [98%N]).

Lemma comment_instance :
  run (parse (step []) 6) (pre_parse escape celt ([97%N] ++ [10; 98]%N) 1 obs) = Some (Ok 2 pr_empty) /\
  run (parse (step []) 6) (pre_parse escape celt ([97%N] ++ [32; 35; 104; 105]%N ++ [10; 98]%N) 1 obs) = Some (Ok 6 pr_empty).
Proof.
  assert (H1 : run (parse (step []) 6) (pre_parse escape celt ([97%N] ++ [10; 98]%N) 1 obs) = Some (Ok 2 pr_empty))
    by (vm_compute; reflexivity).
  split; [exact H1|].
  apply (pre_parse_comment_lands (parse (step []) 6) celt cig [97%N] [32; 35; 104; 105]%N [10; 98]%N 2).
  - reflexivity.
  - exact I.
  - discriminate.
  - eexists. vm_compute. reflexivity.
  - vm_compute. reflexivity.
  - exact H1.
Qed.

(* ------------------------------------------------------------------------------------------- *)
(* the statements as Props/C09.v quotes them                                                     *)
(* ------------------------------------------------------------------------------------------- *)
Lemma peg_end_bounds G : forallb fwd_class G = true -> forall s f e loc l ts, fwd_class e = true ->
  peg G s f e loc = POk l ts -> loc <= l /\ l <= Nat.max loc (length s + 1).
Proof. intros HG s f e loc l ts He H. pose proof (peg_bnd G HG s f e He loc) as B. rewrite H in B. exact B. Qed.

Lemma parser_absorb2 G : env_in_class G = true -> forallb fwd_class G = true ->
  forall w s f e d, in_class G e = true -> fwd_class e = true -> callpre (attrs_of e) && skipws (attrs_of e) = true ->
  (forall c, In c w -> mem_char c (white (attrs_of e)) = true) ->
  proj (parse (step G) f (mkargs e (w ++ s) 0 d true)) =
  option_map (shift (length w)) (proj (parse (step G) f (mkargs e s 0 d true))).
Proof.
  intros HC HG w s f e d Hc He Hp Hw.
  rewrite (proj1 (peg_equiv G (w ++ s) HC f e Hc 0 d)).
  rewrite (proj1 (peg_equiv G s HC f e Hc 0 d)). simpl. f_equal. apply peg_absorb2; assumption.
Qed.

(* ... and at any position where the element is started, for the parser *)
Lemma parser_absorb_at G : env_in_class G = true -> forallb fwd_class G = true ->
  forall x w s f e d, in_class G e = true -> fwd_class e = true -> callpre (attrs_of e) && skipws (attrs_of e) = true ->
  (forall c, In c w -> mem_char c (white (attrs_of e)) = true) ->
  proj (parse (step G) f (mkargs e (x ++ w ++ s) (length x) d true)) =
  option_map (shift (length x + length w)) (proj (parse (step G) f (mkargs e s 0 d true))).
Proof.
  intros HC HG x w s f e d Hc He Hp Hw.
  rewrite (proj1 (peg_equiv G (x ++ w ++ s) HC f e Hc (length x) d)).
  rewrite (proj1 (peg_equiv G s HC f e Hc 0 d)). simpl. f_equal. apply peg_absorb_at; assumption.
Qed.

(* repetition: DelimitedList(Word('ab')) on 'ab,ab' and behind two blanks; the class of Insens.v does not contain it *)
Lemma rep_instance :
  norep ydl = false /\ fwd_class ydl = true /\ in_class [] ydl = true /\
  peg [] [97; 98; 44; 97; 98]%N 8 ydl 0 = POk 5 [TStr yab; TStr yab] /\
  peg [] ([32; 10]%N ++ [97; 98; 44; 97; 98]%N) 8 ydl 0 = POk 7 [TStr yab; TStr yab].
Proof. vm_compute. repeat split. Qed.

Lemma json_class : env_in_class xG = true /\ in_class xG xobj = true /\ forallb fwd_class xG = true /\ fwd_class xobj = true.
Proof. vm_compute. repeat split. Qed.

Lemma or_longest_refuted :
  exists (e : expr) (u w v : str) l1 ts1 l2 ts2,
    fwd_class e = true /\ in_class [] e = true /\
    (forall c, In c w -> mem_char c [32; 10; 9; 13]%N = true) /\
    peg [] (u ++ v) 8 e 0 = POk l1 ts1 /\ peg [] (u ++ w ++ v) 8 e 0 = POk l2 ts2 /\
    proj (parse (step []) 8 (mkargs e (u ++ v) 0 true true)) = Some (POk l1 ts1) /\
    proj (parse (step []) 8 (mkargs e (u ++ w ++ v) 0 true true)) = Some (POk l2 ts2) /\
    (* the insertion point is a token boundary: the last token starts there *)
    peg [] (u ++ v) 8 (xlit 41%N 43) (length u) = POk (S (length u)) [TStr [41%N]] /\
    ts1 <> ts2.
Proof.
  exists yg, [97; 98]%N, [32%N], [41%N], 3, [TStr [41%N]], 4, [TStr yab; TStr [41%N]].
  destruct or_longest_witness as (A & B & C & D & E & F).
  repeat split; try assumption.
  - intros c [<-|[]]. reflexivity.
  - discriminate.
Qed.

Lemma keyword_refuted :
  exists (e : expr) (u w v : str) l1 ts1 l2 ts2,
    in_class [] e = true /\ fwd_class e = false /\
    (forall c, In c w -> mem_char c [32; 10; 9; 13]%N = true) /\
    peg [] (u ++ w ++ v) 8 e 0 = POk l1 ts1 /\ peg [] (u ++ v) 8 e 0 = POk l2 ts2 /\
    proj (parse (step []) 8 (mkargs e (u ++ w ++ v) 0 true true)) = Some (POk l1 ts1) /\
    proj (parse (step []) 8 (mkargs e (u ++ v) 0 true true)) = Some (POk l2 ts2) /\
    ts1 <> ts2.
Proof.
  exists zg, [97%N], [32%N], [98%N], 3, [TList [TStr [97%N]; TStr [98%N]]], 2, [TStr [97%N]; TStr [98%N]].
  destruct keyword_witness as (A & B & C & D & E).
  repeat split; try assumption.
  - intros c [<-|[]]. reflexivity.
  - discriminate.
Qed.

(* ------------------------------------------------------------------------------------------- *)
(* Part 2c: a syntactic class of prefixes for which the hypothesis of `and_interior` holds        *)
(* ------------------------------------------------------------------------------------------- *)
(* `lf st e`: e is built from non-empty Literals, Words (no as_keyword, no max), And, Group, Suppress and pass-through
   wrappers; with st = true (strict) its last token is a Literal.  A successful reading of such an element inspects the
   characters before its end only (a Word also the one at its end), so it is the same on every text with the same first
   characters. *)
Fixpoint lf (st : bool) (e : expr) : bool :=
  match e with
  | Tok _ _ (KLit (_ :: _)) => true
  | Tok _ _ (KWord _ _ _ None _ false _) => negb st
  | Nary _ _ NAnd es =>
    (fix go (l : list expr) : bool :=
       match l with [] => false | x :: r => match r with [] => lf st x | _ :: _ => lf false x && go r end end) es
  | Enh _ _ (EGroup false) c | Enh _ _ ESuppress c | Enh _ _ EPass c => lf st c
  | _ => false
  end.
Definition lf_seq (st : bool) : list expr -> bool :=
  fix go (l : list expr) : bool :=
    match l with [] => false | x :: r => match r with [] => lf st x | _ :: _ => lf false x && go r end end.

Lemma at_pref u t k : k < length u -> at_ (u ++ t) k = at_ u k.
Proof. intros H. unfold at_. apply nth_error_app1. exact H. Qed.

Lemma startswith_pref u t m : forall k, k + length m <= length u -> startswith_at (u ++ t) k m = startswith_at u k m.
Proof.
  induction m as [|c m IH]; intros k H; simpl in *; [reflexivity|].
  rewrite at_pref by lia. destruct (at_ u k); [|reflexivity]. rewrite IH by lia. reflexivity.
Qed.

Lemma slice_pref u t a b : b <= length u -> slice_ (u ++ t) a b = slice_ u a b.
Proof.
  intros H. unfold slice_. rewrite skipn_app. rewrite firstn_app. rewrite skipn_length.
  replace (b - a - (length u - a)) with 0 by lia. simpl. apply app_nil_r.
Qed.

Lemma run_while_pref u t1 t2 p : forall f1 f2 k,
  length (u ++ t1) - k <= f1 -> length (u ++ t2) - k <= f2 ->
  run_while f1 (u ++ t1) k (length (u ++ t1)) p < length u ->
  run_while f2 (u ++ t2) k (length (u ++ t2)) p = run_while f1 (u ++ t1) k (length (u ++ t1)) p.
Proof.
  induction f1 as [|f1 IH]; intros f2 k H1 H2 Hr.
  - simpl in Hr. rewrite app_length in H1. lia.
  - pose proof (run_while_ge (S f1) (u ++ t1) p k (length (u ++ t1))) as Hge.
    assert (Hk : k < length u) by lia.
    destruct f2 as [|f2]; [rewrite app_length in H2; lia|].
    cbn [run_while] in *.
    assert (Nat.ltb k (length (u ++ t1)) = true) as E1 by (apply Nat.ltb_lt; rewrite app_length; lia).
    assert (Nat.ltb k (length (u ++ t2)) = true) as E2 by (apply Nat.ltb_lt; rewrite app_length; lia).
    rewrite E1 in *. rewrite E2. rewrite !at_pref in * by exact Hk.
    destruct (at_ u k) as [c|]; [|reflexivity]. destruct (p c); [|reflexivity].
    apply IH; first [lia|exact Hr].
Qed.

Lemma skip_white_pref u t1 t2 k w : skip_white (u ++ t1) k w < length u ->
  skip_white (u ++ t2) k w = skip_white (u ++ t1) k w.
Proof. intros H. unfold skip_white in *. apply run_while_pref; first [lia|exact H]. Qed.

Lemma eff_pref u t1 t2 e k : eff (u ++ t1) e k < length u -> eff (u ++ t2) e k = eff (u ++ t1) e k.
Proof. unfold eff. destruct (_ && _); [apply skip_white_pref|reflexivity]. Qed.

Definition slack (st : bool) : nat := if st then 0 else 1.

Lemma tok_lf a i t st u t1 t2 p l r : lf st (Tok a i t) = true ->
  tok_impl a t (u ++ t1) p = IOk l r -> l + slack st <= length u ->
  p < l /\ tok_impl a t (u ++ t2) p = IOk l r.
Proof.
  intros Hc H Hl. destruct t; simpl in Hc; try discriminate Hc.
  - (* KLit *)
    destruct m as [|c m]; [discriminate|]. unfold tok_impl in *. destruct m as [|c2 m'].
    + destruct (at_ (u ++ t1) p) as [d|] eqn:E; [|discriminate]. destruct (N.eqb d c) eqn:Ed; [|discriminate].
      injection H as <- <-. assert (p < length u) by lia. rewrite at_pref in * by lia. rewrite E, Ed. split; [lia|reflexivity].
    + destruct (at_ (u ++ t1) p) as [d|] eqn:E; [|discriminate].
      destruct (startswith_at (u ++ t1) p (c :: c2 :: m')) eqn:Es; [|discriminate].
      injection H as <- <-. cbn [length] in *. assert (p < length u) by lia.
      rewrite at_pref in * by lia. rewrite E. rewrite startswith_pref in * by (cbn [length]; lia). rewrite Es.
      split; [lia|reflexivity].
  - (* KWord *)
    destruct maxl; [discriminate|]. destruct askw; [discriminate|]. destruct st; [discriminate|]. simpl in Hl.
    unfold tok_impl in *. cbv zeta in *.
    destruct (at_ (u ++ t1) p) as [c0|] eqn:E0; [|destruct use_re; discriminate].
    pose proof (at_some _ _ _ E0) as Hp.
    pose proof (span_bnd (u ++ t1) p None (fun c => mem_char c body) Hp) as Hsp.
    unfold len_cap in *.
    set (e1 := run_while (length (u ++ t1)) (u ++ t1) (S p) (length (u ++ t1)) (fun c => mem_char c body)) in *.
    assert (He : e1 = l).
    { destruct use_re.
      - destruct (negb (mem_char c0 init)); [discriminate|]. cbn [andb negb orb] in H.
        destruct (Nat.ltb (e1 - p) minl); [discriminate|]. injection H as <- _. reflexivity.
      - destruct (negb (mem_char c0 init)); [discriminate|]. cbn [andb] in H.
        destruct (Nat.ltb (e1 - p) minl); [discriminate|]. injection H as <- _. reflexivity. }
    assert (Hpu : p < length u) by lia.
    assert (E2 : run_while (length (u ++ t2)) (u ++ t2) (S p) (length (u ++ t2)) (fun c => mem_char c body) = e1).
    { apply run_while_pref; try lia; fold e1; lia. }
    rewrite at_pref in E0 by exact Hpu. rewrite at_pref by exact Hpu. rewrite E0. rewrite E2.
    clearbody e1. subst l.
    destruct use_re.
    + destruct (negb (mem_char c0 init)); [discriminate|]. cbn [andb negb orb] in *.
      destruct (Nat.ltb (e1 - p) minl); [discriminate|]. rewrite slice_pref in * by lia. split; [lia|exact H].
    + destruct (negb (mem_char c0 init)); [discriminate|]. cbn [andb] in *.
      destruct (Nat.ltb (e1 - p) minl); [discriminate|]. rewrite slice_pref in * by lia. split; [lia|exact H].
Qed.

Section LookFree.
Variable G : env.
Variables u t1 t2 : str.

Definition lf_inv (f : nat) : Prop := forall st e loc l ts, lf st e = true ->
  peg G (u ++ t1) f e loc = POk l ts -> l + slack st <= length u ->
  eff (u ++ t1) e loc < l /\ peg G (u ++ t2) f e loc = POk l ts.

Lemma lf_seq_ok f : lf_inv f -> forall st es loc acc l ts, lf_seq st es = true ->
  peg_seq (peg G (u ++ t1) f) es loc acc = POk l ts -> l + slack st <= length u ->
  loc < l /\ peg_seq (peg G (u ++ t2) f) es loc acc = POk l ts.
Proof.
  intros IH st. induction es as [|x es IHes]; intros loc acc l ts Hc H Hl; [discriminate|].
  cbn [peg_seq] in *. destruct (peg G (u ++ t1) f x loc) as [l1 ts1| | |] eqn:Ex; try discriminate H.
  destruct es as [|y es'].
  - cbn [lf_seq] in Hc. cbn [peg_seq] in *. injection H as <- <-.
    destruct (IH st x loc l1 ts1 Hc Ex Hl) as [A B]. rewrite B.
    pose proof (eff_bnd (u ++ t1) x loc). split; [lia|reflexivity].
  - cbn [lf_seq] in Hc. apply andb_prop in Hc as [Hx Hr].
    destruct (IHes l1 (acc ++ ts1) l ts Hr H Hl) as [A B].
    assert (Hl1 : l1 + slack false <= length u) by (simpl; destruct st; simpl in Hl; lia).
    destruct (IH false x loc l1 ts1 Hx Ex Hl1) as [C D]. rewrite D.
    pose proof (eff_bnd (u ++ t1) x loc). split; [lia|exact B].
Qed.

Theorem lf_ok : forall f, lf_inv f.
Proof.
  induction f as [|f IH]; intros st e loc l ts Hc H Hl; [discriminate|].
  cbn [peg] in *. set (p := eff (u ++ t1) e loc) in *.
  assert (Hp : p < l -> eff (u ++ t2) e loc = p) by (intros Hpl; apply eff_pref; fold p; destruct st; simpl in Hl; lia).
  destruct e as [a i t|a i kd es|a i kd c|a i z b ne|a i c inc ig fo|a i id]; try discriminate Hc.
  - cbn [attrs_of] in *. destruct (tok_impl a t (u ++ t1) p) as [l0 r| |] eqn:E; try discriminate H.
    injection H as <- <-. destruct (tok_lf a i t st u t1 t2 p l0 r Hc E Hl) as [A B].
    split; [exact A|]. rewrite (Hp A). rewrite B. reflexivity.
  - destruct kd; try discriminate Hc.
    assert (Hs : lf_seq st es = true) by exact Hc.
    destruct (lf_seq_ok f IH st es p [] l ts Hs H Hl) as [A B].
    split; [exact A|]. rewrite (Hp A). exact B.
  - assert (Hsub : forall l' ts', lf st c = true -> peg G (u ++ t1) f c p = POk l' ts' -> l' + slack st <= length u ->
              p < l' /\ peg G (u ++ t2) f c p = POk l' ts').
    { intros l' ts' Hcc Hpc Hl'. destruct (IH st c p l' ts' Hcc Hpc Hl') as [A B].
      pose proof (eff_bnd (u ++ t1) c p). split; [lia|exact B]. }
    destruct kd as [|aspy| | | | | | | | | | | ]; try discriminate Hc; try (destruct aspy; [discriminate Hc|]);
      simpl in Hc; destruct (peg G (u ++ t1) f c p) as [l' ts'| | |] eqn:Ec; try discriminate H;
      injection H as <- <-; destruct (Hsub l' ts' Hc eq_refl Hl) as [A B]; (split; [exact A|]); rewrite (Hp A); rewrite B; reflexivity.
Qed.
End LookFree.

(* the prefix hypothesis of `and_insert_interior`, discharged for a prefix of the class *)
Corollary and_insert_interior_lf G : forallb fwd_class G = true ->
  forall u w v f a i es1 e2 es2 loc0 ts1 l ts,
  lf_seq true es1 = true ->
  fwd_class e2 = true -> Forall fwdP es2 ->
  callpre (attrs_of e2) && skipws (attrs_of e2) = true ->
  (forall c, In c w -> mem_char c (white (attrs_of e2)) = true) ->
  let e := Nary a i NAnd (es1 ++ e2 :: es2) in
  peg G (u ++ v) (S f) e loc0 = POk l ts ->
  peg_seq (peg G (u ++ v) f) es1 (eff (u ++ v) e loc0) [] = POk (length u) ts1 ->
  peg G (u ++ w ++ v) (S f) e loc0 = POk (length w + l) ts.
Proof.
  intros HG u w v f a i es1 e2 es2 loc0 ts1 l ts Hlf He2 Hes2 Hp Hw e H0 H1.
  apply (and_insert_interior G HG u w v f a i es1 e2 es2 loc0 ts1 l ts He2 Hes2 Hp Hw H0 H1).
  destruct (lf_seq_ok G u v (w ++ v) f (lf_ok G u v (w ++ v) f) true es1 _ [] _ ts1 Hlf H1) as [A B]; [simpl; lia|].
  unfold e in *. rewrite (eff_pref u v (w ++ v) _ loc0 A). exact B.
Qed.

(* the JSON-like instance again: its prefix  '{' Word ':'  is of the class, nothing is assumed about the new text *)
Lemma json_instance_lf :
  lf_seq true xpre = true /\ peg xG (xu ++ xw ++ xv) 12 xobj 0 = POk 11 xresult.
Proof.
  split; [reflexivity|].
  change 11 with (length xw + 9).
  apply (and_insert_interior_lf xG xG_fwd xu xw xv 11 (xa 27 true true) [] xpre xval [xlit 125%N 8] 0
           [TStr [123%N]; TStr [107%N]; TStr [58%N]] 9 xresult).
  - reflexivity.
  - reflexivity.
  - repeat constructor.
  - reflexivity.
  - intros c [<-|[<-|[]]]; reflexivity.
  - vm_compute. reflexivity.
  - vm_compute. reflexivity.
Qed.

