(* C08: scan_string(overlap=True) - soundness, strict order of the starts, completeness (which cursor positions the loop
   visits, and that a visited position is reported iff the direct parse at its pre-parsed position gets beyond it).
   Everything is about `scan_loop` of Model/Entry.v, for EVERY handler `rec` interpreting the `_parse` calls.

   What the loop does in overlap mode (pyparsing/core.py scan_string, and Model/Entry.v scan_loop, literally):
     preloc = preparseFn(instring, loc); nextLoc, tokens = parseFn(instring, preloc, callPreParse=False)
     on ParseException, or when nextLoc <= loc (a match that does not get beyond the cursor, e.g. a zero-width match AT
       the cursor): loc = preloc + 1, nothing reported
     when nextLoc > loc: (tokens, preloc, nextLoc) is reported, then
         nextloc = preparseFn(instring, loc)             # lower-case l: a SECOND pre-parse from the same cursor
         if nextloc > loc: loc = nextLoc                 # upper-case L: the END of the match just reported
         else:             loc += 1
   so the cursor advances by ONE after a match that began exactly at the cursor, but jumps to the END of the match when
   whitespace / ignorables were skipped in front of it (no overlapping match is then looked for inside that match).
   A zero-width match behind skipped whitespace (nextLoc = preloc > loc) is reported once; the cursor jumps to preloc,
   where the same zero-width match does not get beyond the cursor any more, and moves on to preloc + 1. *)
From Coq Require Import List ZArith NArith Bool Arith Lia.
From PP Require Import Model.Str Model.Results Model.Prog Model.Core Model.Entry Proofs.ScanProofs.
From PP Require Import Model.EntryExtra Proofs.EntryProofs.
Import ListNotations.

(* ---- the whitespace skip started anywhere inside the skipped stretch ends where the original one ends ---- *)
Lemma run_while_fuel s m p : forall f1 f2 loc, m - loc <= f1 -> m - loc <= f2 ->
  run_while f1 s loc m p = run_while f2 s loc m p.
Proof.
  induction f1 as [|f1 IH]; intros f2 loc H1 H2.
  - destruct f2 as [|f2]; simpl; [reflexivity|]. destruct (Nat.ltb loc m) eqn:E; [apply Nat.ltb_lt in E; lia|reflexivity].
  - destruct f2 as [|f2]; simpl.
    + destruct (Nat.ltb loc m) eqn:E; [apply Nat.ltb_lt in E; lia|reflexivity].
    + destruct (Nat.ltb loc m) eqn:E; [|reflexivity]. apply Nat.ltb_lt in E.
      destruct (at_ s loc) as [c|]; [|reflexivity]. destruct (p c); [|reflexivity]. apply IH; lia.
Qed.

Lemma run_while_mid s m p : forall fuel loc k, m - loc <= fuel -> loc <= k -> k <= run_while fuel s loc m p ->
  run_while fuel s k m p = run_while fuel s loc m p.
Proof.
  induction fuel as [|f IH]; intros loc k Hf H1 H2.
  - simpl in *. f_equal. lia.
  - destruct (Nat.eq_dec k loc) as [->|Hne]; [reflexivity|].
    simpl in H2 |- *. destruct (Nat.ltb loc m) eqn:E; [|lia]. apply Nat.ltb_lt in E.
    destruct (at_ s loc) as [c|]; [|lia]. destruct (p c); [|lia].
    rewrite <- (IH (S loc) k) by lia.
    change (run_while (S f) s k m p = run_while f s k m p). apply run_while_fuel; lia.
Qed.

Lemma skip_white_mid s w loc k : loc <= k -> k <= skip_white s loc w -> skip_white s k w = skip_white s loc w.
Proof. intros H1 H2. unfold skip_white in *. apply run_while_mid; [lia|exact H1|exact H2]. Qed.

Lemma ploc_mid root s al loc k : loc <= k -> k <= ploc root s al loc -> ploc root s al k = ploc root s al loc.
Proof.
  unfold ploc. destruct (skipws _); intros H1 H2; [apply skip_white_mid; assumption|lia].
Qed.

(* starts of the reported matches *)
Definition starts (res : list (pres * nat * nat)) : list nat := map (fun m => snd (fst m)) res.

(* a strictly increasing list of positions, all at or after `lo` *)
Inductive increasing_from : nat -> list nat -> Prop :=
| incr_nil lo : increasing_from lo []
| incr_cons lo p rest : lo <= p -> increasing_from (S p) rest -> increasing_from lo (p :: rest).

Lemma increasing_weaken lo lo' l : lo' <= lo -> increasing_from lo l -> increasing_from lo' l.
Proof. intros H Hi. inversion Hi; subst; constructor; try assumption; lia. Qed.

Lemma increasing_firstn n : forall lo l, increasing_from lo l -> increasing_from lo (firstn n l).
Proof.
  induction n as [|n IH]; intros lo l H; simpl; [constructor|].
  inversion H; subst; constructor; [assumption|]. apply IH. assumption.
Qed.

Lemma increasing_lt lo l : increasing_from lo l -> forall i j d, i < j -> j < length l -> nth i l d < nth j l d.
Proof.
  induction 1 as [lo|lo p rest Hle Hi IH]; intros i j d Hij Hj; simpl in Hj; [lia|].
  destruct j as [|j]; [lia|]. destruct i as [|i]; simpl.
  - clear IH Hij. assert (forall lo l, increasing_from lo l -> forall j, j < length l -> lo <= nth j l d) as Hge.
    { clear. induction 1 as [lo|lo p rest Hle Hi IH]; intros j Hj; simpl in Hj; [lia|].
      destruct j as [|j]; simpl; [exact Hle|]. specialize (IH j). lia. }
    specialize (Hge _ _ Hi j). lia.
  - apply IH; lia.
Qed.

Section Overlap.
Variable rec : args -> option outcome.
Variable root : expr. Variable s : str. Variable always_skip : bool.

Local Notation prep := (prep rec root s always_skip).
Local Notation direct := (direct rec root s).

Lemma pre_lift (R : Type) loc (k : outcome -> dprog R) :
  drun rec (lift (pre_parse escape (if always_skip then preparser root else root) s loc (fun l => Ret (Ok l pr_empty))) k) =
  match prep loc with Some o => drun rec (k o) | None => None end.
Proof. apply drun_lift. Qed.

(* one turn of the loop (either mode, any max_matches), in terms of the two questions it asks the handler *)
Lemma scan_loop_step fuel overlap maxm loc matches acc :
  drun rec (scan_loop (S fuel) root s always_skip overlap maxm loc matches acc) =
  if Nat.leb loc (length s) && match maxm with Some m => Nat.ltb matches m | None => true end then
    match prep loc with
    | None => None
    | Some (Ok preloc _) =>
      match direct preloc with
      | None => None
      | Some (Ok nl tk) =>
        if Nat.ltb loc nl then
          drun rec (scan_loop fuel root s always_skip overlap maxm
                      (if overlap then (if Nat.ltb loc preloc then nl else S loc) else nl) (S matches) (acc ++ [(tk, preloc, nl)]))
        else drun rec (scan_loop fuel root s always_skip overlap maxm (S preloc) matches acc)
      | Some (Err x) => if is_pe (xk x) then drun rec (scan_loop fuel root s always_skip overlap maxm (S preloc) matches acc)
                        else Some (acc, SErr x)
      | Some Div => Some (acc, SDiv)
      end
    | Some (Err x) => Some (acc, SErr x)
    | Some Div => Some (acc, SDiv)
    end
  else Some (acc, SDone).
Proof.
  cbn [scan_loop].
  destruct (Nat.leb loc (length s) && match maxm with Some m => Nat.ltb matches m | None => true end); [|reflexivity].
  rewrite pre_lift. destruct (prep loc) as [[preloc p0|x|]|] eqn:Hp; try reflexivity.
  cbn [drun]. unfold EntryProofs.direct. destruct (rec (mkargs root s preloc true false)) as [[nl tk|x|]|]; try reflexivity.
  - destruct (Nat.ltb loc nl); [|reflexivity]. destruct overlap; [|reflexivity].
    rewrite pre_lift. rewrite Hp. reflexivity.
  - destruct (is_pe (xk x)); reflexivity.
Qed.

(* ------------------------------------------------------------------------------------------- *)
(* (1) soundness: either mode, any max_matches, with or without ignore expressions, no hypothesis *)
(* ------------------------------------------------------------------------------------------- *)
(* a reported (tokens, start, end): `start` is the pre-parse of a cursor position inside the text, (end, tokens) is what the
   direct parse at `start` returns, and `end` lies beyond that cursor *)
Definition reported_ok (m : pres * nat * nat) : Prop :=
  match m with (t, st, en) =>
    direct st = Some (Ok en t) /\
    exists loc p0, loc <= length s /\ prep loc = Some (Ok st p0) /\ loc < en
  end.

Theorem scan_loop_sound overlap maxm : forall fuel loc matches acc res fin,
  drun rec (scan_loop fuel root s always_skip overlap maxm loc matches acc) = Some (res, fin) ->
  exists new, res = acc ++ new /\ Forall reported_ok new /\
    (match maxm with Some m => matches + length new <= Nat.max matches m | None => True end).
Proof.
  assert (forall matches acc, exists new : list (pres * nat * nat), acc = acc ++ new /\ Forall reported_ok new /\
            (match maxm with Some m => matches + length new <= Nat.max matches m | None => True end)) as Hnil.
  { intros matches acc. exists []. rewrite app_nil_r. repeat split; [constructor|]. destruct maxm; simpl; [lia|exact I]. }
  induction fuel as [|f IH]; intros loc matches acc res fin H.
  - simpl in H. injection H as <- _. apply Hnil.
  - rewrite scan_loop_step in H.
    destruct (Nat.leb loc (length s) && match maxm with Some m => Nat.ltb matches m | None => true end) eqn:Hc;
      [|injection H as <- _; apply Hnil].
    apply andb_prop in Hc as [Hl Hm]. apply Nat.leb_le in Hl.
    destruct (prep loc) as [[preloc p0|x|]|] eqn:Hp; try discriminate; try (injection H as <- _; apply Hnil).
    destruct (direct preloc) as [[nl tk|x|]|] eqn:Hd; try discriminate; try (injection H as <- _; apply Hnil).
    + destruct (Nat.ltb loc nl) eqn:Hlt.
      * apply Nat.ltb_lt in Hlt. apply IH in H. destruct H as (new & -> & Hall & Hcnt).
        exists ((tk, preloc, nl) :: new). rewrite <- app_assoc. split; [reflexivity|]. split.
        -- constructor; [|exact Hall]. split; [exact Hd|]. exists loc, p0. repeat split; assumption.
        -- destruct maxm as [m|]; [|exact I]. apply Nat.ltb_lt in Hm. simpl. lia.
      * apply IH in H. exact H.
    + destruct (is_pe (xk x)); [apply IH in H; exact H|injection H as <- _; apply Hnil].
Qed.

(* ------------------------------------------------------------------------------------------- *)
(* (2) overlap mode: the starts are strictly increasing                                          *)
(* ------------------------------------------------------------------------------------------- *)
Section Order.
(* the pre-parse never moves backwards *)
Hypothesis Hpre : forall loc preloc p0, prep loc = Some (Ok preloc p0) -> loc <= preloc.
(* when a match reported from cursor loc ends inside (or at the end of) the stretch the pre-parse skipped, the pre-parse from
   that end arrives at the same place (for a whitespace skip: ploc_mid) *)
Hypothesis Hjump : forall loc preloc p0 nl tk,
  prep loc = Some (Ok preloc p0) -> direct preloc = Some (Ok nl tk) -> loc < nl -> nl <= preloc ->
  exists p1, prep nl = Some (Ok preloc p1).

(* every start reported from cursor `loc` on is >= lo: either the cursor is already there, or the parse at its pre-parsed
   position does not get beyond the cursor (so nothing is reported from it and the cursor moves past that position) *)
Definition order_inv (lo loc : nat) : Prop :=
  lo <= loc \/
  exists preloc p0 nl tk, prep loc = Some (Ok preloc p0) /\ direct preloc = Some (Ok nl tk) /\ nl <= loc /\ lo <= S preloc.

Theorem scan_loop_overlap_order maxm : forall fuel loc matches acc res fin lo,
  order_inv lo loc ->
  drun rec (scan_loop fuel root s always_skip true maxm loc matches acc) = Some (res, fin) ->
  exists new, res = acc ++ new /\ increasing_from lo (starts new).
Proof.
  assert (forall lo (acc : list (pres * nat * nat)), exists new, acc = acc ++ new /\ increasing_from lo (starts new)) as Hnil.
  { intros lo acc. exists []. rewrite app_nil_r. split; [reflexivity|constructor]. }
  induction fuel as [|f IH]; intros loc matches acc res fin lo Hinv H.
  - simpl in H. injection H as <- _. apply Hnil.
  - rewrite scan_loop_step in H.
    destruct (Nat.leb loc (length s) && match maxm with Some m => Nat.ltb matches m | None => true end);
      [|injection H as <- _; apply Hnil].
    destruct (prep loc) as [[preloc p0|x|]|] eqn:Hp; try discriminate; try (injection H as <- _; apply Hnil).
    pose proof (Hpre _ _ _ Hp) as Hge.
    assert (order_inv lo (S preloc)) as Hskip.
    { left. destruct Hinv as [Hlo|(preloc' & p0' & nl' & tk' & Hp' & _ & _ & Hlo)]; [lia|].
      rewrite Hp in Hp'. injection Hp' as <- _. exact Hlo. }
    destruct (direct preloc) as [[nl tk|x|]|] eqn:Hd; try discriminate; try (injection H as <- _; apply Hnil).
    + destruct (Nat.ltb loc nl) eqn:Hlt.
      * apply Nat.ltb_lt in Hlt.
        assert (lo <= preloc) as Hlo.
        { destruct Hinv as [Hlo|(preloc' & p0' & nl' & tk' & Hp' & Hd' & Hnl & _)]; [lia|].
          rewrite Hp in Hp'. injection Hp' as <- _. rewrite Hd in Hd'. injection Hd' as <- _. lia. }
        apply (IH _ _ _ _ _ (S preloc)) in H.
        -- destruct H as (new & -> & Hinc). exists ((tk, preloc, nl) :: new). rewrite <- app_assoc.
           split; [reflexivity|]. simpl. constructor; assumption.
        -- destruct (Nat.ltb loc preloc) eqn:Hws.
           ++ (* something was skipped in front of the match: the cursor jumps to the end of the match *)
              destruct (Nat.le_gt_cases nl preloc) as [Hin|Hout]; [|left; lia].
              destruct (Hjump _ _ _ _ _ Hp Hd Hlt Hin) as [p1 Hp1].
              right. exists preloc, p1, nl, tk. repeat split; try assumption; lia.
           ++ apply Nat.ltb_ge in Hws. left. lia.
      * apply (IH _ _ _ _ _ lo) in H; assumption.
    + destruct (is_pe (xk x)); [apply (IH _ _ _ _ _ lo) in H; assumption|injection H as <- _; apply Hnil].
Qed.
End Order.

(* ------------------------------------------------------------------------------------------- *)
(* (3) overlap mode, unlimited: which cursor positions are visited, and what each reports        *)
(* ------------------------------------------------------------------------------------------- *)
(* what the turn of the loop at cursor `loc` reports: the direct parse at the pre-parsed position, iff it succeeds and ends
   strictly beyond the cursor *)
Definition oreport (loc : nat) : option (pres * nat * nat) :=
  match prep loc with
  | Some (Ok preloc _) =>
    match direct preloc with
    | Some (Ok nl tk) => if Nat.ltb loc nl then Some (tk, preloc, nl) else None
    | _ => None
    end
  | _ => None
  end.

(* where the cursor goes after the turn at `loc` (inl), or how the scan ends there (inr):
   - after a reported match that began exactly at the cursor (nothing skipped): one character further;
   - after a reported match in front of which the pre-parse skipped something: the END of that match;
   - after a ParseException, or a match that does not get beyond the cursor: one character after the pre-parsed position;
   - any other exception (from the pre-parse or the parse) ends the scan with it; a spinning parser ends it with SDiv.
   (`None` = the handler has no answer; then the driver has none either and the theorems' hypothesis is false) *)
Definition onext (loc : nat) : nat + scan_end :=
  match prep loc with
  | Some (Ok preloc _) =>
    match direct preloc with
    | Some (Ok nl _) => if Nat.ltb loc nl then (if Nat.ltb loc preloc then inl nl else inl (S loc)) else inl (S preloc)
    | Some (Err x) => if is_pe (xk x) then inl (S preloc) else inr (SErr x)
    | Some Div => inr SDiv
    | None => inr SDiv
    end
  | Some (Err x) => inr (SErr x)
  | Some Div => inr SDiv
  | None => inr SDiv
  end.

(* the cursor positions the loop visits from `loc` on: `loc` itself while it is inside the text (the position len(instring)
   included), then those from `onext loc` *)
Fixpoint ovisit (fuel loc : nat) : list nat :=
  match fuel with
  | 0 => []
  | S f => if Nat.leb loc (length s) then loc :: match onext loc with inl l' => ovisit f l' | inr _ => [] end else []
  end.

Fixpoint ostop (fuel loc : nat) : scan_end :=
  match fuel with
  | 0 => SDiv
  | S f => if Nat.leb loc (length s) then match onext loc with inl l' => ostop f l' | inr e => e end else SDone
  end.

Definition oreports (vis : list nat) : list (pres * nat * nat) :=
  flat_map (fun p => match oreport p with Some m => [m] | None => [] end) vis.

(* the overlapping, unlimited scan reports exactly what the visited cursor positions report, in the order of the visit *)
Theorem scan_loop_overlap_fun : forall fuel loc matches acc res fin,
  drun rec (scan_loop fuel root s always_skip true None loc matches acc) = Some (res, fin) ->
  res = acc ++ oreports (ovisit fuel loc) /\ fin = ostop fuel loc.
Proof.
  induction fuel as [|f IH]; intros loc matches acc res fin H.
  - simpl in H. injection H as <- <-. simpl. rewrite app_nil_r. split; reflexivity.
  - rewrite scan_loop_step in H. rewrite andb_true_r in H. cbn [ovisit ostop].
    destruct (Nat.leb loc (length s)); [|injection H as <- <-; simpl; rewrite app_nil_r; split; reflexivity].
    unfold oreports. cbn [flat_map]. unfold oreport, onext.
    destruct (prep loc) as [[preloc p0|x|]|]; try discriminate;
      try (injection H as <- <-; simpl; rewrite app_nil_r; split; reflexivity).
    destruct (direct preloc) as [[nl tk|x|]|]; try discriminate;
      try (injection H as <- <-; simpl; rewrite app_nil_r; split; reflexivity).
    + destruct (Nat.ltb loc nl).
      * apply IH in H. destruct H as [-> ->]. rewrite <- app_assoc.
        destruct (Nat.ltb loc preloc); split; reflexivity.
      * apply IH in H. exact H.
    + destruct (is_pe (xk x)); [apply IH in H; exact H|injection H as <- <-; simpl; rewrite app_nil_r; split; reflexivity].
Qed.

Section Visit.
Hypothesis Hpre : forall loc preloc p0, prep loc = Some (Ok preloc p0) -> loc <= preloc.

(* the cursor moves strictly forward *)
Lemma onext_gt loc l' : onext loc = inl l' -> loc < l'.
Proof.
  unfold onext. destruct (prep loc) as [[preloc p0|x|]|] eqn:Hp; try discriminate.
  pose proof (Hpre _ _ _ Hp) as Hge.
  destruct (direct preloc) as [[nl tk|x|]|]; try discriminate.
  - destruct (Nat.ltb loc nl) eqn:Hlt.
    + apply Nat.ltb_lt in Hlt. destruct (Nat.ltb loc preloc); intros E; injection E as <-; lia.
    + intros E; injection E as <-; lia.
  - destruct (is_pe (xk x)); [|discriminate]. intros E; injection E as <-; lia.
Qed.

(* so the visited positions are strictly increasing and lie inside the text (position len(instring) included) *)
Lemma ovisit_increasing : forall fuel loc, increasing_from loc (ovisit fuel loc).
Proof.
  induction fuel as [|f IH]; intros loc; simpl; [constructor|].
  destruct (Nat.leb loc (length s)); [|constructor]. constructor; [lia|].
  destruct (onext loc) as [l'|e] eqn:Hn; [|constructor].
  apply onext_gt in Hn. eapply increasing_weaken; [|apply IH]. lia.
Qed.

Lemma ovisit_inside : forall fuel loc, Forall (fun p => p <= length s) (ovisit fuel loc).
Proof.
  induction fuel as [|f IH]; intros loc; simpl; [constructor|].
  destruct (Nat.leb loc (length s)) eqn:E; [|constructor]. apply Nat.leb_le in E. constructor; [exact E|].
  destruct (onext loc); [apply IH|constructor].
Qed.

(* and the loop counter scan_string starts with never runs out: any larger counter gives the same visit and the same ending *)
Lemma ovisit_fuel : forall f1 f2 loc, 1 <= f1 -> 1 <= f2 -> length s + 2 - loc <= f1 -> length s + 2 - loc <= f2 ->
  ovisit f1 loc = ovisit f2 loc /\ ostop f1 loc = ostop f2 loc.
Proof.
  induction f1 as [|f1 IH]; intros f2 loc H1 H2 H3 H4; [lia|]. destruct f2 as [|f2]; [lia|]. simpl.
  destruct (Nat.leb loc (length s)) eqn:E; [|split; reflexivity]. apply Nat.leb_le in E.
  destruct (onext loc) as [l'|e] eqn:Hn; [|split; reflexivity].
  apply onext_gt in Hn. destruct (IH f2 l') as [-> ->]; try lia. split; reflexivity.
Qed.
End Visit.
End Overlap.

(* the defining equations, spelled out *)
Lemma ovisit_unfold rec root s always_skip fuel loc :
  ovisit rec root s always_skip (S fuel) loc =
    (if Nat.leb loc (length s)
     then loc :: match onext rec root s always_skip loc with inl l' => ovisit rec root s always_skip fuel l' | inr _ => [] end
     else []) /\
  (forall m, oreport rec root s always_skip loc = Some m <->
     exists preloc p0 nl tk, prep rec root s always_skip loc = Some (Ok preloc p0) /\
       direct rec root s preloc = Some (Ok nl tk) /\ loc < nl /\ m = (tk, preloc, nl)) /\
  (forall preloc p0 nl tk, prep rec root s always_skip loc = Some (Ok preloc p0) -> direct rec root s preloc = Some (Ok nl tk) ->
     onext rec root s always_skip loc =
       inl (if Nat.ltb loc nl then (if Nat.ltb loc preloc then nl else S loc) else S preloc)) /\
  (forall preloc p0 x, prep rec root s always_skip loc = Some (Ok preloc p0) -> direct rec root s preloc = Some (Err x) ->
     onext rec root s always_skip loc = if is_pe (xk x) then inl (S preloc) else inr (SErr x)).
Proof.
  split; [reflexivity|]. split; [|split].
  - intros m. unfold oreport. split.
    + destruct (prep rec root s always_skip loc) as [[preloc p0|x|]|]; try discriminate.
      destruct (direct rec root s preloc) as [[nl tk|x|]|] eqn:Hd; try discriminate.
      destruct (Nat.ltb loc nl) eqn:Hlt; [|discriminate]. apply Nat.ltb_lt in Hlt. intros E. injection E as <-.
      exists preloc, p0, nl, tk. repeat split; assumption.
    + intros (preloc & p0 & nl & tk & -> & -> & Hlt & ->). apply Nat.ltb_lt in Hlt. rewrite Hlt. reflexivity.
  - intros preloc p0 nl tk Hp Hd. unfold onext. rewrite Hp, Hd.
    destruct (Nat.ltb loc nl); [destruct (Nat.ltb loc preloc)|]; reflexivity.
  - intros preloc p0 x Hp Hd. unfold onext. rewrite Hp, Hd. reflexivity.
Qed.

(* ---- the entry point ---- *)
Theorem scan_overlap_sound rec root keeptabs input maxm overlap always_skip res fin :
  drun rec (scan_string root keeptabs input maxm overlap always_skip) = Some (res, fin) ->
  let s := if keeptabs then input else expandtabs input in
  Forall (reported_ok rec root s always_skip) res /\
  (match maxm with Some m => length res <= m | None => True end).
Proof.
  intros H. cbv zeta. unfold scan_string in H. apply scan_loop_sound in H. destruct H as (new & -> & Ha & Hm). simpl.
  split; [exact Ha|]. destruct maxm as [m|]; [|exact I]. simpl in Hm. exact Hm.
Qed.

Theorem scan_overlap_order_gen rec root (keeptabs : bool) input maxm always_skip res fin :
  let s := if keeptabs then input else expandtabs input in
  (forall loc preloc p0, prep rec root s always_skip loc = Some (Ok preloc p0) -> loc <= preloc) ->
  (forall loc preloc p0 nl tk, prep rec root s always_skip loc = Some (Ok preloc p0) ->
     direct rec root s preloc = Some (Ok nl tk) -> loc < nl -> nl <= preloc ->
     exists p1, prep rec root s always_skip nl = Some (Ok preloc p1)) ->
  drun rec (scan_string root keeptabs input maxm true always_skip) = Some (res, fin) ->
  increasing_from 0 (starts res).
Proof.
  intros s0 H1 H2 H. unfold scan_string in H. fold s0 in H.
  apply (scan_loop_overlap_order rec root s0 always_skip H1 H2 maxm _ _ _ _ _ _ 0) in H.
  - destruct H as (new & -> & Hi). exact Hi.
  - left. lia.
Qed.

Theorem scan_overlap_order rec root keeptabs input maxm always_skip res fin :
  plainpre root ->
  drun rec (scan_string root keeptabs input maxm true always_skip) = Some (res, fin) ->
  increasing_from 0 (starts res).
Proof.
  intros Hp. apply scan_overlap_order_gen.
  - intros loc preloc p0 E. rewrite prep_plain in E by exact Hp. injection E as <- _. apply ploc_ge.
  - intros loc preloc p0 nl tk E _ Hlt Hin. rewrite prep_plain in E by exact Hp. injection E as <- _.
    exists pr_empty. rewrite prep_plain by exact Hp. f_equal. f_equal. apply ploc_mid; lia.
Qed.

(* the same, said with indices: an earlier match starts strictly before a later one *)
Theorem scan_overlap_order_nth rec root keeptabs input maxm always_skip res fin :
  plainpre root ->
  drun rec (scan_string root keeptabs input maxm true always_skip) = Some (res, fin) ->
  forall i j d, i < j -> j < length res -> nth i (starts res) d < nth j (starts res) d.
Proof.
  intros Hp H i j d Hij Hj. eapply increasing_lt; [eapply scan_overlap_order; eassumption|exact Hij|].
  unfold starts. rewrite map_length. exact Hj.
Qed.

(* with ignore expressions: the pre-parse does not move backwards, is idempotent, and the parser does not move backwards *)
Theorem scan_overlap_order_ign rec root (keeptabs : bool) input maxm always_skip res fin :
  let s := if keeptabs then input else expandtabs input in
  (forall loc preloc p0, prep rec root s always_skip loc = Some (Ok preloc p0) -> loc <= preloc) ->
  (forall loc preloc p0, prep rec root s always_skip loc = Some (Ok preloc p0) ->
     exists p1, prep rec root s always_skip preloc = Some (Ok preloc p1)) ->
  (forall st en tk, direct rec root s st = Some (Ok en tk) -> st <= en) ->
  drun rec (scan_string root keeptabs input maxm true always_skip) = Some (res, fin) ->
  increasing_from 0 (starts res).
Proof.
  intros s0 H1 H2 H3. apply scan_overlap_order_gen; [exact H1|].
  intros loc preloc p0 nl tk Hp Hd Hlt Hin. apply H3 in Hd. assert (nl = preloc) as -> by lia.
  eapply H2. exact Hp.
Qed.

Theorem scan_overlap_complete_gen rec root (keeptabs : bool) input always_skip res fin :
  let s := if keeptabs then input else expandtabs input in
  (forall loc preloc p0, prep rec root s always_skip loc = Some (Ok preloc p0) -> loc <= preloc) ->
  drun rec (scan_string root keeptabs input None true always_skip) = Some (res, fin) ->
  let vis := ovisit rec root s always_skip (length s + 2) 0 in
  res = oreports rec root s always_skip vis /\
  fin = ostop rec root s always_skip (length s + 2) 0 /\
  increasing_from 0 vis /\ Forall (fun p => p <= length s) vis /\
  (forall k, ovisit rec root s always_skip (length s + 2 + k) 0 = vis /\
             ostop rec root s always_skip (length s + 2 + k) 0 = ostop rec root s always_skip (length s + 2) 0).
Proof.
  intros s0 Hpre H. cbv zeta. unfold scan_string in H. fold s0 in H.
  apply scan_loop_overlap_fun in H. destruct H as [-> ->]. simpl.
  split; [reflexivity|]. split; [reflexivity|]. split; [apply ovisit_increasing; exact Hpre|].
  split; [apply ovisit_inside|]. intros k. apply ovisit_fuel; try lia. exact Hpre.
Qed.

Theorem scan_overlap_complete rec root keeptabs input always_skip res fin :
  plainpre root ->
  drun rec (scan_string root keeptabs input None true always_skip) = Some (res, fin) ->
  let s := if keeptabs then input else expandtabs input in
  let vis := ovisit rec root s always_skip (length s + 2) 0 in
  res = oreports rec root s always_skip vis /\
  fin = ostop rec root s always_skip (length s + 2) 0 /\
  increasing_from 0 vis /\ Forall (fun p => p <= length s) vis /\
  (forall k, ovisit rec root s always_skip (length s + 2 + k) 0 = vis /\
             ostop rec root s always_skip (length s + 2 + k) 0 = ostop rec root s always_skip (length s + 2) 0).
Proof.
  intros Hp H. apply (scan_overlap_complete_gen rec root keeptabs input always_skip res fin); [|exact H].
  intros loc preloc p0 E. rewrite prep_plain in E by exact Hp. injection E as <- _. apply ploc_ge.
Qed.

(* with max_matches = n: the first n reports of the same visit (by scan_max_matches) *)
Theorem scan_overlap_complete_max rec root keeptabs input always_skip n res fin :
  plainpre root ->
  drun rec (scan_string root keeptabs input None true always_skip) = Some (res, fin) ->
  let s := if keeptabs then input else expandtabs input in
  exists fin', drun rec (scan_string root keeptabs input (Some n) true always_skip) =
    Some (firstn n (oreports rec root s always_skip (ovisit rec root s always_skip (length s + 2) 0)), fin').
Proof.
  intros Hp H. cbv zeta. destruct (scan_max_matches _ _ _ _ _ _ n _ _ H) as [fin' H'].
  exists fin'. rewrite H'. f_equal. f_equal. f_equal.
  exact (proj1 (scan_overlap_complete _ _ _ _ _ _ _ Hp H)).
Qed.

(* ------------------------------------------------------------------------------------------- *)
(* closed instances on dumped grammars (compared with the real scan_string(overlap=True) in      *)
(* tools/props/c08.py, `overlap_fixed`)                                                          *)
(* ------------------------------------------------------------------------------------------- *)
Definition ex_in_abab : str := [97; 98; 32; 97; 98]%N.          (* "ab ab" *)
Definition ex_empty (n : nat) : expr := Tok (A_ n false true DWS true false false true 5) [] KEmpty.     (* Empty() *)
Definition ex_in_sp : str := [32; 32; 97; 32]%N.                (* "  a " *)

Definition spans (res : list (pres * nat * nat)) : list (nat * nat) := map (fun m => (snd (fst m), snd m)) res.

(* Word("ab") over "ab ab", overlap: (0,2) "ab", (1,2) "b", (3,5) "ab" - and NOT (4,5) "b": the blank skipped in front of the
   match at 3 makes the cursor jump from 2 to the end of that match *)
Lemma ex_overlap_word : exists res,
  drun (P0 3) (scan_string (ex_word 1) true ex_in_abab None true true) = Some (res, SDone) /\
  spans res = [(0, 2); (1, 2); (3, 5)] /\
  ovisit (P0 3) (ex_word 1) ex_in_abab true (length ex_in_abab + 2) 0 = [0; 1; 2; 5] /\
  Forall (reported_ok (P0 3) (ex_word 1) ex_in_abab true) res /\
  increasing_from 0 (starts res) /\
  res = oreports (P0 3) (ex_word 1) ex_in_abab true (ovisit (P0 3) (ex_word 1) ex_in_abab true (length ex_in_abab + 2) 0).
Proof.
  eexists. assert (forall A B C D E F : Prop, A -> B -> C -> (A -> D /\ E /\ F) -> A /\ B /\ C /\ D /\ E /\ F) as Hand by tauto.
  apply Hand.
  - vm_compute. reflexivity.
  - reflexivity.
  - vm_compute. reflexivity.
  - intros H. assert (plainpre (ex_word 1)) as Hp by (apply plainpre_tok; exact I).
    split; [exact (proj1 (scan_overlap_sound _ _ _ _ _ _ _ _ _ H))|].
    split; [exact (scan_overlap_order _ _ _ _ _ _ _ _ Hp H)|].
    exact (proj1 (scan_overlap_complete _ _ _ _ _ _ _ Hp H)).
Qed.

(* overlap mode does NOT try every position of the text: in "ab ab" the parse at 4 (pre-parse of 4 is 4) matches "b" up to 5,
   exactly as the reported (1,2) does inside the first word, but 4 is never a cursor position - the cursor jumped from 2 to 5 *)
Lemma ex_overlap_not_every_position : exists res p m,
  drun (P0 3) (scan_string (ex_word 1) true ex_in_abab None true true) = Some (res, SDone) /\
  p <= length ex_in_abab /\ oreport (P0 3) (ex_word 1) ex_in_abab true p = Some m /\ ~ In m res /\
  ~ In p (ovisit (P0 3) (ex_word 1) ex_in_abab true (length ex_in_abab + 2) 0).
Proof.
  eexists. exists 4. eexists. split; [vm_compute; reflexivity|]. split; [simpl; lia|]. split; [vm_compute; reflexivity|]. split.
  - intros [H|[H|[H|[]]]]; discriminate H.
  - vm_compute. intros [H|[H|[H|[H|[]]]]]; discriminate H.
Qed.

(* the zero-width case: Empty() over "  a ", overlap: (2,2) is reported from cursor 0 (two blanks skipped), the cursor jumps
   to 2 where the same empty match does not get beyond the cursor, moves to 3, reports (4,4) behind the blank, visits 4 *)
Lemma ex_overlap_empty : exists res,
  drun (P0 3) (scan_string (ex_empty 1) true ex_in_sp None true true) = Some (res, SDone) /\
  spans res = [(2, 2); (4, 4)] /\
  ovisit (P0 3) (ex_empty 1) ex_in_sp true (length ex_in_sp + 2) 0 = [0; 2; 3; 4] /\
  increasing_from 0 (starts res) /\
  res = oreports (P0 3) (ex_empty 1) ex_in_sp true (ovisit (P0 3) (ex_empty 1) ex_in_sp true (length ex_in_sp + 2) 0).
Proof.
  eexists. assert (forall A B C D E : Prop, A -> B -> C -> (A -> D /\ E) -> A /\ B /\ C /\ D /\ E) as Hand by tauto.
  apply Hand.
  - vm_compute. reflexivity.
  - reflexivity.
  - vm_compute. reflexivity.
  - intros H. assert (plainpre (ex_empty 1)) as Hp by (apply plainpre_tok; exact I).
    split; [exact (scan_overlap_order _ _ _ _ _ _ _ _ Hp H)|].
    exact (proj1 (scan_overlap_complete _ _ _ _ _ _ _ Hp H)).
Qed.
