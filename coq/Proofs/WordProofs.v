(* Word: the character loop, the generated regex and the property's reading agree (when they do);
   Literal dispatch = startswith. *)
From Coq Require Import List NArith Arith Bool Lia.
From PP Require Import Model.Str Model.Regex Gen.GenC17 Model.ReGen Model.WordModel Proofs.RegexProofs Proofs.ReGenProofs.
Import ListNotations.

(* boolean comparisons on nat -> propositions *)
Ltac natb :=
  repeat match goal with
  | H : context [Nat.eqb ?a ?b] |- _ => destruct (Nat.eqb_spec a b)
  | |- context [Nat.eqb ?a ?b] => destruct (Nat.eqb_spec a b)
  | H : context [Nat.leb ?a ?b] |- _ => destruct (Nat.leb_spec a b)
  | |- context [Nat.leb ?a ?b] => destruct (Nat.leb_spec a b)
  | H : context [Nat.ltb ?a ?b] |- _ => destruct (Nat.ltb_spec a b)
  | |- context [Nat.ltb ?a ?b] => destruct (Nat.ltb_spec a b)
  end; simpl in *; try discriminate; try lia.

(* ------------------------------------------------------------------ the loop *)
Lemma scan_body_run : forall p s n i, scan_body p s n i = i + Nat.min n (run_len p s i).
Proof.
  induction n; intros i; simpl.
  - lia.
  - destruct (char_at s i) eqn:C.
    + rewrite (run_len_step _ _ _ _ C). destruct (p c).
      * rewrite IHn. lia.
      * lia.
    + rewrite (run_len_end _ _ _ C). lia.
Qed.

Lemma run_from_ext : forall p q l, (forall c, p c = q c) -> run_from p l = run_from q l.
Proof. intros p q l H. induction l; simpl; [reflexivity|]. rewrite H, IHl. reflexivity. Qed.

Lemma run_len_ext : forall p q s i, (forall c, p c = q c) -> run_len p s i = run_len q s i.
Proof. intros. unfold run_len. apply run_from_ext. assumption. Qed.

Lemma max_len_pos : forall a m, max_len a = Some m -> 1 <= m.
Proof.
  intros a m. unfold max_len. intros H.
  destruct (0 <? w_exact a) eqn:E; [inversion H; subst; apply Nat.ltb_lt in E; lia|].
  destruct (0 <? w_max a) eqn:F; [inversion H; subst; apply Nat.ltb_lt in F; lia|discriminate].
Qed.

(* the loop path computes the property's reading unless the strict-max clause or as_keyword interferes *)
Theorem word_loop_spec : forall strict a s loc,
  w_kw a = false -> (strict = false \/ max_specified a = false) ->
  word_loop strict a s loc = word_spec a s loc.
Proof.
  intros strict a s loc KW ST. unfold word_loop, word_spec.
  destruct (char_at s loc) eqn:C; [|reflexivity].
  destruct (in_init a c); cbn [negb]; [|reflexivity].
  rewrite scan_body_run, KW.
  replace (strict && max_specified a) with false
    by (destruct ST as [-> | ->]; [reflexivity|rewrite andb_false_r; reflexivity]).
  cbn [andb orb].
  pose proof (run_len_le (in_body a) s (S loc)) as RL.
  pose proof (char_at_lt _ _ _ C) as LT.
  set (run := run_len (in_body a) s (S loc)) in *.
  destruct (max_len a) as [m|] eqn:M.
  - pose proof (max_len_pos _ _ M).
    set (n := S (Nat.min (m - 1) run)).
    replace (S loc + Nat.min (Nat.min (loc + m) (length s) - S loc) run) with (loc + n) by (unfold n; lia).
    replace (loc + n - loc) with n by lia.
    destruct (n <? min_len a) eqn:E; destruct (min_len a <=? n) eqn:F; natb; reflexivity.
  - set (n := S run).
    replace (S loc + Nat.min (length s - S loc) run) with (loc + n) by (unfold n; lia).
    replace (loc + n - loc) with n by lia.
    destruct (n <? min_len a) eqn:E; destruct (min_len a <=? n) eqn:F; natb; reflexivity.
Qed.

(* ------------------------------------------------------------------ the regex *)
Lemma set_eqb_mem : forall x y, set_eqb x y = true -> forall c, mem_char c x = mem_char c y.
Proof.
  intros x y H c. unfold set_eqb in H. apply andb_true_iff in H. destruct H as [H1 H2].
  rewrite forallb_forall in H1, H2.
  destruct (mem_char c x) eqn:X; destruct (mem_char c y) eqn:Y; auto.
  - unfold mem_char in X. apply existsb_exists in X. destruct X as (d & Hd & Q). apply N.eqb_eq in Q. subst d.
    rewrite (H1 _ Hd) in Y. discriminate.
  - unfold mem_char in Y. apply existsb_exists in Y. destruct Y as (d & Hd & Q). apply N.eqb_eq in Q. subst d.
    rewrite (H2 _ Hd) in X. discriminate.
Qed.

Definition lead_items (a : wargs) : list citem :=
  match sort_uniq (init_set a) with
  | [c] => [CI_char c]
  | _ => collapse_items (init_set a)
  end.

Lemma leading_fragment_set : forall a, leading_fragment a = RSet false false (lead_items a).
Proof.
  intros. unfold leading_fragment, lead_items, class_re, RChr.
  destruct (sort_uniq (init_set a)) as [|c [|d t]]; reflexivity.
Qed.

Lemma lead_items_mem : forall a x, cset_mem false false (lead_items a) x = in_init a x.
Proof.
  intros. unfold lead_items, in_init.
  destruct (sort_uniq (init_set a)) as [|c [|d t]] eqn:E; try apply collapse_class.
  rewrite cset_mem_single. rewrite <- (mem_sort_uniq x (init_set a)), E.
  unfold mem_char. simpl. rewrite orb_false_r. reflexivity.
Qed.

Lemma class_re_mem : forall cs x, cset_mem false false (collapse_items cs) x = mem_char x cs.
Proof. exact collapse_class. Qed.

Lemma re_match_seq_set : forall ic neg items X s loc,
  re_match (RSeq (RSet ic neg items) X) s loc =
  match char_at s loc with
  | Some c => if cset_mem ic neg items c then re_match X s (S loc) else None
  | None => None
  end.
Proof. reflexivity. Qed.

Section RegexShapes.
  Variable a : wargs.
  Variable s : str.
  Variable loc : nat.
  Variables li bi : list citem.
  Hypothesis Hli : forall x, cset_mem false false li x = in_init a x.
  Hypothesis Hbi : forall x, cset_mem false false bi x = in_body a x.

  Let run := run_len (in_body a) s (S loc).

  (* one class, repeated: init and body are the same set *)
  Lemma shape_same_rep : forall lo hi,
    (forall x, in_body a x = in_init a x) ->
    lo = min_len a -> hi = max_len a -> 1 <= lo -> (match hi with Some h => lo <= h | None => True end) ->
    re_match (RRep Greedy lo hi (RSet false false li)) s loc = word_spec a s loc.
  Proof.
    intros lo hi SAME -> -> L1 L2. rewrite re_match_set_rep. cbv zeta. unfold word_spec.
    rewrite (run_len_ext _ (in_init a)) by exact Hli.
    destruct (char_at s loc) eqn:C.
    - rewrite (run_len_step _ _ _ _ C). destruct (in_init a c).
      + rewrite (run_len_ext (in_init a) (in_body a)) by (intro; symmetry; apply SAME). fold run.
        destruct (max_len a) as [m|].
        * destruct (min_len a <=? S run) eqn:E1; destruct (min_len a <=? S (Nat.min (m - 1) run)) eqn:E2; natb; try reflexivity; f_equal; lia.
        * destruct (min_len a <=? S run); reflexivity.
      + destruct (min_len a) eqn:Q; [lia|]. reflexivity.
    - rewrite (run_len_end _ _ _ C). destruct (min_len a) eqn:Q; [lia|]. reflexivity.
  Qed.

  (* one class, once *)
  Lemma shape_lead_only :
    min_len a = 1 -> max_len a = Some 1 ->
    re_match (RSet false false li) s loc = word_spec a s loc.
  Proof.
    intros M1 M2. rewrite re_match_set. unfold word_spec. rewrite M1, M2.
    destruct (char_at s loc); [|reflexivity]. rewrite Hli. destruct (in_init a c); [|reflexivity].
    simpl. f_equal. lia.
  Qed.

  (* lead, then the body class repeated *)
  Lemma shape_lead_body_rep : forall lo hi,
    lo = min_len a - 1 -> hi = opt_pred (max_len a) -> 1 <= min_len a ->
    (match max_len a with Some h => min_len a <= h | None => True end) ->
    re_match (RSeq (RSet false false li) (RRep Greedy lo hi (RSet false false bi))) s loc = word_spec a s loc.
  Proof.
    intros lo hi -> -> L1 L2. rewrite re_match_seq_set. unfold word_spec.
    destruct (char_at s loc) eqn:C; [|reflexivity]. rewrite Hli. destruct (in_init a c); [|reflexivity].
    rewrite re_match_set_rep. cbv zeta.
    rewrite (run_len_ext _ (in_body a)) by exact Hbi. fold run.
    destruct (max_len a) as [m|]; simpl opt_pred.
    - destruct (min_len a - 1 <=? run) eqn:E1; destruct (min_len a <=? S (Nat.min (m - 1) run)) eqn:E2; natb; try reflexivity; f_equal; lia.
    - destruct (min_len a - 1 <=? run) eqn:E1; destruct (min_len a <=? S run) eqn:E2; natb; try reflexivity; f_equal; lia.
  Qed.

  (* lead, then the body class once *)
  Lemma shape_lead_body_once :
    min_len a = 2 -> max_len a = Some 2 ->
    re_match (RSeq (RSet false false li) (RSet false false bi)) s loc = word_spec a s loc.
  Proof.
    intros M1 M2. rewrite re_match_seq_set. unfold word_spec. rewrite M1, M2.
    destruct (char_at s loc) eqn:C; [|reflexivity]. rewrite Hli. destruct (in_init a c); [|reflexivity].
    rewrite re_match_set. fold run.
    destruct (char_at s (S loc)) eqn:C2.
    - unfold run. rewrite (run_len_step _ _ _ _ C2). rewrite Hbi. destruct (in_body a c0); simpl.
      + f_equal. lia.
      + reflexivity.
    - unfold run. rewrite (run_len_end _ _ _ C2). reflexivity.
  Qed.
End RegexShapes.

Lemma valid_facts : forall a, w_valid a = true ->
  1 <= min_len a /\ (match max_len a with Some h => min_len a <= h | None => True end) /\
  (loc_max a = 0 <-> max_len a = None) /\ (forall m, max_len a = Some m -> loc_max a = m) /\ loc_min a = min_len a.
Proof.
  intros a V. unfold w_valid in V. apply andb_true_iff in V. destruct V as [V V3].
  apply andb_true_iff in V. destruct V as [_ V2].
  unfold min_len, max_len, loc_max, loc_min, min_len.
  destruct (0 <? w_exact a) eqn:E.
  - apply Nat.ltb_lt in E. repeat split; try lia; try discriminate; intros; try congruence.
  - apply Nat.leb_le in V2. destruct (0 <? w_max a) eqn:F.
    + apply Nat.ltb_lt in F. apply orb_true_iff in V3. destruct V3 as [V3|V3];
        [apply Nat.eqb_eq in V3; lia|apply Nat.leb_le in V3].
      repeat split; try lia; try discriminate; intros; try congruence.
    + apply Nat.ltb_ge in F. repeat split; try lia; try discriminate; intros; try congruence; auto.
Qed.

(* the regex path computes the property's reading when as_keyword is off (and some init character survives
   exclude_chars, which the guard makes a precondition of having a regex at all) *)
Ltac wfin M :=
  auto; try lia;
  try (rewrite M; simpl; first [reflexivity | exact I | lia | assumption
                               | (f_equal; lia)
                               | (match goal with |- context [0 <? ?m] => replace (0 <? m) with true by (symmetry; apply Nat.ltb_lt; lia) end; reflexivity)]).

Theorem word_regex_spec : forall guard a r s loc,
  w_valid a = true -> w_kw a = false -> init_set a <> [] ->
  word_regex guard a = Some r ->
  word_regex_path r s loc = word_spec a s loc.
Proof.
  intros guard a r s loc V KW NE H. unfold word_regex_path.
  destruct (valid_facts a V) as (L1 & L2 & Z & MX & LM).
  unfold word_regex in H.
  destruct (mem_char SP (init_set a ++ body_set a)); [discriminate|].
  destruct (init_set a) as [|i0 it] eqn:IS; [congruence|]. rewrite <- IS in *.
  rewrite KW in H. unfold kw_wrap in H. rewrite leading_fragment_set in H.
  pose proof (lead_items_mem a) as Hli.
  assert (Hbi : forall x, cset_mem false false (collapse_items (body_set a)) x = in_body a x)
    by (intro; apply collapse_class).
  rewrite LM in H. unfold class_re in H.
  assert (SAME : set_eqb (body_set a) (init_set a) = true -> forall x, in_body a x = in_init a x)
    by (intros SE x; apply set_eqb_mem; exact SE).
  destruct (max_len a) as [m|] eqn:M.
  - assert (LMX : loc_max a = m) by (apply MX; reflexivity).
    pose proof (max_len_pos _ _ M) as MP. rewrite LMX in H. clear Z MX.
    replace ((m =? 0) && (min_len a =? 1)) with false in H by (destruct (Nat.eqb_spec m 0); [lia|reflexivity]).
    destruct (set_eqb (body_set a) (init_set a)) eqn:SE.
    + specialize (SAME eq_refl).
      destruct (Nat.eqb_spec m 1) as [M1|M1].
      * inversion H; subst r. apply (shape_lead_only a s loc _ Hli); subst; wfin M.
      * destruct (Nat.eqb_spec (min_len a) m) as [Q|Q]; cbn [negb] in H; inversion H; subst r.
        -- apply (shape_same_rep a s loc _ Hli); try rewrite <- Q in *; wfin M.
        -- apply (shape_same_rep a s loc _ Hli); wfin M.
    + destruct (Nat.eqb_spec m 1) as [M1|M1].
      * inversion H; subst r. apply (shape_lead_only a s loc _ Hli); subst; wfin M.
      * destruct (Nat.eqb_spec m 2) as [M2|M2].
        -- destruct (Nat.leb_spec (min_len a) 1) as [Q|Q]; inversion H; subst r.
           ++ apply (shape_lead_body_rep a s loc _ _ Hli Hbi); subst; wfin M.
           ++ apply (shape_lead_body_once a s loc _ _ Hli Hbi); subst; wfin M.
        -- destruct (Nat.eqb_spec (min_len a) m) as [Q|Q]; cbn [negb] in H; inversion H; subst r.
           ++ apply (shape_lead_body_rep a s loc _ _ Hli Hbi); try rewrite <- Q in *; wfin M.
           ++ apply (shape_lead_body_rep a s loc _ _ Hli Hbi); wfin M.
  - assert (LMX : loc_max a = 0) by (apply Z; reflexivity). rewrite LMX in H. clear Z MX.
    cbn [Nat.eqb andb negb] in H.
    destruct (set_eqb (body_set a) (init_set a)) eqn:SE.
    + specialize (SAME eq_refl).
      destruct (Nat.eqb_spec (min_len a) 1) as [Q|Q]; inversion H; subst r.
      * apply (shape_same_rep a s loc _ Hli); wfin M.
      * apply (shape_same_rep a s loc _ Hli); wfin M.
    + destruct (Nat.eqb_spec (min_len a) 1) as [Q|Q].
      * inversion H; subst r. apply (shape_lead_body_rep a s loc _ _ Hli Hbi); wfin M.
      * destruct (Nat.eqb_spec (min_len a) 0) as [Q0|Q0]; [lia|]. cbn [negb] in H.
        inversion H; subst r. apply (shape_lead_body_rep a s loc _ _ Hli Hbi); wfin M.
Qed.

(* with the guard, a regex exists only when some init character survives exclude_chars *)
Lemma word_regex_guard_nonempty : forall a r, word_regex true a = Some r -> init_set a <> [].
Proof.
  intros a r H. unfold word_regex in H.
  destruct (mem_char SP (init_set a ++ body_set a)); [discriminate|].
  destruct (init_set a); [discriminate|]. discriminate.
Qed.

(* both source facts arbitrary *)
Theorem word_paths_any_tree : forall (strict guard : bool) (a : wargs) (s : str) (loc : nat),
  w_valid a = true -> w_kw a = false ->
  (strict = false \/ max_specified a = false) -> (guard = true \/ init_set a <> []) ->
  word_loop strict a s loc = word_spec a s loc /\
  (forall r, word_regex guard a = Some r -> word_regex_path r s loc = word_spec a s loc).
Proof.
  intros strict guard a s loc V KW ST GD. split.
  - apply word_loop_spec; assumption.
  - intros r H. eapply word_regex_spec; eauto.
    destruct GD as [->|NE]; [eapply word_regex_guard_nonempty; eauto|exact NE].
Qed.

(* the repaired tree: no strict clause, guarded regex *)
Theorem word_paths_repaired : forall (a : wargs) (s : str) (loc : nat),
  w_valid a = true -> w_kw a = false ->
  word_loop gen_word_strict a s loc = word_spec a s loc /\
  (forall r, word_regex gen_word_guard a = Some r -> word_regex_path r s loc = word_spec a s loc) /\
  word_parse gen_word_strict gen_word_guard a s loc = word_spec a s loc.
Proof.
  intros a s loc V KW.
  destruct (word_paths_any_tree gen_word_strict gen_word_guard a s loc V KW) as (H1 & H2).
  - left. reflexivity.
  - left. reflexivity.
  - split; [exact H1|split; [exact H2|]].
    unfold word_parse. destruct (word_regex gen_word_guard a) eqn:E; [apply H2; reflexivity|exact H1].
Qed.

(* ------------------------------------------------------------------ Literal dispatch *)
Lemma starts_at_nil : forall s loc, starts_at s loc [] = true.
Proof. reflexivity. Qed.

Lemma starts_at_single : forall s loc f,
  starts_at s loc [f] = match char_at s loc with Some c => N.eqb c f | None => false end.
Proof.
  intros. rewrite starts_at_cons. destruct (char_at s loc); [|reflexivity].
  rewrite starts_at_nil, andb_true_r. apply N.eqb_sym.
Qed.

Lemma starts_at_first : forall s loc f w,
  starts_at s loc (f :: w) = true -> exists c, char_at s loc = Some c /\ N.eqb c f = true.
Proof.
  intros s loc f w H. rewrite starts_at_cons in H. destruct (char_at s loc) as [c|]; [|discriminate].
  apply andb_true_iff in H. destruct H as [H _]. exists c. split; auto. rewrite N.eqb_sym. exact H.
Qed.

(* whichever class Literal.__new__ picks: match iff the string starts with w at loc (loc inside the string, or w
   empty), ending at loc + len(w) *)
Theorem literal_parse_spec : forall w s loc,
  literal_parse w s loc =
  if starts_at s loc w && (match w with [] => true | _ => loc <? length s end) then Some (loc + length w) else None.
Proof.
  intros w s loc. unfold literal_parse, literal_class.
  destruct w as [|f [|g t]].
  - simpl. rewrite Nat.add_0_r. reflexivity.
  - rewrite starts_at_single. destruct (char_at s loc) eqn:C.
    + apply char_at_lt in C. apply Nat.ltb_lt in C. rewrite C, andb_true_r. reflexivity.
    + reflexivity.
  - destruct (char_at s loc) eqn:C.
    + pose proof (char_at_lt _ _ _ C) as L. apply Nat.ltb_lt in L. rewrite L, andb_true_r.
      destruct (starts_at s loc (f :: g :: t)) eqn:S.
      * destruct (starts_at_first _ _ _ _ S) as (c' & C' & Q). rewrite C in C'. inversion C'; subst c'.
        rewrite Q. reflexivity.
      * rewrite andb_false_r. reflexivity.
    + assert (starts_at s loc (f :: g :: t) = false).
      { rewrite starts_at_cons, C. reflexivity. }
      rewrite H. reflexivity.
Qed.
