(* C04: the growth loop of `Forward.parseImpl` under left recursion (Model/LR.v): memo-table lemmas, termination of the
   growth loop without loop fuel, "no base case" answers, the round-by-round characterisation of a direct left-recursive
   rule, capacity independence. *)
From Coq Require Import List ZArith NArith Bool Arith Lia.
From PP Require Import Model.Str Model.Results Model.Prog Model.Core Model.Entry Model.LR.
From PP Require Import Proofs.PegEquiv.
Import ListNotations.

(* ------------------------------------------------------------------------------------------- *)
(* 0. the memo tables                                                                           *)
(* ------------------------------------------------------------------------------------------- *)
Lemma mkey_eqb_eq a b : mkey_eqb a b = true <-> a = b.
Proof.
  destruct a as [[l1 f1] d1], b as [[l2 f2] d2]. unfold mkey_eqb. split.
  - intros H. apply andb_prop in H as [H H3]. apply andb_prop in H as [H1 H2].
    apply Nat.eqb_eq in H1. apply Nat.eqb_eq in H2. apply Bool.eqb_prop in H3. congruence.
  - intros [= -> -> ->]. rewrite !Nat.eqb_refl, Bool.eqb_reflx. reflexivity.
Qed.

Lemma mkey_eqb_refl k : mkey_eqb k k = true.
Proof. apply mkey_eqb_eq. reflexivity. Qed.

Lemma mkey_eqb_neq a b : a <> b -> mkey_eqb a b = false.
Proof. intros H. destruct (mkey_eqb a b) eqn:E; [|reflexivity]. apply mkey_eqb_eq in E. contradiction. Qed.

Lemma assoc_aset_same {V} (d : list (mkey * V)) k v : assoc (aset d k v) k = Some v.
Proof.
  induction d as [|[k' v'] d IH]; simpl.
  - rewrite mkey_eqb_refl. reflexivity.
  - destruct (mkey_eqb k' k) eqn:E; simpl; rewrite E; [reflexivity|exact IH].
Qed.

Lemma assoc_aset_other {V} (d : list (mkey * V)) k v k' : k <> k' -> assoc (aset d k v) k' = assoc d k'.
Proof.
  intros Hn. induction d as [|[k0 v0] d IH]; simpl.
  - rewrite (mkey_eqb_neq _ _ Hn). reflexivity.
  - destruct (mkey_eqb k0 k) eqn:E; simpl.
    + apply mkey_eqb_eq in E. subst k0. rewrite (mkey_eqb_neq _ _ Hn). reflexivity.
    + destruct (mkey_eqb k0 k'); [reflexivity|exact IH].
Qed.

Lemma assoc_aremove_other {V} (d : list (mkey * V)) k k' : k <> k' -> assoc (aremove d k) k' = assoc d k'.
Proof.
  intros Hn. induction d as [|[k0 v0] d IH]; simpl; [reflexivity|].
  destruct (mkey_eqb k0 k) eqn:E; simpl.
  - apply mkey_eqb_eq in E. subst k0. rewrite (mkey_eqb_neq _ _ Hn). reflexivity.
  - destruct (mkey_eqb k0 k'); [reflexivity|exact IH].
Qed.

(* the view of a table that the growth loop depends on: its active part *)
Definition active (m : memo) (k : mkey) : option mval := assoc (m_active m) k.

(* an active entry is what `memo[key]` returns, and reading it changes nothing: any capacity *)
Lemma memo_get_active m k v : active m k = Some v -> memo_get m k = Some (v, m).
Proof. unfold active, memo_get. intros ->. destruct (m_cap m); reflexivity. Qed.

Lemma active_set_same m k v : active (memo_set m k v) k = Some v.
Proof. unfold active, memo_set. destruct (m_cap m); simpl; apply assoc_aset_same. Qed.

Lemma active_set_other m k v k' : k <> k' -> active (memo_set m k v) k' = active m k'.
Proof. intros H. unfold active, memo_set. destruct (m_cap m); simpl; apply assoc_aset_other; exact H. Qed.

Lemma active_del_other m k k' : k <> k' -> active (memo_del m k) k' = active m k'.
Proof.
  intros H. unfold active, memo_del. destruct (m_cap m); [|reflexivity].
  destruct (assoc (m_active m) k); [|reflexivity]. simpl. apply assoc_aremove_other. exact H.
Qed.

Lemma cap_set m k v : m_cap (memo_set m k v) = m_cap m.
Proof. unfold memo_set. destruct (m_cap m); reflexivity. Qed.

Lemma cap_del m k : m_cap (memo_del m k) = m_cap m.
Proof. unfold memo_del. destruct (m_cap m) eqn:E; [|exact E]. destruct (assoc (m_active m) k); [reflexivity|exact E]. Qed.

(* `memo[k] = v ; ... ; memo[k]` : an entry stays readable until it is deleted or overwritten, whatever the capacity *)
Lemma memo_get_set_same m k v : memo_get (memo_set m k v) k = Some (v, memo_set m k v).
Proof. apply memo_get_active. apply active_set_same. Qed.

Lemma memo_get_set_other_active m k v k' v' :
  k <> k' -> active m k' = Some v' -> memo_get (memo_set m k v) k' = Some (v', memo_set m k v).
Proof. intros Hn Ha. apply memo_get_active. rewrite active_set_other by exact Hn. exact Ha. Qed.

Lemma memo_get_del_other_active m k k' v' :
  k <> k' -> active m k' = Some v' -> memo_get (memo_del m k) k' = Some (v', memo_del m k).
Proof. intros Hn Ha. apply memo_get_active. rewrite active_del_other by exact Hn. exact Ha. Qed.

(* a sequence of memo operations on other keys *)
Inductive memo_op := OSet (k : mkey) (v : mval) | ODel (k : mkey) | OGet (k : mkey).
Definition op_key (o : memo_op) : mkey := match o with OSet k _ | ODel k | OGet k => k end.
Definition apply_op (m : memo) (o : memo_op) : memo :=
  match o with
  | OSet k v => memo_set m k v
  | ODel k => memo_del m k
  | OGet k => match memo_get m k with Some (_, m') => m' | None => m end
  end.

Lemma active_get m k k' : active (apply_op m (OGet k)) k' = active m k'.
Proof.
  unfold apply_op, memo_get, active. destruct (m_cap m); destruct (assoc (m_active m) k); try reflexivity.
  destruct (assoc (m_memory m) k); reflexivity.
Qed.

Lemma active_ops_other ops : forall m k, (forall o, In o ops -> op_key o <> k) ->
  active (fold_left apply_op ops m) k = active m k.
Proof.
  induction ops as [|o ops IH]; intros m k H; simpl; [reflexivity|].
  rewrite IH by (intros o' Ho'; apply H; right; exact Ho').
  assert (Hk : op_key o <> k) by (apply H; left; reflexivity).
  destruct o as [k0 v0|k0|k0]; simpl in Hk.
  - apply active_set_other. exact Hk.
  - apply active_del_other. exact Hk.
  - apply active_get.
Qed.

(* capacity independence of the memo table for an entry that is set and not touched:
   whatever happens to other keys (sets, deletions with their LRU evictions, reads with their LRU reordering),
   `memo[k]` still returns the value, for UnboundedMemo and for LRUMemo of every capacity *)
Lemma memo_entry_survives m k v ops :
  (forall o, In o ops -> op_key o <> k) ->
  exists m', memo_get (fold_left apply_op ops (memo_set m k v)) k = Some (v, m').
Proof.
  intros H. eexists. apply memo_get_active. rewrite active_ops_other by exact H. apply active_set_same.
Qed.

(* ------------------------------------------------------------------------------------------- *)
(* 1. the growth loop needs no loop fuel                                                        *)
(* ------------------------------------------------------------------------------------------- *)
Definition hrec := memo -> args -> option (outcome * memo).

(* one unfolding of the `while True:` loop *)
Lemma lr_loop_S (rec : hrec) f a body s loc d prev_loc prev_peek m :
  lr_loop rec (S f) a body s loc d prev_loc prev_peek m =
  let fid := nid a in
  let act_key := (loc, fid, true) in
  let peek_key := (loc, fid, false) in
  match super_impl rec a body s loc false m with
  | None => None
  | Some (o, m1) =>
    let cont (new_loc : Z) (new_peek : mres) (m1 : memo) : option (outcome * memo) :=
      if (new_loc <=? prev_loc)%Z then
        if d then
          match memo_get m1 act_key with
          | None => Some (Err (mkx XKey 0%Z MEmpty None), m1)
          | Some ((pl, pr), m2) =>
            let m3 := memo_set m2 peek_key (pl, pr) in
            let m4 := memo_del (memo_del m3 peek_key) act_key in
            match pr with
            | MOk r => Some (Ok (Z.to_nat pl) r, m4)
            | MExc x => Some (Err x, m4)
            end
          end
        else
          let m2 := memo_del m1 peek_key in
          match prev_peek with
          | MOk r => Some (Ok (Z.to_nat prev_loc) r, m2)
          | MExc x => Some (Err x, m2)
          end
      else
        if d then
          match super_impl rec a body s loc true m1 with
          | None => None
          | Some (Ok l r, m2) =>
            let m3 := memo_set m2 act_key (Z.of_nat l, MOk r) in
            lr_loop rec f a body s loc d new_loc new_peek (memo_set m3 peek_key (new_loc, new_peek))
          | Some (Err x, m2) =>
            if is_pe (xk x) then
              let m3 := memo_set m2 act_key (new_loc, MExc x) in
              Some (Err x, memo_set m3 peek_key (new_loc, MExc x))
            else Some (Err x, m2)
          | Some (Div, m2) => Some (Div, m2)
          end
        else lr_loop rec f a body s loc d new_loc new_peek (memo_set m1 peek_key (new_loc, new_peek)) in
    match o with
    | Ok l r => cont (Z.of_nat l) (MOk r) m1
    | Err x =>
      if is_pe (xk x) then
        match prev_peek with
        | MExc _ => Some (Err x, m1)
        | MOk _ => cont prev_loc prev_peek m1
        end
      else Some (Err x, m1)
    | Div => Some (Div, m1)
    end
  end.
Proof. reflexivity. Qed.

(* the hypothesis on the body: a successful `super().parseImpl(instring, loc, False)` never ends beyond `bound`
   (for the real elements: bound = len(instring) + 1, the +1 being StringEnd/LineEnd at the very end) *)
Definition ends_bounded (rec : hrec) (a : attrs) (body : expr) (s : str) (loc : nat) (bound : nat) : Prop :=
  forall m l r m', super_impl rec a body s loc false m = Some (Ok l r, m') -> l <= bound.

(* fuel irrelevance: once the fuel exceeds the distance of `prev_loc` to the bound, more fuel changes nothing, i.e. the
   `0 => Div` branch of `lr_loop` is never reached.  ANY semantics `rec` of the body, any memo, any capacity. *)
Lemma lr_loop_fuel_irrelevant (rec : hrec) a body s loc d bound :
  ends_bounded rec a body s loc bound ->
  forall n prev_loc prev_peek m,
    1 <= n -> (Z.of_nat n > Z.of_nat bound - prev_loc)%Z ->
    lr_loop rec n a body s loc d prev_loc prev_peek m = lr_loop rec (S n) a body s loc d prev_loc prev_peek m.
Proof.
  intros HB. induction n as [|n IH]; intros pl pp m Hn Hgt; [lia|].
  rewrite (lr_loop_S rec (S n)). rewrite (lr_loop_S rec n). cbv zeta.
  destruct (super_impl rec a body s loc false m) as [[o m1]|] eqn:Es; [|reflexivity].
  destruct o as [l r|x|]; [| |reflexivity].
  - pose proof (HB _ _ _ _ Es) as Hl.
    destruct (Z.of_nat l <=? pl)%Z eqn:Ele; [reflexivity|]. apply Z.leb_gt in Ele.
    assert (1 <= n) by lia. assert (Z.of_nat n > Z.of_nat bound - Z.of_nat l)%Z by lia.
    destruct d.
    + destruct (super_impl rec a body s loc true m1) as [[o2 m2]|]; [|reflexivity].
      destruct o2 as [l2 r2|x2|]; try reflexivity. apply IH; assumption.
    + apply IH; assumption.
  - destruct (is_pe (xk x)); [|reflexivity]. destruct pp as [r0|x0]; [|reflexivity].
    rewrite Z.leb_refl. reflexivity.
Qed.

Lemma lr_loop_fuel_ge (rec : hrec) a body s loc d bound :
  ends_bounded rec a body s loc bound ->
  forall k n prev_loc prev_peek m,
    1 <= n -> (Z.of_nat n > Z.of_nat bound - prev_loc)%Z ->
    lr_loop rec (n + k) a body s loc d prev_loc prev_peek m = lr_loop rec n a body s loc d prev_loc prev_peek m.
Proof.
  intros HB. induction k as [|k IH]; intros n pl pp m Hn Hgt.
  - rewrite Nat.add_0_r. reflexivity.
  - rewrite Nat.add_succ_r. rewrite <- (lr_loop_fuel_irrelevant rec a body s loc d bound HB (n + k)) by lia.
    apply IH; assumption.
Qed.

(* the loop as started by Forward.parseImpl: prev_loc = loc - 1, fuel len + 3 *)
Lemma growth_terminates (rec : hrec) a body s loc d :
  ends_bounded rec a body s loc (length s + 1) ->
  forall extra prev_peek m,
    lr_loop rec (length s + 3 + extra) a body s loc d (Z.of_nat loc - 1) prev_peek m =
    lr_loop rec (length s + 3) a body s loc d (Z.of_nat loc - 1) prev_peek m.
Proof. intros HB extra pp m. apply (lr_loop_fuel_ge rec a body s loc d _ HB); lia. Qed.

(* explicit form: if the handler of the body never reports divergence, neither does the loop *)
Definition never_div (rec : hrec) : Prop := forall m a o m', rec m a = Some (o, m') -> o <> Div.

Lemma super_impl_never_div (rec : hrec) a body s loc d m o m' :
  never_div rec -> super_impl rec a body s loc d m = Some (o, m') -> o <> Div.
Proof.
  intros HD. unfold super_impl. destruct (rec m (mkargs body s loc d false)) as [[o1 m1]|] eqn:E; [|discriminate].
  pose proof (HD _ _ _ _ E) as Hn. destruct o1; intros [= <- <-]; congruence.
Qed.

Lemma lr_loop_no_exhaustion (rec : hrec) a body s loc d bound :
  ends_bounded rec a body s loc bound -> never_div rec ->
  forall n prev_loc prev_peek m o m',
    1 <= n -> (Z.of_nat n > Z.of_nat bound - prev_loc)%Z ->
    lr_loop rec n a body s loc d prev_loc prev_peek m = Some (o, m') -> o <> Div.
Proof.
  intros HB HD. induction n as [|n IH]; intros pl pp m o m' Hn Hgt; [lia|].
  rewrite lr_loop_S. cbv zeta.
  destruct (super_impl rec a body s loc false m) as [[o1 m1]|] eqn:Es; [|discriminate].
  pose proof (super_impl_never_div _ _ _ _ _ _ _ _ _ HD Es) as Hnd.
  destruct o1 as [l r|x|]; [| |congruence].
  - pose proof (HB _ _ _ _ Es) as Hl.
    destruct (Z.of_nat l <=? pl)%Z eqn:Ele.
    + destruct d.
      * destruct (memo_get m1 (loc, nid a, true)) as [[[pl1 pr1] m2]|]; [|intros [= <- <-]; discriminate].
        destruct pr1; intros [= <- <-]; discriminate.
      * destruct pp; intros [= <- <-]; discriminate.
    + apply Z.leb_gt in Ele.
      assert (1 <= n) by lia. assert (Z.of_nat n > Z.of_nat bound - Z.of_nat l)%Z by lia.
      destruct d.
      * destruct (super_impl rec a body s loc true m1) as [[o2 m2]|] eqn:Es2; [|discriminate].
        pose proof (super_impl_never_div _ _ _ _ _ _ _ _ _ HD Es2) as Hnd2.
        destruct o2 as [l2 r2|x2|]; [| |congruence].
        -- apply IH; assumption.
        -- destruct (is_pe (xk x2)); intros [= <- <-]; discriminate.
      * apply IH; assumption.
  - destruct (is_pe (xk x)); [|intros [= <- <-]; discriminate].
    destruct pp as [r0|x0]; [|intros [= <- <-]; discriminate].
    rewrite Z.leb_refl. destruct d.
    + destruct (memo_get m1 (loc, nid a, true)) as [[[pl1 pr1] m2]|]; [|intros [= <- <-]; discriminate].
      destruct pr1; intros [= <- <-]; discriminate.
    + intros [= <- <-]; discriminate.
Qed.

(* non-vacuity of the fuel bound: with less fuel the loop CAN exhaust (so the theorem is not true "by totalisation") *)

(* ------------------------------------------------------------------------------------------- *)
(* 2. no base case                                                                              *)
(* ------------------------------------------------------------------------------------------- *)
Definition seed_exn (loc fid : nat) : exn := mkx XParse (Z.of_nat loc) MFwdNoBase (Some fid).

(* the memo with the seeds installed, as Forward.parseImpl does on a miss *)
Definition seeded (m : memo) (loc fid : nat) (d : bool) : memo :=
  let v := ((Z.of_nat loc - 1)%Z, MExc (seed_exn loc fid)) in
  let m1 := memo_set m (loc, fid, false) v in
  if d then memo_set m1 (loc, fid, true) v else m1.

Lemma lr_forward_miss (rec : hrec) a body s loc d m :
  memo_get m (loc, nid a, d) = None ->
  lr_forward rec a body s loc d m =
  lr_loop rec (length s + 3) a body s loc d (Z.of_nat loc - 1) (MExc (seed_exn loc (nid a))) (seeded m loc (nid a) d).
Proof. intros H. unfold lr_forward. rewrite H. reflexivity. Qed.

(* a hit on a stored exception (in particular on a seed) raises it *)
Lemma lr_forward_hit_exc (rec : hrec) a body s loc d m pl x m1 :
  memo_get m (loc, nid a, d) = Some ((pl, MExc x), m1) ->
  lr_forward rec a body s loc d m = Some (Err x, m1).
Proof. intros H. unfold lr_forward. rewrite H. reflexivity. Qed.

Lemma lr_forward_hit_ok (rec : hrec) a body s loc d m pl r m1 :
  memo_get m (loc, nid a, d) = Some ((pl, MOk r), m1) ->
  lr_forward rec a body s loc d m = Some (Ok (Z.to_nat pl) r, m1).
Proof. intros H. unfold lr_forward. rewrite H. reflexivity. Qed.

(* the seed is what a nested occurrence of the same Forward at the same location sees during the first round *)
Lemma seeded_active m loc fid d dd :
  (dd = true -> d = true) ->
  active (seeded m loc fid d) (loc, fid, dd) = Some ((Z.of_nat loc - 1)%Z, MExc (seed_exn loc fid)).
Proof.
  intros H. unfold seeded. destruct d; cbv zeta.
  - destruct dd.
    + apply active_set_same.
    + rewrite active_set_other by congruence. apply active_set_same.
  - destruct dd; [specialize (H eq_refl); discriminate|]. apply active_set_same.
Qed.

Lemma lr_forward_seed_hit (rec : hrec) a body s loc d dd m :
  (dd = true -> d = true) ->
  lr_forward rec a body s loc dd (seeded m loc (nid a) d) =
  Some (Err (seed_exn loc (nid a)), seeded m loc (nid a) d).
Proof.
  intros H. eapply lr_forward_hit_exc. apply memo_get_active. apply seeded_active. exact H.
Qed.

(* first round fails with a ParseException: that exception is the answer (never Div, never None) *)
Lemma no_base_case (rec : hrec) a body s loc d m x m1 :
  memo_get m (loc, nid a, d) = None ->
  super_impl rec a body s loc false (seeded m loc (nid a) d) = Some (Err x, m1) ->
  is_pe (xk x) = true ->
  lr_forward rec a body s loc d m = Some (Err x, m1).
Proof.
  intros Hm Hs Hpe. rewrite lr_forward_miss by exact Hm.
  replace (length s + 3) with (S (length s + 2)) by lia.
  rewrite lr_loop_S. cbv zeta. rewrite Hs, Hpe. reflexivity.
Qed.

(* ---- the handler `parse_lr`: unfoldings ---- *)
Lemma parse_lr_fwd G f m a ign id body s loc d pre :
  nth_error G id = Some body ->
  parse_lr G (S f) m (mkargs (Fwd a ign (Some id)) s loc d pre) =
  let e := Fwd a ign (Some id) in
  match runm (parse_lr G f) m (if pre && callpre a
                               then pre_parse escape e s loc (fun l => Ret (Ok l pr_empty))
                               else Ret (Ok loc pr_empty)) with
  | None => None
  | Some (Ok pre_loc _, m1) =>
    match lr_forward (parse_lr G f) a body s pre_loc d m1 with
    | None => None
    | Some (Ok l r, m2) => runm (parse_lr G f) m2 (step_k e s d pre_loc (inr (l, RPR r)))
    | Some (Err x, m2) => runm (parse_lr G f) m2 (step_k e s d pre_loc (inl (if is_index (xk x) then IIndexError else IExc x)))
    | Some (Div, m2) => Some (Div, m2)
    end
  | Some (o, m1) => Some (o, m1)
  end.
Proof. intros H. cbn [parse_lr a_e mkargs a_s a_do a_pre a_loc]. rewrite H. reflexivity. Qed.

Lemma parse_lr_nary G f m a ign k es s loc d pre :
  parse_lr G (S f) m (mkargs (Nary a ign k es) s loc d pre) =
  runm (parse_lr G f) m (step G (mkargs (Nary a ign k es) s loc d pre)).
Proof. reflexivity. Qed.

Lemma pre_parse_fwd_nil fail a id s loc k :
  pre_parse fail (Fwd a [] id) s loc k = k (if skipws a then skip_white s loc (white a) else loc).
Proof. unfold pre_parse. cbn [ign_of attrs_of]. rewrite skip_ignorables_nil. reflexivity. Qed.

Lemma pre_parse_nary_nil fail a kd es s loc k :
  pre_parse fail (Nary a [] kd es) s loc k = k (if skipws a then skip_white s loc (white a) else loc).
Proof. unfold pre_parse. cbn [ign_of attrs_of]. rewrite skip_ignorables_nil. reflexivity. Qed.

(* where a Forward without ignorables starts parsing *)
Definition fwd_start (a : attrs) (s : str) (loc : nat) (pre : bool) : nat :=
  if pre && callpre a then (if skipws a then skip_white s loc (white a) else loc) else loc.

Lemma enh_rewrite_seed a loc : enh_rewrite a true loc (seed_exn loc (nid a)) = seed_exn loc (nid a).
Proof. unfold enh_rewrite, seed_exn. cbn. destruct (Z.of_nat loc =? 0)%Z; reflexivity. Qed.

(* `E <<= E + rest` : the body is an And whose first element is E itself (any attributes, any rest).
   For every input, location, do_actions, capacity and memo without an entry for E here, the answer is the seed
   exception "Forward recursion without base case" located where E starts — no recursion, no divergence. *)
Lemma self_and_no_base G id aE ab rest :
  nth_error G id = Some (Nary ab [] NAnd (Fwd aE [] (Some id) :: rest)) ->
  forall f m s loc d pre,
    memo_get m (fwd_start aE s loc pre, nid aE, d) = None ->
    parse_lr G (3 + f) m (mkargs (Fwd aE [] (Some id)) s loc d pre) =
    Some (Err (seed_exn (fwd_start aE s loc pre) (nid aE)),
          seeded m (fwd_start aE s loc pre) (nid aE) d).
Proof.
  intros HG f m s loc d pre Hmiss.
  set (L := fwd_start aE s loc pre) in *.
  change (3 + f) with (S (S (S f))).
  rewrite (parse_lr_fwd G _ m aE [] id _ s loc d pre HG). cbv zeta.
  assert (Hpre : (if pre && callpre aE
                  then pre_parse escape (Fwd aE [] (Some id)) s loc (fun l => Ret (Ok l pr_empty))
                  else Ret (Ok loc pr_empty)) = Ret (Ok L pr_empty)).
  { unfold L, fwd_start. destruct (pre && callpre aE); [|reflexivity]. rewrite pre_parse_fwd_nil. reflexivity. }
  rewrite Hpre. cbn [runm].
  assert (Hs : super_impl (parse_lr G (S (S f))) aE (Nary ab [] NAnd (Fwd aE [] (Some id) :: rest)) s L false
                          (seeded m L (nid aE) d) =
               Some (Err (seed_exn L (nid aE)), seeded m L (nid aE) d)).
  { unfold super_impl. rewrite parse_lr_nary.
    unfold step. cbn [a_e a_s a_do a_pre a_loc mkargs andb attrs_of impl call]. cbn [runm].
    unfold call. cbn [runm].
    rewrite (parse_lr_fwd G f _ aE [] id _ s L false false HG). cbv zeta. cbn [andb runm].
    rewrite (lr_forward_seed_hit (parse_lr G f) aE _ s L d false m) by discriminate.
    cbn [seed_exn mkx xk is_index step_k runm failo_of fail_of].
    rewrite enh_rewrite_seed. reflexivity. }
  rewrite (no_base_case _ _ _ _ _ _ _ _ _ Hmiss Hs eq_refl).
  reflexivity.
Qed.

(* ------------------------------------------------------------------------------------------- *)
(* 3. the growth rounds without the memo                                                        *)
(* ------------------------------------------------------------------------------------------- *)
(* Stored results the loop itself produces: successes, or ParseExceptions (the seed is one) *)
Definition pe_res (pr : mres) : Prop := match pr with MOk _ => True | MExc x => is_pe (xk x) = true end.

Definition stop_out (pl : Z) (pp : mres) : outcome :=
  match pp with MOk r => Ok (Z.to_nat pl) r | MExc x => Err x end.

Section Growth.
Variable rec : hrec.
Variables (a : attrs) (body : expr) (s : str) (loc : nat).
(* what `super().parseImpl(instring, loc, do)` answers when the entry of this Forward at this location holds (pl, pr) *)
Variable body_out : Z -> mres -> outcome.

Let peek_key : mkey := (loc, nid a, false).
Let act_key : mkey := (loc, nid a, true).

(* "the body reads the memo only through this Forward's own entry at loc, and leaves the memo as it is";
   the same answer with and without actions (no do_actions-sensitive parse action in the rule) *)
Definition body_reads_own_entry : Prop :=
  forall dd m pl pr, pe_res pr -> active m (loc, nid a, dd) = Some (pl, pr) ->
    super_impl rec a body s loc dd m = Some (body_out pl pr, m).

(* the loop, memo-free *)
Fixpoint grow (fuel : nat) (pl : Z) (pp : mres) : outcome :=
  match fuel with
  | 0 => Div
  | S f =>
    match body_out pl pp with
    | Ok l r => if (Z.of_nat l <=? pl)%Z then stop_out pl pp else grow f (Z.of_nat l) (MOk r)
    | Err x => if is_pe (xk x) then match pp with MExc _ => Err x | MOk _ => stop_out pl pp end else Err x
    | Div => Div
    end
  end.

Definition ginv (d : bool) (m : memo) (pl : Z) (pp : mres) : Prop :=
  active m peek_key = Some (pl, pp) /\ (d = true -> active m act_key = Some (pl, pp)).

Lemma act_peek_neq : peek_key <> act_key.
Proof. unfold peek_key, act_key. congruence. Qed.

Lemma lr_loop_grow (H : body_reads_own_entry) d :
  forall n pl pp m, pe_res pp -> ginv d m pl pp ->
  exists m', lr_loop rec n a body s loc d pl pp m = Some (grow n pl pp, m') /\ m_cap m' = m_cap m /\
             forall k, k <> peek_key -> k <> act_key -> active m' k = active m k.
Proof.
  pose proof act_peek_neq as Hne.
  assert (Hstop : forall pl pp m, ginv d m pl pp ->
    exists m', (if d then
                 match memo_get m act_key with
                 | None => Some (Err (mkx XKey 0%Z MEmpty None), m)
                 | Some ((pl', pr), m2) =>
                   let m3 := memo_set m2 peek_key (pl', pr) in
                   let m4 := memo_del (memo_del m3 peek_key) act_key in
                   match pr with MOk r => Some (Ok (Z.to_nat pl') r, m4) | MExc x => Some (Err x, m4) end
                 end
               else
                 let m2 := memo_del m peek_key in
                 match pp with MOk r => Some (Ok (Z.to_nat pl) r, m2) | MExc x => Some (Err x, m2) end)
               = Some (stop_out pl pp, m') /\ m_cap m' = m_cap m /\
               forall k, k <> peek_key -> k <> act_key -> active m' k = active m k).
  { intros pl pp m [Hp Ha]. destruct d.
    - rewrite (memo_get_active _ _ _ (Ha eq_refl)). cbv zeta.
      eexists. split; [destruct pp; reflexivity|]. split.
      + rewrite !cap_del, cap_set. reflexivity.
      + intros k Hk1 Hk2. rewrite !active_del_other, active_set_other by congruence. reflexivity.
    - cbv zeta. eexists. split; [destruct pp; reflexivity|]. split.
      + apply cap_del.
      + intros k Hk1 Hk2. apply active_del_other. congruence. }
  induction n as [|n IH]; intros pl pp m Hpp Hinv.
  - simpl. eexists. split; [reflexivity|]. split; reflexivity.
  - rewrite lr_loop_S. cbv zeta. fold peek_key act_key.
    destruct Hinv as [Hp Ha].
    rewrite (H false m pl pp Hpp Hp). cbn [grow].
    destruct (body_out pl pp) as [l r|x|] eqn:Eo.
    + destruct (Z.of_nat l <=? pl)%Z eqn:Ele.
      * apply Hstop. split; assumption.
      * destruct d.
        -- rewrite (H true m pl pp Hpp (Ha eq_refl)). rewrite Eo.
           destruct (IH (Z.of_nat l) (MOk r)
                        (memo_set (memo_set m act_key (Z.of_nat l, MOk r)) peek_key (Z.of_nat l, MOk r)) I)
             as [m' [E1 [E2 E3]]].
           { split; [apply active_set_same|]. intros _.
             rewrite active_set_other by exact Hne. apply active_set_same. }
           exists m'. split; [exact E1|]. split.
           ++ rewrite E2, !cap_set. reflexivity.
           ++ intros k Hk1 Hk2. rewrite E3, !active_set_other by congruence. reflexivity.
        -- destruct (IH (Z.of_nat l) (MOk r) (memo_set m peek_key (Z.of_nat l, MOk r)) I) as [m' [E1 [E2 E3]]].
           { split; [apply active_set_same|]. discriminate. }
           exists m'. split; [exact E1|]. split.
           ++ rewrite E2, cap_set. reflexivity.
           ++ intros k Hk1 Hk2. rewrite E3, active_set_other by congruence. reflexivity.
    + destruct (is_pe (xk x)).
      * destruct pp as [r0|x0].
        -- rewrite Z.leb_refl. apply (Hstop pl (MOk r0) m). split; assumption.
        -- eexists. split; [reflexivity|]. split; reflexivity.
      * eexists. split; [reflexivity|]. split; reflexivity.
    + eexists. split; [reflexivity|]. split; reflexivity.
Qed.

(* Forward.parseImpl on a miss = the memo-free iteration started from the seed *)
Lemma lr_forward_grow (H : body_reads_own_entry) d m :
  memo_get m (loc, nid a, d) = None ->
  exists m', lr_forward rec a body s loc d m =
             Some (grow (length s + 3) (Z.of_nat loc - 1) (MExc (seed_exn loc (nid a))), m') /\
             m_cap m' = m_cap m /\
             forall k, k <> peek_key -> k <> act_key -> active m' k = active m k.
Proof.
  intros Hm. rewrite lr_forward_miss by exact Hm.
  destruct (lr_loop_grow H d (length s + 3) (Z.of_nat loc - 1) (MExc (seed_exn loc (nid a)))
                         (seeded m loc (nid a) d)) as [m' [E1 [E2 E3]]].
  - reflexivity.
  - split; [apply seeded_active; discriminate|]. intros ->. apply seeded_active. reflexivity.
  - exists m'. split; [exact E1|]. split.
    + rewrite E2. unfold seeded. destruct d; cbv zeta; rewrite ?cap_set; reflexivity.
    + intros k Hk1 Hk2. rewrite E3 by assumption. unfold seeded. fold peek_key act_key.
      destruct d; cbv zeta; rewrite ?active_set_other by congruence; reflexivity.
Qed.

(* capacity independence, abstractly: the outcome is a function of `body_out` only — the memo's capacity, its retained
   part and every other key are irrelevant *)
End Growth.

(* ------------------------------------------------------------------------------------------- *)
(* 4. the direct rule  E <<= (E + tail...) | base  under the real handler `parse_lr`            *)
(* ------------------------------------------------------------------------------------------- *)
Definition plain (a : attrs) : Prop := acts a = [] /\ rsname a = None.
(* ParseResults(tokens, None, asList, modal) applied to an existing ParseResults: what `_parseNoCache` wraps around *)
Definition wrap (a : attrs) (r : pres) : pres := pr_init (RPR r) None (aslist a) (modalr a).

Lemma toks_wrap a r : toks (wrap a r) = toks r.
Proof. reflexivity. Qed.

Lemma toks_iadd (x y : pres) : toks (pr_iadd x y) = toks x ++ toks y.
Proof.
  unfold pr_iadd. destruct (negb (pr_bool y)) eqn:E.
  - unfold pr_bool in E. destruct (toks y); [rewrite app_nil_r; reflexivity|discriminate].
  - cbn [toks]. f_equal.
    generalize (flat_map (fun kv => map (fun vp => (fst kv, fst vp,
                 (if (snd vp <? 0)%Z then Z.of_nat (length (toks x)) else (snd vp + Z.of_nat (length (toks x)))%Z))) (snd kv)) (dict y)).
    intros items. revert x. induction items as [|[[k v] p] items IH]; intros x; simpl; [reflexivity|].
    rewrite IH. reflexivity.
Qed.

Lemma finish_plain_attrs e d pl l r : plain (attrs_of e) ->
  finish e d pl l r = Ret (Ok l (pr_init (post_parse e r) None (aslist (attrs_of e)) (modalr (attrs_of e)))).
Proof. intros [Ha Hn]. unfold finish. rewrite Ha, Hn. reflexivity. Qed.

Section Direct.
Variable G : env.
Variable s : str.
(* the answer of a memo-independent element at a location (callPreParse = True); the same with and without actions *)
Variable ans : expr -> nat -> outcome.

Definition indep (f0 : nat) (c : expr) : Prop :=
  forall fu, f0 <= fu -> forall m l d, parse_lr G fu m (mkargs c s l d true) = Some (ans c l, m).

Definition idx_guard (a : attrs) (pre_loc : nat) : exn :=
  if mayidx a || Nat.leb (length s) pre_loc
  then mkx XParse (Z.of_nat (length s)) (MNode (nid a) 0) (Some (nid a))
  else mkx XIndex (Z.of_nat pre_loc) MEmpty None.
(* an exception leaving parseImpl through the IndexError guard of _parseNoCache *)
Definition raise_out (a : attrs) (pre_loc : nat) (x : exn) : outcome :=
  Err (if is_index (xk x) then idx_guard a pre_loc else x).

Lemma step_k_raise e d pl x :
  step_k e s d pl (inl (if is_index (xk x) then IIndexError else IExc x)) = Ret (raise_out (attrs_of e) pl x).
Proof.
  unfold raise_out, idx_guard, step_k. destruct (is_index (xk x)); [|reflexivity].
  destruct (mayidx (attrs_of e) || Nat.leb (length s) pl); reflexivity.
Qed.

Lemma fail_of_raise e d pl x : fail_of (step_k e s d pl) x = Ret (raise_out (attrs_of e) pl x).
Proof. unfold fail_of. apply step_k_raise. Qed.

(* And.parseImpl after the first element, over memo-independent elements *)
Inductive ares := AOk (l : nat) (acc : pres) | AErr (x : exn) | ADiv.

Definition estop_exn (a : attrs) (estop : bool) (x : exn) : exn :=
  if estop then
    match xk x with
    | XSyntax => x
    | XParse | XFatal => mkx XSyntax (xloc x) (xmsg x) (xel x)
    | XIndex => mkx XSyntax (Z.of_nat (length s)) (MNode (nid a) 0) (Some (nid a))
    | _ => x
    end
  else x.

Fixpoint and_pure (a : attrs) (es : list expr) (loc : nat) (acc : pres) (estop : bool) : ares :=
  match es with
  | [] => AOk loc acc
  | c :: rest =>
    match c with
    | Tok _ _ KErrorStop => and_pure a rest loc acc true
    | _ => match ans c loc with
           | Ok loc' r => and_pure a rest loc' (pr_iadd acc r) estop
           | Div => ADiv
           | Err x => AErr (estop_exn a estop x)
           end
    end
  end.

Lemma and_go_pure (rec : hrec) k a d es :
  (forall c, In c es -> forall m l, rec m (mkargs c s l d true) = Some (ans c l, m)) ->
  forall loc acc estop m,
  runm rec m (and_go k a s d es loc acc estop) =
  runm rec m (match and_pure a es loc acc estop with
              | AOk l acc' => k (inr (l, RPR acc'))
              | AErr x => fail_of k x
              | ADiv => Ret Div
              end).
Proof.
  induction es as [|c es IH]; intros Hind loc acc estop m; [reflexivity|].
  assert (Hc : rec m (mkargs c s loc d true) = Some (ans c loc, m)) by (apply Hind; left; reflexivity).
  assert (IH' := IH (fun c' Hc' => Hind c' (or_intror Hc'))).
  assert (Hgen :
    runm rec m (call c s loc d true (fun o =>
        match o with
        | Ok loc' r => and_go k a s d es loc' (pr_iadd acc r) estop
        | Div => Ret Div
        | Err x =>
          if estop then
            match xk x with
            | XSyntax => fail_of k x
            | XParse | XFatal => fail_of k (mkx XSyntax (xloc x) (xmsg x) (xel x))
            | XIndex => fail_of k (mkx XSyntax (Z.of_nat (length s)) (MNode (nid a) 0) (Some (nid a)))
            | _ => fail_of k x
            end
          else fail_of k x
        end)) =
    runm rec m (match (match ans c loc with
                       | Ok loc' r => and_pure a es loc' (pr_iadd acc r) estop
                       | Div => ADiv
                       | Err x => AErr (estop_exn a estop x)
                       end) with
                | AOk l acc' => k (inr (l, RPR acc'))
                | AErr x => fail_of k x
                | ADiv => Ret Div
                end)).
  { unfold call. cbn [runm]. rewrite Hc. destruct (ans c loc) as [l' r'|x|].
    - apply IH'.
    - unfold estop_exn. destruct estop; [|reflexivity]. destruct (xk x); reflexivity.
    - reflexivity. }
  destruct c as [a0 i0 t0|a0 i0 k0 es0|a0 i0 k0 c0|a0 i0 z0 c0 n0|a0 i0 c0 inc0 ig0 fo0|a0 i0 id0];
    try exact Hgen.
  destruct t0; try exact Hgen.
  cbn [and_go and_pure]. apply IH'.
Qed.

(* ---- the rule ---- *)
Variables (id : nat) (aE ab aa : attrs) (tail : list expr) (base : expr).
Let E : expr := Fwd aE [] (Some id).
Let alt : expr := Nary aa [] NAnd (E :: tail).
Let body : expr := Nary ab [] NMatchFirst [alt; base].

Variable loc : nat.
Variable f0 : nat.

Hypothesis HG : nth_error G id = Some body.
Hypothesis HpE : plain aE.
Hypothesis Hpa : plain aa.
Hypothesis Hpb : plain ab.
(* the recursive alternative's own whitespace skipping does not move away from loc (true whenever E itself was
   entered through its pre-parse with the same whitespace characters: skip_white is idempotent) *)
Hypothesis Hstable : (if callpre aa then (if skipws aa then skip_white s loc (white aa) else loc) else loc) = loc.
(* base and the tail elements do not mention E (nor any other Forward): their answers do not depend on the memo *)
Hypothesis Hbase_ind : indep f0 base.
Hypothesis Htail_ind : forall c, In c tail -> indep f0 c.
(* the base matches at loc *)
Variables (lb : nat) (rb : pres).
Hypothesis Hbase : ans base loc = Ok lb rb.

(* the recursive alternative, given E's memo entry *)
Definition alt_out (pl : Z) (pr : mres) : outcome :=
  match pr with
  | MExc x => Err x
  | MOk r =>
    match and_pure aa tail (Z.to_nat pl) (wrap aE r) false with
    | AOk l acc => Ok l (wrap aa acc)
    | AErr x => raise_out aa loc x
    | ADiv => Div
    end
  end.

(* the body `alt | base` followed by Forward's exception rewriting, given E's memo entry *)
Definition direct_out (pl : Z) (pr : mres) : outcome :=
  match alt_out pl pr with
  | Ok l r => Ok l (wrap ab r)
  | Div => Div
  | Err x =>
    if is_fatal (xk x) then Err (enh_rewrite aE true loc (mkx (xk x) (xloc x) (xmsg x) (Some (nid aa))))
    else if is_pe (xk x) || is_index (xk x) then Ok lb (wrap ab rb)
    else Err (enh_rewrite aE true loc x)
  end.

Lemma alt_answer f dd m pl pr :
  f0 <= f -> pe_res pr -> active m (loc, nid aE, dd) = Some (pl, pr) ->
  parse_lr G (S (S f)) m (mkargs alt s loc dd true) = Some (alt_out pl pr, m).
Proof.
  intros Hf Hpr Hact. unfold alt. rewrite parse_lr_nary.
  unfold step. cbn [a_e a_s a_do a_pre a_loc mkargs andb attrs_of].
  assert (Hpre : forall kk, (if callpre aa then pre_parse escape (Nary aa [] NAnd (E :: tail)) s loc kk else kk loc) = kk loc).
  { intros kk. destruct (callpre aa); [|reflexivity]. rewrite pre_parse_nary_nil. rewrite Hstable. reflexivity. }
  rewrite Hpre. cbn [impl]. unfold call at 1. cbn [runm].
  unfold E at 1. rewrite (parse_lr_fwd G f m aE [] id body s loc dd false HG). cbv zeta. cbn [andb runm].
  unfold alt_out. destruct pr as [r|x].
  - rewrite (lr_forward_hit_ok _ _ _ _ _ _ _ _ _ _ (memo_get_active _ _ _ Hact)).
    cbn [step_k]. rewrite finish_plain_attrs by exact HpE. cbn [runm post_parse attrs_of].
    fold (wrap aE r).
    rewrite (and_go_pure (parse_lr G (S f))).
    2:{ intros c Hc m0 l0. apply (Htail_ind c Hc). lia. }
    destruct (and_pure aa tail (Z.to_nat pl) (wrap aE r) false) as [l acc|x|].
    + cbn [step_k]. rewrite finish_plain_attrs by exact Hpa. reflexivity.
    + rewrite fail_of_raise. reflexivity.
    + reflexivity.
  - rewrite (lr_forward_hit_exc _ _ _ _ _ _ _ _ _ _ (memo_get_active _ _ _ Hact)).
    simpl in Hpr. assert (Hi : is_index (xk x) = false) by (destruct (xk x); simpl in *; congruence).
    rewrite Hi. cbn [step_k runm failo_of]. unfold fail_of. rewrite Hi. reflexivity.
Qed.

Lemma mf_go_cons k e loc' d c rest best :
  mf_go k e s loc' d (c :: rest) best =
  call c s loc' d true (fun o =>
    match o with
    | Ok loc'' r => k (inr (loc'', RPR r))
    | Div => Ret Div
    | Err x =>
      if is_fatal (xk x) then fail_of k (mkx (xk x) (xloc x) (xmsg x) (Some (nid (attrs_of c))))
      else if is_pe (xk x) then mf_go k e s loc' d rest (better best x)
      else if is_index (xk x) then
        let len := Z.of_nat (length s) in
        mf_go k e s loc' d rest (if (best_loc best <? len)%Z
                 then Some (mkx XParse len (MNode (nid (attrs_of c)) 0) (Some (nid (attrs_of e)))) else best)
      else fail_of k x
    end).
Proof. reflexivity. Qed.

Lemma direct_body_reads f : f0 <= f ->
  body_reads_own_entry (parse_lr G (S (S (S f)))) aE body s loc direct_out.
Proof.
  intros Hf dd m pl pr Hpr Hact. unfold super_impl, body. rewrite parse_lr_nary.
  unfold step. cbn [a_e a_s a_do a_pre a_loc mkargs andb attrs_of impl].
  rewrite mf_go_cons.
  unfold call at 1. cbn [runm]. fold E. fold alt.
  rewrite (alt_answer f dd m pl pr Hf Hpr Hact). unfold direct_out.
  destruct (alt_out pl pr) as [l r|x|].
  - cbn [step_k]. rewrite finish_plain_attrs by exact Hpb. reflexivity.
  - assert (Hb : forall best, runm (parse_lr G (S (S f))) m
             (mf_go (step_k (Nary ab [] NMatchFirst [alt; base]) s dd loc) (Nary ab [] NMatchFirst [alt; base]) s loc dd [base] best)
             = Some (Ok lb (wrap ab rb), m)).
    { intros best. cbn [mf_go]. unfold call. cbn [runm]. rewrite (Hbase_ind (S (S f))) by lia. rewrite Hbase.
      cbn [step_k]. rewrite finish_plain_attrs by exact Hpb. reflexivity. }
    destruct (xk x) eqn:Ek; cbn [is_fatal is_pe is_index orb]; rewrite ?Hb; try reflexivity;
      rewrite fail_of_raise; unfold raise_out; cbn [mkx xk is_index]; rewrite ?Ek; reflexivity.
  - reflexivity.
Qed.

(* ---- Forward.parseImpl for the direct rule = memo-free iteration of `direct_out` ---- *)
Lemma direct_forward f d m : f0 <= f ->
  memo_get m (loc, nid aE, d) = None ->
  exists m', lr_forward (parse_lr G (S (S (S f)))) aE body s loc d m =
             Some (grow direct_out (length s + 3) (Z.of_nat loc - 1) (MExc (seed_exn loc (nid aE))), m') /\
             m_cap m' = m_cap m /\
             forall k, k <> (loc, nid aE, false) -> k <> (loc, nid aE, true) -> active m' k = active m k.
Proof.
  intros Hf Hm. apply (lr_forward_grow _ _ _ _ _ _ (direct_body_reads f Hf) d m Hm).
Qed.

(* ---- the rounds: base, then one more tail per round ---- *)
(* what a failing tail leads to: fatal errors escape, ParseException/IndexError fall back to `base` (which ends at
   lb <= current end, so the loop stops with the previous result), anything else escapes *)
Definition tail_fail_out (l : nat) (r : pres) (x : exn) : outcome :=
  match raise_out aa loc x with
  | Err x' =>
    if is_fatal (xk x') then Err (enh_rewrite aE true loc (mkx (xk x') (xloc x') (xmsg x') (Some (nid aa))))
    else if is_pe (xk x') || is_index (xk x') then Ok l r
    else Err (enh_rewrite aE true loc x')
  | o => o
  end.

(* `base (tail)*` evaluated the way the growth loop does it: the accumulated result is re-wrapped by E, by the And
   and by the MatchFirst in every round *)
Fixpoint iter (fuel : nat) (l : nat) (r : pres) : outcome :=
  match fuel with
  | 0 => Div
  | S f =>
    match and_pure aa tail l (wrap aE r) false with
    | AOk l' acc => if Nat.leb l' l then Ok l r else iter f l' (wrap ab (wrap aa acc))
    | AErr x => tail_fail_out l r x
    | ADiv => Div
    end
  end.

Lemma xk_enh_rewrite a b l x : xk (enh_rewrite a b l x) = xk x.
Proof. unfold enh_rewrite. destruct (xk x) eqn:Ek; try exact Ek; reflexivity. Qed.

Lemma grow_seed n : loc <= lb ->
  grow direct_out (S n) (Z.of_nat loc - 1) (MExc (seed_exn loc (nid aE))) =
  grow direct_out n (Z.of_nat lb) (MOk (wrap ab rb)).
Proof.
  intros Hl. cbn [grow]. unfold direct_out at 1. cbn [alt_out seed_exn mkx xk is_fatal is_pe orb].
  destruct (Z.of_nat lb <=? Z.of_nat loc - 1)%Z eqn:Q; [apply Z.leb_le in Q; lia|reflexivity].
Qed.

Lemma grow_iter n : forall l r, lb <= l ->
  grow direct_out n (Z.of_nat l) (MOk r) = iter n l r.
Proof.
  induction n as [|n IH]; intros l r Hl; [reflexivity|].
  cbn [grow iter]. unfold direct_out at 1. unfold alt_out. rewrite Nat2Z.id.
  destruct (and_pure aa tail l (wrap aE r) false) as [l' acc|x|].
  - destruct (Nat.leb l' l) eqn:Q.
    + apply Nat.leb_le in Q. destruct (Z.of_nat l' <=? Z.of_nat l)%Z eqn:Q2; [|apply Z.leb_gt in Q2; lia].
      cbn [stop_out]. rewrite Nat2Z.id. reflexivity.
    + apply Nat.leb_gt in Q. destruct (Z.of_nat l' <=? Z.of_nat l)%Z eqn:Q2; [apply Z.leb_le in Q2; lia|].
      apply IH. lia.
  - unfold tail_fail_out. unfold raise_out.
    set (x' := if is_index (xk x) then idx_guard aa loc else x).
    assert (Hstop : (if (Z.of_nat lb <=? Z.of_nat l)%Z then stop_out (Z.of_nat l) (MOk r)
                     else grow direct_out n (Z.of_nat lb) (MOk (wrap ab rb))) = Ok l r).
    { destruct (Z.of_nat lb <=? Z.of_nat l)%Z eqn:Q2; [|apply Z.leb_gt in Q2; lia].
      cbn [stop_out]. rewrite Nat2Z.id. reflexivity. }
    clearbody x'.
    destruct (xk x') eqn:Ek; cbn [is_fatal is_pe is_index orb]; try exact Hstop;
      rewrite xk_enh_rewrite; cbn [mkx xk]; rewrite ?Ek; reflexivity.
  - reflexivity.
Qed.

(* the direct rule: Forward.parseImpl answers what `base (tail)*` answers, round by round *)
Lemma direct_equiv f d m : f0 <= f -> loc <= lb ->
  memo_get m (loc, nid aE, d) = None ->
  exists m', lr_forward (parse_lr G (S (S (S f)))) aE body s loc d m =
             Some (iter (length s + 2) lb (wrap ab rb), m') /\
             m_cap m' = m_cap m /\
             forall k, k <> (loc, nid aE, false) -> k <> (loc, nid aE, true) -> active m' k = active m k.
Proof.
  intros Hf Hl Hm. destruct (direct_forward f d m Hf Hm) as [m' [E1 E2]].
  exists m'. split; [|exact E2]. rewrite E1.
  replace (length s + 3) with (S (length s + 2)) by lia.
  rewrite grow_seed by exact Hl. rewrite grow_iter by lia. reflexivity.
Qed.

(* the answer does not depend on the memo (capacity, retained entries, entries of other keys) *)
Lemma direct_capacity_independent f d m1 m2 : f0 <= f -> loc <= lb ->
  memo_get m1 (loc, nid aE, d) = None -> memo_get m2 (loc, nid aE, d) = None ->
  option_map fst (lr_forward (parse_lr G (S (S (S f)))) aE body s loc d m1) =
  option_map fst (lr_forward (parse_lr G (S (S (S f)))) aE body s loc d m2).
Proof.
  intros Hf Hl H1 H2.
  destruct (direct_equiv f d m1 Hf Hl H1) as [m1' [E1 _]].
  destruct (direct_equiv f d m2 Hf Hl H2) as [m2' [E2 _]].
  rewrite E1, E2. reflexivity.
Qed.

(* tokens: one round appends exactly the tokens of one tail *)
Fixpoint tail_toks (es : list expr) (l : nat) : list tok :=
  match es with
  | [] => []
  | c :: rest =>
    match c with
    | Tok _ _ KErrorStop => tail_toks rest l
    | _ => match ans c l with Ok l' r => toks r ++ tail_toks rest l' | _ => [] end
    end
  end.

Lemma and_pure_toks a es : forall l acc estop l' acc',
  and_pure a es l acc estop = AOk l' acc' -> toks acc' = toks acc ++ tail_toks es l.
Proof.
  induction es as [|c es IH]; intros l acc estop l' acc' H.
  - simpl in H. injection H as <- <-. simpl. rewrite app_nil_r. reflexivity.
  - assert (Hgen : (match ans c l with
                    | Ok l1 r => and_pure a es l1 (pr_iadd acc r) estop
                    | Div => ADiv
                    | Err x => AErr (estop_exn a estop x)
                    end) = AOk l' acc' ->
                   toks acc' = toks acc ++ (match ans c l with Ok l1 r => toks r ++ tail_toks es l1 | _ => [] end)).
    { destruct (ans c l) as [l1 r1|x|]; try discriminate. intros H1.
      rewrite (IH _ _ _ _ _ H1). rewrite toks_iadd, app_assoc. reflexivity. }
    destruct c as [a0 i0 t0|a0 i0 k0 es0|a0 i0 k0 c0|a0 i0 z0 c0 n0|a0 i0 c0 inc0 ig0 fo0|a0 i0 id0];
      try exact (Hgen H).
    destruct t0; try exact (Hgen H).
    cbn [and_pure tail_toks] in *. exact (IH _ _ _ _ _ H).
Qed.

(* round k+1: if the tail matches at the current end l and advances, the next entry holds the previous tokens followed by
   that tail's tokens *)
Lemma iter_round n l r l' acc :
  and_pure aa tail l (wrap aE r) false = AOk l' acc -> l < l' ->
  iter (S n) l r = iter n l' (wrap ab (wrap aa acc)) /\
  toks (wrap ab (wrap aa acc)) = toks r ++ tail_toks tail l.
Proof.
  clear HG HpE Hpa Hpb Hstable Hbase_ind Htail_ind Hbase.
  intros H Hlt. split.
  - cbn [iter]. rewrite H. destruct (Nat.leb l' l) eqn:Q; [apply Nat.leb_le in Q; lia|reflexivity].
  - rewrite !toks_wrap. rewrite (and_pure_toks _ _ _ _ _ _ _ H). rewrite toks_wrap. reflexivity.
Qed.

(* the loop stops at the first round in which the tail fails (ParseException / IndexError) or does not advance *)
Lemma iter_stop_fail n l r x :
  and_pure aa tail l (wrap aE r) false = AErr x -> is_pe (xk x) = true ->
  iter (S n) l r = Ok l r.
Proof.
  clear HG HpE Hpa Hpb Hstable Hbase_ind Htail_ind Hbase.
  intros H Hx. cbn [iter]. rewrite H. unfold tail_fail_out, raise_out.
  destruct (xk x) eqn:Ek; try discriminate. cbn [is_index]. rewrite Ek. reflexivity.
Qed.

Lemma iter_stop_stuck n l r l' acc :
  and_pure aa tail l (wrap aE r) false = AOk l' acc -> l' <= l ->
  iter (S n) l r = Ok l r.
Proof.
  clear HG HpE Hpa Hpb Hstable Hbase_ind Htail_ind Hbase.
  intros H Hle. cbn [iter]. rewrite H. destruct (Nat.leb l' l) eqn:Q; [reflexivity|apply Nat.leb_gt in Q; lia].
Qed.

(* ---- the iterative reading `base (tail)*` at the level of (end location, token list) ---- *)
(* where the tail sequence ends when every element matches *)
Fixpoint tail_end (es : list expr) (l : nat) : option nat :=
  match es with
  | [] => Some l
  | c :: rest =>
    match c with
    | Tok _ _ KErrorStop => tail_end rest l
    | _ => match ans c l with Ok l' _ => tail_end rest l' | _ => None end
    end
  end.

Lemma and_pure_end a es : forall l acc estop,
  match and_pure a es l acc estop with
  | AOk l' _ => tail_end es l = Some l'
  | AErr _ | ADiv => tail_end es l = None
  end.
Proof.
  induction es as [|c es IH]; intros l acc estop; [reflexivity|].
  assert (Hgen :
    match (match ans c l with
           | Ok l1 r => and_pure a es l1 (pr_iadd acc r) estop
           | Div => ADiv
           | Err x => AErr (estop_exn a estop x)
           end) with
    | AOk l' _ => (match ans c l with Ok l1 _ => tail_end es l1 | _ => None end) = Some l'
    | AErr _ | ADiv => (match ans c l with Ok l1 _ => tail_end es l1 | _ => None end) = None
    end).
  { destruct (ans c l) as [l1 r1|x|]; try reflexivity. apply IH. }
  destruct c as [a0 i0 t0|a0 i0 k0 es0|a0 i0 k0 c0|a0 i0 z0 c0 n0|a0 i0 c0 inc0 ig0 fo0|a0 i0 id0];
    try exact Hgen.
  destruct t0; try exact Hgen.
  cbn [and_pure tail_end]. apply IH.
Qed.

(* ZeroOrMore(tail...) read as a function: keep appending the tokens of one tail while the tail matches and advances *)
Fixpoint rep_ref (fuel : nat) (l : nat) (ts : list tok) : option (nat * list tok) :=
  match fuel with
  | 0 => None
  | S f =>
    match tail_end tail l with
    | Some l' => if Nat.leb l' l then Some (l, ts) else rep_ref f l' (ts ++ tail_toks tail l)
    | None => Some (l, ts)
    end
  end.

(* whenever the growth loop answers a match, it is the match of the iterative reading *)
Lemma iter_rep_ref n : forall l r l' r',
  iter n l r = Ok l' r' -> rep_ref n l (toks r) = Some (l', toks r').
Proof.
  clear HG HpE Hpa Hpb Hstable Hbase_ind Htail_ind Hbase.
  induction n as [|n IH]; intros l r l' r' H; [discriminate|].
  cbn [iter] in H. cbn [rep_ref].
  pose proof (and_pure_end aa tail l (wrap aE r) false) as He.
  pose proof (and_pure_toks aa tail l (wrap aE r) false) as Ht.
  destruct (and_pure aa tail l (wrap aE r) false) as [l1 acc|x|].
  - rewrite He. destruct (Nat.leb l1 l).
    + injection H as <- <-. reflexivity.
    + specialize (IH _ _ _ _ H). rewrite !toks_wrap in IH. rewrite (Ht _ _ eq_refl), toks_wrap in IH. exact IH.
  - rewrite He. unfold tail_fail_out, raise_out in H.
    set (x2 := if is_index (xk x) then idx_guard aa loc else x) in H.
    destruct (is_fatal (xk x2)); [discriminate|]. destruct (is_pe (xk x2) || is_index (xk x2)); [|discriminate].
    injection H as <- <-. reflexivity.
  - discriminate.
Qed.

(* the same through the handler: `E._parse(instring, loc0, do, callPreParse)` on a memo without an entry for E *)
Lemma direct_parse_lr f d pre loc0 m : f0 <= f -> loc <= lb ->
  fwd_start aE s loc0 pre = loc ->
  memo_get m (loc, nid aE, d) = None ->
  exists m', parse_lr G (S (S (S (S f)))) m (mkargs E s loc0 d pre) =
             Some (match iter (length s + 2) lb (wrap ab rb) with
                   | Ok l r => Ok l (wrap aE r)
                   | Err x => raise_out aE loc x
                   | Div => Div
                   end, m') /\ m_cap m' = m_cap m.
Proof.
  intros Hf Hl Hstart Hm. unfold E.
  rewrite (parse_lr_fwd G _ m aE [] id body s loc0 d pre HG). cbv zeta.
  assert (Hpre : (if pre && callpre aE
                  then pre_parse escape (Fwd aE [] (Some id)) s loc0 (fun l => Ret (Ok l pr_empty))
                  else Ret (Ok loc0 pr_empty)) = Ret (Ok loc pr_empty)).
  { rewrite <- Hstart. unfold fwd_start. destruct (pre && callpre aE); [|reflexivity]. rewrite pre_parse_fwd_nil. reflexivity. }
  rewrite Hpre. cbn [runm].
  destruct (direct_equiv f d m Hf Hl Hm) as [m' [E1 [E2 _]]]. rewrite E1.
  exists m'. split; [|exact E2].
  destruct (iter (length s + 2) lb (wrap ab rb)) as [l r|x|].
  - cbn [step_k]. rewrite finish_plain_attrs by exact HpE. reflexivity.
  - rewrite step_k_raise. reflexivity.
  - reflexivity.
Qed.

End Direct.

(* ------------------------------------------------------------------------------------------- *)
(* 5. leaves are memo-independent; an instance meeting every hypothesis of the direct-rule theorem *)
(* ------------------------------------------------------------------------------------------- *)
(* the answer of an element whose `step` makes no recursive call *)
Definition leaf_ans (G : env) (s : str) (c : expr) (l : nat) : outcome :=
  match step G (mkargs c s l false true) with Ret o => o | Call _ _ => Div end.

Lemma tok_step_ret G s a t l d : acts a = [] ->
  step G (mkargs (Tok a [] t) s l d true) = Ret (leaf_ans G s (Tok a [] t) l).
Proof.
  intros Ha. unfold leaf_ans.
  assert (Hd : step G (mkargs (Tok a [] t) s l d true) = step G (mkargs (Tok a [] t) s l false true)).
  { destruct a. cbn in Ha. subst. reflexivity. }
  rewrite Hd.
  assert (Hk : forall pl, exists o, impl G (Tok a [] t) s pl false (step_k (Tok a [] t) s false pl) = Ret o).
  { intros pl. cbn [impl]. unfold step_k. cbn [attrs_of].
    destruct (tok_impl a t s pl) as [l' r'|x|].
    - unfold finish. cbn [attrs_of]. rewrite Ha. eexists. reflexivity.
    - eexists. reflexivity.
    - destruct (mayidx a || Nat.leb (length s) pl); eexists; reflexivity. }
  assert (Hs : exists o, step G (mkargs (Tok a [] t) s l false true) = Ret o).
  { unfold step. cbn [a_e a_s a_do a_pre a_loc mkargs andb attrs_of].
    destruct (callpre a); [|apply Hk].
    unfold pre_parse. cbn [ign_of attrs_of].
    destruct t; try (rewrite skip_ignorables_nil; apply Hk).
    - destruct l; [apply Hk|]. destruct orig_has_nl; apply Hk.
    - destruct (Nat.eqb (col_at s l) c); [apply Hk|]. rewrite skip_ignorables_nil. apply Hk. }
  destruct Hs as [o Ho]. rewrite Ho. reflexivity.
Qed.

Lemma tok_indep G s a t : acts a = [] -> indep G s (leaf_ans G s) 1 (Tok a [] t).
Proof.
  intros Ha fu Hfu m l d. destruct fu as [|fu]; [lia|].
  cbn [parse_lr a_e mkargs]. rewrite tok_step_ret by exact Ha. reflexivity.
Qed.

(* ------------------------------------------------------------------------------------------- *)
(* 6. concrete attributed grammars (as dumped from the real objects after streamline(), default whitespace)  *)
(* ------------------------------------------------------------------------------------------- *)
Definition W4 : list char := [9; 10; 13; 32]%N.
Definition mk (id : nat) (asl cp mi hm : bool) (sl : nat) : attrs :=
  {| nid := id; rsname := None; modalr := true; aslist := asl; skipws := true; white := W4; callpre := cp;
     mayidx := mi; custom := false; hasmsg := hm; acts := []; calltry := false; slen := sl |}.
Definition lit (id : nat) (c : N) : expr := Tok (mk id false true false true 3) [] (KLit [c]).
Definition D10 : list char := [48; 49; 50; 51; 52; 53; 54; 55; 56; 57]%N.
Definition num (id : nat) : expr := Tok (mk id false true false true 7) [] (KWord D10 D10 1 None false false true).

(* X <<= Y + 'x' | 'a' ; Y <<= X + 'y'   (X = Forward #1 -> G[0], Y = Forward #4 -> G[1]) *)
Definition gX : expr := Fwd (mk 1 false true true false 43) [] (Some 0).
Definition gY : expr := Fwd (mk 4 true true true false 20) [] (Some 1).
Definition GXY : env :=
  [ Nary (mk 2 true false true true 34) [] NMatchFirst
      [ Nary (mk 3 true true true true 26) [] NAnd [gY; lit 5 120]; lit 6 97 ];
    Nary (mk 7 true true true true 49) [] NAnd [gX; lit 8 121] ].
(* its iterative equivalent  'a' + ZeroOrMore('y' + 'x') *)
Definition IXY : expr :=
  Nary (mk 1 true true true true 20) [] NAnd
    [ lit 2 97;
      Rep (mk 3 true true true false 14) [] true (Nary (mk 4 true true true true 9) [] NAnd [lit 5 121; lit 6 120]) None ].

(* E <<= E + '+' + N | N  with N = Word(nums) *)
Definition gE_attrs : attrs := mk 1 false true true false 42.
Definition gE : expr := Fwd gE_attrs [] (Some 0).
Definition gE_body : expr :=
  Nary (mk 2 true false true true 33) [] NMatchFirst
    [ Nary (mk 3 true true true true 56) [] NAnd [gE; lit 4 43; num 5]; num 5 ].
Definition GE : env := [ gE_body ].
(* its iterative equivalent  N + ZeroOrMore('+' + N) *)
Definition IE : expr :=
  Nary (mk 1 true true true true 28) [] NAnd
    [ num 2; Rep (mk 3 true true true false 18) [] true (Nary (mk 4 true true true true 13) [] NAnd [lit 5 43; num 2]) None ].

(* E <<= E + 'a' : no base case *)
Definition gN_attrs : attrs := mk 1 true true true false 20.
Definition gN : expr := Fwd gN_attrs [] (Some 0).
Definition GN : env := [ Nary (mk 2 true true true true 26) [] NAnd [gN; lit 3 97] ].

Definition tstr (c : N) : tok := TStr [c].
Definition res_of (o : option (outcome * memo)) : option (nat * list tok) :=
  match o with Some (Ok l r, _) => Some (l, toks r) | _ => None end.
Definition res_of_plain (o : option outcome) : option (nat * list tok) :=
  match o with Some (Ok l r) => Some (l, toks r) | _ => None end.
Definition out_of (o : option (outcome * memo)) : option outcome := option_map fst o.

(* "1+2+1" *)
Definition s_121 : str := [49; 43; 50; 43; 49]%N.

(* the direct-rule theorem applies to GE on "1+2+1": every hypothesis is met, for every fuel, do_actions and memo
   (any capacity, any content without an entry for E at 0) *)
Lemma direct_instance f d m :
  memo_get m (0, 1, d) = None ->
  exists m', parse_lr GE (5 + f) m (mkargs gE s_121 0 d true) =
             Some (Ok 5 (pr_of_list [tstr 49; tstr 43; tstr 50; tstr 43; tstr 49]), m') /\ m_cap m' = m_cap m.
Proof.
  intros Hm.
  assert (Hb : leaf_ans GE s_121 (num 5) 0 = Ok 1 (pr_of_list [tstr 49])) by (vm_compute; reflexivity).
  assert (Hnum : indep GE s_121 (leaf_ans GE s_121) 1 (num 5)) by (apply tok_indep; reflexivity).
  assert (Hplus : indep GE s_121 (leaf_ans GE s_121) 1 (lit 4 43)) by (apply tok_indep; reflexivity).
  assert (Htl : forall c, In c [lit 4 43; num 5] -> indep GE s_121 (leaf_ans GE s_121) 1 c).
  { intros c [<-|[<-|[]]]; assumption. }
  destruct (direct_parse_lr GE s_121 (leaf_ans GE s_121) 0 gE_attrs (mk 2 true false true true 33) (mk 3 true true true true 56)
              [lit 4 43; num 5] (num 5) 0 1
              eq_refl (conj eq_refl eq_refl) (conj eq_refl eq_refl) (conj eq_refl eq_refl) eq_refl
              Hnum Htl 1 _ Hb (S f) d true 0 m) as [m' [E1 E2]]; [lia|lia|reflexivity|exact Hm|].
  exists m'. split; [|exact E2]. exact E1.
Qed.

(* "ayxyx" *)
Definition s_ayxyx : str := [97; 121; 120; 121; 120]%N.

(* a body that grows by exactly one position per round up to len + 1: shows that the fuel bound len + 3 is tight and that
   the hypothesis of the termination theorem is satisfiable *)
Definition toy_rec : hrec := fun m ar =>
  match memo_get m (a_loc ar, 0, false) with
  | Some ((pl, _), m') => Some (Ok (Nat.min (Z.to_nat (pl + 1)) (length (a_s ar) + 1)) pr_empty, m')
  | None => Some (Err (mkx XParse 0%Z MEmpty None), m)
  end.
Definition toy_attrs : attrs := mk 0 false true true false 0.

Lemma toy_bounded body s loc : ends_bounded toy_rec toy_attrs body s loc (length s + 1).
Proof.
  intros m l r m' H. unfold super_impl, toy_rec in H. cbn [a_loc a_s mkargs] in H.
  destruct (memo_get m (loc, 0, false)) as [[[pl pr] m1]|].
  - injection H as <- _ _. apply Nat.le_min_r.
  - discriminate.
Qed.

(* discharging the stability hypothesis of the direct-rule theorem: where E starts after its own whitespace skip, an And
   with the same whitespace characters does not skip any further *)
Lemma stable_after_skip s loc0 aE aa :
  skipws aE = true -> callpre aE = true -> white aa = white aE ->
  let loc := fwd_start aE s loc0 true in
  (if callpre aa then (if skipws aa then skip_white s loc (white aa) else loc) else loc) = loc.
Proof.
  intros H1 H2 H3. unfold fwd_start. rewrite H1, H2. cbn [andb]. rewrite H3.
  destruct (callpre aa); [|reflexivity]. destruct (skipws aa); [|reflexivity]. apply skip_white_idem.
Qed.
