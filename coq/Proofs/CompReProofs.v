From Coq Require Import List NArith Arith Bool Lia.
From PP Require Import Model.Str Model.Regex Model.CompRe Proofs.RegexProofs.
Import ListNotations.

Lemma str_eqb_true : forall a b, str_eqb a b = true <-> a = b.
Proof.
  induction a as [|x a IH]; destruct b as [|y b]; simpl; split; intro H; try discriminate; auto.
  - apply andb_true_iff in H. destruct H as [H1 H2]. apply N.eqb_eq in H1. apply IH in H2. subst. reflexivity.
  - inversion H; subst. rewrite N.eqb_refl. simpl. apply IH. reflexivity.
Qed.

Lemma dedup_in : forall l x, In x (dedup l) <-> In x l.
Proof.
  induction l as [|a t IH]; intros x; simpl; [tauto|]. split.
  - intros [->|H]; [left; reflexivity|]. apply filter_In in H. right. apply IH. tauto.
  - intros [->|H]; [left; reflexivity|].
    destruct (str_eqb a x) eqn:E.
    + left. apply str_eqb_true. exact E.
    + right. apply filter_In. split; [apply IH; exact H|rewrite E; reflexivity].
Qed.

Lemma insert_desc_in : forall key x l y, In y (insert_desc key x l) <-> y = x \/ In y l.
Proof.
  induction l as [|a t IH]; intros y; simpl.
  - split; [intros [H|[]]; left; auto|intros [H|[]]; left; auto].
  - destruct (key x <? key a); simpl.
    + rewrite IH. split; [intros [H|[H|H]]; auto|intros [H|[H|H]]; auto].
    + split; [intros [H|[H|H]]; auto|intros [H|[H|H]]; auto].
Qed.

Lemma sort_desc_in : forall key l y, In y (sort_desc key l) <-> In y l.
Proof.
  induction l as [|a t IH]; intros y; simpl; [tauto|]. rewrite insert_desc_in, IH. split; [intros [H|H]; auto|intros [H|H]; auto].
Qed.

Lemma prefix_of_full : forall w s, prefix_of w s = true -> length w = length s -> w = s.
Proof.
  induction w as [|a w IH]; destruct s as [|b s]; simpl; intros H L; try discriminate; auto.
  apply andb_true_iff in H. destruct H as [H1 H2]. apply N.eqb_eq in H1. subst. f_equal. apply IH; auto.
Qed.

Lemma prefix_of_refl : forall s, prefix_of s s = true.
Proof. induction s; simpl; auto. rewrite N.eqb_refl. exact IHs. Qed.

Lemma first_some_nn : forall (f : str -> option nat) l,
  first_some f l <> None <-> exists x, In x l /\ f x <> None.
Proof.
  induction l as [|a t IH]; simpl.
  - split; [congruence|intros (x & [] & _)].
  - destruct (f a) eqn:E; simpl.
    + split; [intros _; exists a; split; [left; reflexivity|congruence]|congruence].
    + rewrite IH. split; intros (x & H1 & H2); exists x; split; auto.
      destruct H1 as [<-|H1]; [congruence|exact H1].
Qed.

(* an alternation of literals fullmatches exactly the listed words *)
Lemma alt_literals_fullmatch : forall ws s, re_fullmatch (ralt (map rlit ws)) s = true <-> In s ws.
Proof.
  intros ws s. unfold re_fullmatch, re_fullmatch_at. rewrite rm_alt_literals.
  set (f := fun w : str => if starts_at s 0 w then (if 0 + length w =? length s then Some (0 + length w) else None) else None).
  assert (NN : first_some f ws <> None <-> In s ws).
  { rewrite first_some_nn. split.
    - intros (w & Hw & H). unfold f in H. unfold starts_at in H. simpl in H.
      destruct (prefix_of w s) eqn:P; [|congruence].
      destruct (length w =? length s) eqn:L; [|congruence]. apply Nat.eqb_eq in L.
      rewrite <- (prefix_of_full _ _ P L). exact Hw.
    - intros H. exists s. split; [exact H|]. unfold f, starts_at. simpl. rewrite prefix_of_refl, Nat.eqb_refl. congruence. }
  destruct (first_some f ws) eqn:E.
  - split; [intros _; apply NN; congruence|reflexivity].
  - split; [discriminate|]. intros H. apply NN in H. congruence.
Qed.

Lemma class_fullmatch : forall ws s,
  (forall w, In w ws -> length w = 1) ->
  (re_fullmatch (RSet false false (map CI_char (concat ws))) s = true <-> In s ws).
Proof.
  intros ws s H1. unfold re_fullmatch, re_fullmatch_at. cbn [rm]. rewrite set_step_eq.
  assert (MEM : forall c, cset_mem false false (map CI_char (concat ws)) c = true <-> In [c] ws).
  { intros c. unfold cset_mem. simpl. rewrite orb_false_r.
    assert (Q : items_mem (map CI_char (concat ws)) c = mem_char c (concat ws)).
    { unfold items_mem, mem_char. induction (concat ws); simpl; [reflexivity|]. rewrite IHl. reflexivity. }
    replace (if items_mem (map CI_char (concat ws)) c then true else false) with (mem_char c (concat ws))
      by (rewrite Q; destruct (mem_char c (concat ws)); reflexivity).
    unfold mem_char. rewrite existsb_exists. split.
    - intros (d & Hd & E). apply N.eqb_eq in E. subst d. apply in_concat in Hd. destruct Hd as (w & Hw & Hc).
      pose proof (H1 w Hw) as L. destruct w as [|e [|? ?]]; simpl in L; try lia. destruct Hc as [<-|[]]. exact Hw.
    - intros H. exists c. split; [|apply N.eqb_refl]. apply in_concat. exists [c]. split; [exact H|left; reflexivity]. }
  destruct s as [|c rest].
  - cbn. split; [discriminate|]. intros H. apply H1 in H. simpl in H. lia.
  - change (char_at (c :: rest) 0) with (Some c). cbv beta iota.
    destruct (cset_mem false false (map CI_char (concat ws)) c) eqn:E.
    + destruct rest as [|d t]; cbn.
      * split; [intros _; apply MEM; exact E|reflexivity].
      * split; [discriminate|]. intros H. apply H1 in H. simpl in H. lia.
    + split; [discriminate|]. intros H. pose proof (H1 _ H) as L. destruct rest; simpl in L; [|lia].
      apply MEM in H. congruence.
Qed.

(* make_compressed_re(words, max_level=0) fullmatches exactly the given (non-empty) words *)
Theorem compressed0_fullmatch : forall words s,
  (forall w, In w words -> w <> []) ->
  (re_fullmatch (compressed0 words) s = true <-> In s words).
Proof.
  intros words s NE. unfold compressed0.
  destruct (existsb (fun w => 1 <? length w) (dedup words)) eqn:E.
  - rewrite alt_literals_fullmatch, sort_desc_in, dedup_in. tauto.
  - rewrite class_fullmatch; [apply dedup_in|].
    intros w Hw. assert (Hw' : In w words) by (apply dedup_in; exact Hw). specialize (NE w Hw').
    destruct (1 <? length w) eqn:L.
    + assert (existsb (fun w => 1 <? length w) (dedup words) = true) by (apply existsb_exists; exists w; auto). congruence.
    + apply Nat.ltb_ge in L. destruct w; [congruence|simpl in *; lia].
Qed.
