(* Proofs about Model/Diagram.v (C20). *)
From Coq Require Import List NArith Arith Bool Lia.
From PP Require Import Model.Str Model.Diagram Model.DiagramEx.
Import ListNotations.
Local Open Scope nat_scope.

(* ------------------------------------------------------------------------------------------------ association lists *)
Lemma assoc_set_same : forall A k (v : A) l, assoc k (assoc_set k v l) = Some v.
Proof.
  induction l as [|[k' v'] t IH]; simpl.
  - now rewrite Nat.eqb_refl.
  - destruct (k =? k') eqn:E; simpl; rewrite ?Nat.eqb_refl, ?E; auto.
Qed.

Lemma assoc_set_other : forall A k k' (v : A) l, k <> k' -> assoc k' (assoc_set k v l) = assoc k' l.
Proof.
  induction l as [|[k2 v2] t IH]; simpl; intros.
  - destruct (k' =? k) eqn:E; auto. apply Nat.eqb_eq in E; congruence.
  - destruct (k =? k2) eqn:E; simpl.
    + apply Nat.eqb_eq in E; subst. destruct (k' =? k2) eqn:E2; auto. apply Nat.eqb_eq in E2; congruence.
    + destruct (k' =? k2); auto.
Qed.

Lemma assoc_del_other : forall A k k' (l : list (nat * A)), k <> k' -> assoc k' (assoc_del k l) = assoc k' l.
Proof.
  induction l as [|[k2 v2] t IH]; simpl; intros; auto.
  destruct (k =? k2) eqn:E; simpl.
  - apply Nat.eqb_eq in E; subst. destruct (k' =? k2) eqn:E2; auto. apply Nat.eqb_eq in E2; congruence.
  - destruct (k' =? k2); auto.
Qed.

Lemma assoc_in_keys : forall A k (l : list (nat * A)) v, assoc k l = Some v -> In k (map fst l).
Proof.
  induction l as [|[k2 v2] t IH]; simpl; intros; try discriminate.
  destruct (k =? k2) eqn:E.
  - apply Nat.eqb_eq in E; auto.
  - right; eauto.
Qed.

(* ------------------------------------------------------------------------------------------------ which fields an operation touches *)
(* sd: c_states and c_diagrams ; md: c_maxdepth *)
Definition same_sd (st st' : cstate) : Prop := c_states st' = c_states st /\ c_diagrams st' = c_diagrams st.
Definition same_md (st st' : cstate) : Prop := c_maxdepth st' = c_maxdepth st.

Lemma same_sd_refl : forall st, same_sd st st.  Proof. split; reflexivity. Qed.
Lemma same_sd_trans : forall a b c, same_sd a b -> same_sd b c -> same_sd a c.
Proof. unfold same_sd; intros a b c [] []; split; congruence. Qed.
Lemma same_md_trans : forall a b c, same_md a b -> same_md b c -> same_md a c.
Proof. unfold same_md; intros; congruence. Qed.

Lemma set_slot_sd : forall st r s, same_sd st (set_slot st r s).
Proof. intros; unfold set_slot; destruct (nth_error _ _); split; reflexivity. Qed.
Lemma set_slot_md : forall st r s, same_md st (set_slot st r s).
Proof. intros; unfold set_slot; destruct (nth_error _ _); reflexivity. Qed.

Lemma put_child_sd : forall st r i v, same_sd st (put_child st r i v).
Proof.
  intros; unfold put_child; destruct (slot_of st r); try apply same_sd_refl; try apply set_slot_sd.
  destruct (i <? length l); [apply set_slot_sd | split; reflexivity].
Qed.
Lemma put_child_md : forall st r i v, same_md st (put_child st r i v).
Proof.
  intros; unfold put_child; destruct (slot_of st r); try reflexivity; try apply set_slot_md.
  destruct (i <? length l); [apply set_slot_md | reflexivity].
Qed.

Lemma with_items_sd : forall st r f, same_sd st (with_items st r f).
Proof. intros; unfold with_items; destruct (slot_of st r); try apply same_sd_refl; apply set_slot_sd. Qed.
Lemma with_items_md : forall st r f, same_md st (with_items st r f).
Proof. intros; unfold with_items; destruct (slot_of st r); try reflexivity; apply set_slot_md. Qed.

Lemma place_sd : forall st r i it i' st', place st r i it = (i', st') -> same_sd st st'.
Proof.
  intros st r i it i' st' H; unfold place in H. destruct it.
  - destruct (slot_of st r); inversion H; subst; try apply same_sd_refl; try apply set_slot_sd.
    destruct (i <? length l); [apply set_slot_sd | split; reflexivity].
  - inversion H; subst; apply with_items_sd.
Qed.
Lemma place_md : forall st r i it i' st', place st r i it = (i', st') -> same_md st st'.
Proof.
  intros st r i it i' st' H; unfold place in H. destruct it.
  - destruct (slot_of st r); inversion H; subst; try reflexivity; try apply set_slot_md.
    destruct (i <? length l); [apply set_slot_md | reflexivity].
  - inversion H; subst; apply with_items_md.
Qed.

Lemma make_bookmark_sd : forall s st b st', make_bookmark s st = (b, st') -> same_sd st st'.
Proof. intros s st b st' H; unfold make_bookmark in H; destruct (str_assoc _ _); inversion H; subst; split; reflexivity. Qed.
Lemma make_bookmark_md : forall s st b st', make_bookmark s st = (b, st') -> same_md st st'.
Proof. intros s st b st' H; unfold make_bookmark in H; destruct (str_assoc _ _); inversion H; subst; reflexivity. Qed.

Lemma new_nonterminal_sd : forall t st r st', new_nonterminal t st = (r, st') -> same_sd st st'.
Proof.
  intros t st r st' H; unfold new_nonterminal in H. destruct (make_bookmark t st) as [b st1] eqn:E.
  apply make_bookmark_sd in E. unfold alloc in H; inversion H; subst. destruct E; split; simpl; auto.
Qed.
Lemma new_nonterminal_md : forall t st r st', new_nonterminal t st = (r, st') -> same_md st st'.
Proof.
  intros t st r st' H; unfold new_nonterminal in H. destruct (make_bookmark t st) as [b st1] eqn:E.
  apply make_bookmark_md in E. unfold alloc in H; inversion H; subst. unfold same_md in *; simpl; auto.
Qed.

Lemma wrap_rn_sd : forall G o x ret st ret' st', wrap_rn G o x ret st = (ret', st') -> same_sd st st'.
Proof.
  intros G o x ret st ret' st' H; unfold wrap_rn in H. destruct ret; [|inversion H; subst; apply same_sd_refl].
  destruct (_ && _); inversion H; subst; split; reflexivity.
Qed.
Lemma wrap_rn_md : forall G o x ret st ret' st', wrap_rn G o x ret st = (ret', st') -> same_md st st'.
Proof.
  intros G o x ret st ret' st' H; unfold wrap_rn in H. destruct ret; [|inversion H; subst; reflexivity].
  destruct (_ && _); inversion H; subst; reflexivity.
Qed.

Lemma extract_md : forall x st, same_md st (extract_into_diagram x st).
Proof.
  intros; unfold extract_into_diagram. destruct (assoc x (c_states st)) as [pos|]; [|reflexivity].
  destruct (es_parent pos).
  - destruct (new_nonterminal _ st) as [r0 st1] eqn:E. apply new_nonterminal_md in E.
    pose proof (put_child_md st1 r (es_pidx pos) r0) as P. unfold same_md in *; simpl. congruence.
  - reflexivity.
Qed.
Lemma mark_md : forall G x nm force st, same_md st (mark_for_extraction G x nm force st).
Proof.
  intros; unfold mark_for_extraction. destruct (assoc x (c_states st)); [|reflexivity].
  destruct (_ || _); [|reflexivity].
  eapply same_md_trans; [|apply extract_md]. reflexivity.
Qed.

(* ------------------------------------------------------------------------------------------------ closed elements *)
(* an element is "closed" once it has a sub-diagram or a state carrying a name: the repeat test then answers with a
   NonTerminal instead of converting the element again *)
Definition named (G : graph) (x : id) : bool := truthy (n_custom (gnode G x)).
Definition closedb (st : cstate) (x : id) : bool :=
  match assoc x (c_diagrams st) with
  | Some _ => true
  | None => match assoc x (c_states st) with
            | Some s => match es_name s with Some _ => true | None => false end
            | None => false
            end
  end.
Definition le_closed (G : graph) (st st' : cstate) : Prop :=
  forall y, named G y = true -> closedb st y = true -> closedb st' y = true.

Lemma closedb_sd : forall st st' y, same_sd st st' -> closedb st' y = closedb st y.
Proof. intros st st' y [H1 H2]; unfold closedb; rewrite H1, H2; reflexivity. Qed.
Lemma le_closed_refl : forall G st, le_closed G st st.  Proof. unfold le_closed; auto. Qed.
Lemma le_closed_trans : forall G a b c, le_closed G a b -> le_closed G b c -> le_closed G a c.
Proof. unfold le_closed; auto. Qed.
Lemma le_closed_sd : forall G st st', same_sd st st' -> le_closed G st st'.
Proof. unfold le_closed; intros; erewrite closedb_sd; eauto. Qed.
Lemma le_closed_sd_r : forall G a b c, le_closed G a b -> same_sd b c -> le_closed G a c.
Proof. intros; eapply le_closed_trans; eauto using le_closed_sd. Qed.

(* the strong form: every closed element stays closed *)
Definition le_closed_all (st st' : cstate) : Prop := forall y, closedb st y = true -> closedb st' y = true.
Lemma le_all_weaken : forall G st st', le_closed_all st st' -> le_closed G st st'.
Proof. unfold le_closed_all, le_closed; auto. Qed.
Lemma le_all_trans : forall a b c, le_closed_all a b -> le_closed_all b c -> le_closed_all a c.
Proof. unfold le_closed_all; auto. Qed.
Lemma le_all_sd : forall st st', same_sd st st' -> le_closed_all st st'.
Proof. unfold le_closed_all; intros; erewrite closedb_sd; eauto. Qed.

Lemma extract_closed : forall x st, le_closed_all st (extract_into_diagram x st).
Proof.
  intros x st y Hy. unfold extract_into_diagram. destruct (assoc x (c_states st)) as [pos|] eqn:Ex.
  2:{ unfold closedb in *; simpl; auto. }
  set (st1 := match es_parent pos with
              | Some p => let '(r, st0) := new_nonterminal (oname (es_name pos)) st in put_child st0 p (es_pidx pos) r
              | None => st end).
  assert (S1 : same_sd st st1).
  { subst st1. destruct (es_parent pos); [|apply same_sd_refl].
    destruct (new_nonterminal _ st) as [r0 st0] eqn:E. apply new_nonterminal_sd in E.
    eapply same_sd_trans; eauto using put_child_sd. }
  destruct S1 as [Hs Hd]. unfold closedb in *; simpl. rewrite Hd.
  destruct (Nat.eq_dec x y) as [->|Hne].
  - now rewrite assoc_set_same.
  - rewrite assoc_set_other by auto. destruct (assoc y (c_diagrams st)); auto.
    rewrite assoc_del_other by auto. rewrite Hs. auto.
Qed.

Lemma extract_closes : forall x st s, assoc x (c_states st) = Some s -> closedb (extract_into_diagram x st) x = true.
Proof.
  intros x st s H. unfold extract_into_diagram; rewrite H. unfold closedb; simpl. now rewrite assoc_set_same.
Qed.

Lemma mark_closed : forall G x nm force st, le_closed_all st (mark_for_extraction G x nm force st).
Proof.
  intros G x nm force st. unfold mark_for_extraction. destruct (assoc x (c_states st)) as [s|] eqn:Ex.
  2:{ apply le_all_sd; split; reflexivity. }
  match goal with |- le_closed_all _ (if _ then extract_into_diagram _ ?S else _) => set (st1 := S) end.
  assert (A : le_closed_all st st1).
  { intros y Hy. subst st1; unfold closedb in *; simpl. destruct (assoc y (c_diagrams st)); auto.
    destruct (Nat.eq_dec x y) as [->|Hne].
    - rewrite assoc_set_same; simpl.
      destruct (truthy (es_name s)) eqn:T1; [destruct (es_name s); simpl in *; congruence|].
      destruct (truthy nm) eqn:T2; [destruct nm; simpl in *; congruence|].
      destruct (truthy (n_custom (gnode G y))) eqn:T3; [destruct (n_custom (gnode G y)); simpl in *; congruence|].
      reflexivity.
    - rewrite assoc_set_other by auto. auto. }
  destruct (_ || _); auto. eapply le_all_trans; eauto using extract_closed.
Qed.

Lemma mark_closes : forall G x nm force st s, assoc x (c_states st) = Some s ->
  closedb (mark_for_extraction G x nm force st) x = true.
Proof.
  intros G x nm force st s H. unfold mark_for_extraction; rewrite H.
  match goal with |- closedb (if _ then extract_into_diagram _ ?S else _) _ = _ => set (st1 := S) end.
  assert (A : closedb st1 x = true).
  { subst st1; unfold closedb; simpl. destruct (assoc x (c_diagrams st)); auto. rewrite assoc_set_same; simpl.
    destruct (truthy (es_name s)) eqn:T1; [destruct (es_name s); simpl in *; congruence|].
    destruct (truthy nm) eqn:T2; [destruct nm; simpl in *; congruence|].
    destruct (truthy (n_custom (gnode G x))) eqn:T3; [destruct (n_custom (gnode G x)); simpl in *; congruence|].
    reflexivity. }
  destruct (_ || _); auto. apply extract_closed; auto.
Qed.

Section ConvFacts.
  Variable G : graph.
  Variable o : opts.
  Variable fx : bool.

  Lemma in_diagrams_sd : forall x st r st', in_diagrams x st = Some (r, st') -> same_sd st st'.
  Proof.
    intros x st r st' H; unfold in_diagrams in H. destruct (assoc x (c_diagrams st)); inversion H.
    eapply new_nonterminal_sd; eauto.
  Qed.
  Lemma in_diagrams_md : forall x st r st', in_diagrams x st = Some (r, st') -> same_md st st'.
  Proof.
    intros x st r st' H; unfold in_diagrams in H. destruct (assoc x (c_diagrams st)); inversion H.
    eapply new_nonterminal_md; eauto.
  Qed.

  Lemma repeat_test_closed : forall x h st r st', repeat_test G fx x h st = Some (r, st') -> le_closed_all st st'.
  Proof.
    intros x h st r st' H. unfold repeat_test in H. destruct (worth G x); [|discriminate].
    destruct (assoc x (c_states st)) as [s|] eqn:Ex.
    - destruct (es_name s) eqn:En.
      + inversion H as [H1]. apply new_nonterminal_sd in H1.
        eapply le_all_trans; [apply mark_closed|]. apply le_all_sd; eauto.
      + destruct (fx && negb (es_complete s)).
        * inversion H as [H1]. apply new_nonterminal_sd in H1.
          eapply le_all_trans; [|apply le_all_sd; eauto].
          eapply le_all_trans; [|apply mark_closed].
          intros y Hy. unfold closedb in *; simpl. destruct (assoc y (c_diagrams st)); auto.
          destruct (Nat.eq_dec x y) as [->|Hne]; [now rewrite assoc_set_same | now rewrite assoc_set_other by auto].
        * apply le_all_sd. eapply in_diagrams_sd; eauto.
    - apply le_all_sd. eapply in_diagrams_sd; eauto.
  Qed.

  Lemma repeat_test_md : forall x h st r st', repeat_test G fx x h st = Some (r, st') -> same_md st st'.
  Proof.
    intros x h st r st' H. unfold repeat_test in H. destruct (worth G x); [|discriminate].
    destruct (assoc x (c_states st)) as [s|] eqn:Ex.
    - destruct (es_name s) eqn:En.
      + inversion H as [H1]. apply new_nonterminal_md in H1. eapply same_md_trans; [apply mark_md|eauto].
      + destruct (fx && negb (es_complete s)).
        * inversion H as [H1]. apply new_nonterminal_md in H1.
          eapply same_md_trans; [|eauto]. eapply same_md_trans; [|apply mark_md]. reflexivity.
        * eapply in_diagrams_md; eauto.
    - eapply in_diagrams_md; eauto.
  Qed.

  (* when the test lets a worth-extracting element through, that element is not closed *)
  Lemma repeat_test_none : forall x h st, worth G x = true -> repeat_test G fx x h st = None -> closedb st x = false.
  Proof.
    intros x h st W H. unfold repeat_test in H; rewrite W in H. unfold closedb.
    destruct (assoc x (c_states st)) as [s|] eqn:Ex.
    - destruct (es_name s) eqn:En; [discriminate|].
      destruct (fx && negb (es_complete s)); [discriminate|].
      unfold in_diagrams in H. destruct (assoc x (c_diagrams st)); [discriminate|reflexivity].
    - unfold in_diagrams in H. destruct (assoc x (c_diagrams st)); [discriminate|reflexivity].
  Qed.

  Lemma create_closed : forall x pn p i st r st', create G x pn p i st = (r, st') -> le_closed G st st'.
  Proof.
    intros x pn p i st r st' H. unfold create in H. unfold alloc in H. simpl in H.
    match type of H with (_, if _ then mark_for_extraction _ _ _ _ ?S else _) = _ => set (st1 := S) in * end.
    destruct (truthy (n_custom (gnode G x))) eqn:T; inversion H; subst.
    - intros y Ny Hy. destruct (Nat.eq_dec x y) as [->|Hne].
      + eapply mark_closes. subst st1; simpl. apply assoc_set_same.
      + apply mark_closed. subst st1. unfold closedb in *; simpl. now rewrite assoc_set_other by auto.
    - intros y Ny Hy. destruct (Nat.eq_dec x y) as [->|Hne].
      + unfold named in Ny; congruence.
      + subst st1. unfold closedb in *; simpl. now rewrite assoc_set_other by auto.
  Qed.

  Lemma create_closes : forall x pn p i st r st', create G x pn p i st = (r, st') -> named G x = true -> closedb st' x = true.
  Proof.
    intros x pn p i st r st' H N. unfold create in H. unfold alloc in H. simpl in H. unfold named in N. rewrite N in H.
    inversion H; subst. eapply mark_closes. simpl. apply assoc_set_same.
  Qed.

  Lemma create_md : forall x pn p i st r st', create G x pn p i st = (r, st') -> same_md st st'.
  Proof.
    intros x pn p i st r st' H. unfold create in H. unfold alloc in H. simpl in H.
    destruct (truthy (n_custom (gnode G x))); inversion H; subst.
    - eapply same_md_trans; [|apply mark_md]. reflexivity.
    - reflexivity.
  Qed.

  Lemma finish_closed : forall x nm r st ret st', finish G o x nm r st = (ret, st') -> le_closed_all st st'.
  Proof.
    intros x nm r st ret st' H. unfold finish in H.
    match type of H with (let '(_, _) := ?A in _) = _ => destruct A as [ret1 st1] eqn:E1 end.
    assert (S1 : same_sd st st1).
    { destruct (match slot_of st r with SItems [] => true | SItem IVNone => true | _ => false end);
        inversion E1; subst; [split; reflexivity | apply same_sd_refl]. }
    match type of H with (let '(_, _) := match assoc x (c_states ?S) with _ => _ end in _) = _ => set (st2 := S) in * end.
    assert (A2 : le_closed_all st1 st2).
    { subst st2. destruct (assoc x (c_states st1)) as [s|] eqn:Ex; [|apply le_all_sd, same_sd_refl].
      intros y Hy. unfold closedb in *; simpl. destruct (assoc y (c_diagrams st1)); auto.
      destruct (Nat.eq_dec x y) as [->|Hne].
      - rewrite assoc_set_same. rewrite Ex in Hy. simpl. auto.
      - now rewrite assoc_set_other by auto. }
    match type of H with (let '(_, _) := ?A in _) = _ => destruct A as [ret3 st3] eqn:E3 end.
    assert (A3 : le_closed_all st2 st3).
    { destruct (assoc x (c_states st2)) as [s|]; [|inversion E3; subst; apply le_all_sd, same_sd_refl].
      destruct (es_extract s && es_complete s); [|inversion E3; subst; apply le_all_sd, same_sd_refl].
      apply new_nonterminal_sd in E3. eapply le_all_trans; [apply extract_closed|apply le_all_sd; eauto]. }
    apply wrap_rn_sd in H.
    eapply le_all_trans; [apply le_all_sd; eauto|]. eapply le_all_trans; eauto.
    eapply le_all_trans; eauto. apply le_all_sd; auto.
  Qed.

  Lemma finish_md : forall x nm r st ret st', finish G o x nm r st = (ret, st') -> same_md st st'.
  Proof.
    intros x nm r st ret st' H. unfold finish in H.
    match type of H with (let '(_, _) := ?A in _) = _ => destruct A as [ret1 st1] eqn:E1 end.
    assert (S1 : same_md st st1).
    { destruct (match slot_of st r with SItems [] => true | SItem IVNone => true | _ => false end);
        inversion E1; subst; reflexivity. }
    match type of H with (let '(_, _) := match assoc x (c_states ?S) with _ => _ end in _) = _ => set (st2 := S) in * end.
    assert (A2 : same_md st1 st2).
    { subst st2. destruct (assoc x (c_states st1)); reflexivity. }
    match type of H with (let '(_, _) := ?A in _) = _ => destruct A as [ret3 st3] eqn:E3 end.
    assert (A3 : same_md st2 st3).
    { destruct (assoc x (c_states st2)) as [s|]; [|inversion E3; subst; reflexivity].
      destruct (es_extract s && es_complete s); [|inversion E3; subst; reflexivity].
      apply new_nonterminal_md in E3. eapply same_md_trans; [apply extract_md|eauto]. }
    apply wrap_rn_md in H. unfold same_md in *. congruence.
  Qed.

  (* ---------------------------------------------------------------------------------------------- the child loop *)
  Lemma kids_loop_closed : forall rec es r i st res st',
    (forall e p j s rr s', rec e p j s = (rr, s') -> le_closed G s s') ->
    kids_loop rec r es i st = (res, st') -> le_closed G st st'.
  Proof.
    induction es as [|e es IH]; simpl; intros r i st res st' Hrec H.
    - inversion H; subst; apply le_closed_refl.
    - destruct (rec e (Some r) i (with_items st r (insert_at i None))) as [[item|] st2] eqn:E.
      + destruct (place st2 r i item) as [i' st3] eqn:P.
        apply Hrec in E. apply place_sd in P. apply IH in H; auto.
        eapply le_closed_trans; [apply le_closed_sd; apply (with_items_sd st r (insert_at i None))|].
        eapply le_closed_trans; eauto. eapply le_closed_trans; [apply le_closed_sd; eauto|]. auto.
      + inversion H; subst. apply Hrec in E.
        eapply le_closed_trans; [apply le_closed_sd; apply (with_items_sd st r (insert_at i None))|]. auto.
  Qed.

  Lemma conv_S : forall f d x p i h st,
    conv G o fx (S f) d x p i h st =
      if bypass G x then
        match conv G o fx f (S d) (hd 0 (kids G x)) p i
                   (if truthy (n_custom (gnode G (hd 0 (kids G x)))) then None else Some (name_of G x h)) (note_depth d st) with
        | (Ok ret, st) => let '(ret, st) := wrap_rn G o x ret st in (Ok ret, st)
        | (OutOfFuel, st) => (OutOfFuel, st)
        end
      else
        match repeat_test G fx x h (note_depth d st) with
        | Some (r, st) => let '(ret, st) := wrap_rn G o x (Some r) st in (Ok ret, st)
        | None =>
          if negb (n_show (gnode G x)) && negb (o_hidden o) then (Ok None, note_depth d st)
          else
            match choose G o x (name_of G x h) with
            | None => (Ok None, note_depth d st)
            | Some pn =>
              let '(r, st) := create G x pn p i (note_depth d st) in
              match kids_loop (fun e p i s => conv G o fx f (S d) e p i None s) r (kids G x) 0 st with
              | (Ok _, st) => let '(ret, st) := finish G o x (name_of G x h) r st in (Ok ret, st)
              | (OutOfFuel, st) => (OutOfFuel, st)
              end
            end
        end.
  Proof. reflexivity. Qed.

  Lemma conv_closed : forall f d x p i h st res st', conv G o fx f d x p i h st = (res, st') -> le_closed G st st'.
  Proof.
    induction f as [|f IH]; intros d x p i h st res st' H.
    - simpl in H. inversion H; subst. apply le_closed_sd; split; reflexivity.
    - rewrite conv_S in H.
      assert (N : le_closed G st (note_depth d st)) by (apply le_closed_sd; split; reflexivity).
      eapply le_closed_trans; [exact N|]. clear N.
      destruct (bypass G x).
      + destruct (conv G o fx f (S d) _ p i _ (note_depth d st)) as [[ret|] st1] eqn:E.
        * destruct (wrap_rn G o x ret st1) as [ret' st2] eqn:W. inversion H; subst.
          apply IH in E. apply wrap_rn_sd in W. eapply le_closed_sd_r; eauto.
        * inversion H; subst. eapply IH; eauto.
      + destruct (repeat_test G fx x h (note_depth d st)) as [[r st1]|] eqn:RT.
        * destruct (wrap_rn G o x (Some r) st1) as [ret' st2] eqn:W. inversion H; subst.
          apply repeat_test_closed in RT. apply wrap_rn_sd in W.
          eapply le_closed_sd_r; eauto. apply le_all_weaken; auto.
        * destruct (negb (n_show (gnode G x)) && negb (o_hidden o)); [inversion H; subst; apply le_closed_refl|].
          destruct (choose G o x (name_of G x h)) as [pn|]; [|inversion H; subst; apply le_closed_refl].
          destruct (create G x pn p i (note_depth d st)) as [r st1] eqn:C.
          destruct (kids_loop _ r (kids G x) 0 st1) as [[u|] st2] eqn:K.
          -- destruct (finish G o x (name_of G x h) r st2) as [ret st3] eqn:Fi. inversion H; subst.
             apply create_closed in C. apply finish_closed in Fi.
             apply kids_loop_closed in K; [|intros; eapply IH; eauto].
             eapply le_closed_trans; eauto. eapply le_closed_trans; eauto. apply le_all_weaken; auto.
          -- inversion H; subst. apply create_closed in C.
             apply kids_loop_closed in K; [|intros; eapply IH; eauto].
             eapply le_closed_trans; eauto.
  Qed.
End ConvFacts.

(* ------------------------------------------------------------------------------------------------ counting *)
Lemma filter_len_le : forall A (f g : A -> bool) l,
  (forall y, f y = true -> g y = true) -> length (filter f l) <= length (filter g l).
Proof.
  induction l as [|a l IH]; simpl; intros H; auto.
  destruct (f a) eqn:Fa.
  - rewrite (H _ Fa). simpl. apply le_n_S; auto.
  - destruct (g a); simpl; auto.
Qed.

Lemma filter_len_lt : forall A (f g : A -> bool) l x,
  (forall y, f y = true -> g y = true) -> In x l -> g x = true -> f x = false ->
  length (filter f l) < length (filter g l).
Proof.
  induction l as [|a l IH]; simpl; intros x H Hin Gx Fx; [contradiction|].
  destruct Hin as [->|Hin].
  - rewrite Gx, Fx. simpl. apply Nat.lt_succ_r. apply filter_len_le; auto.
  - destruct (f a) eqn:Fa.
    + rewrite (H _ Fa). simpl. apply -> Nat.succ_lt_mono. eapply IH; eauto.
    + destruct (g a); simpl; [apply Nat.lt_lt_succ_r|]; eapply IH; eauto.
Qed.

(* ------------------------------------------------------------------------------------------------ termination *)
Section Termination.
  Variable G : graph.
  Variable o : opts.
  Variable fx : bool.

  (* elements at which the recursion stops: a named element worth extracting is converted at most once while it is
     open (afterwards the repeat test answers); a hidden element is never converted *)
  Definition nstopper (x : id) : bool := named G x && worth G x.
  Definition hstop (x : id) : bool := negb (bypass G x) && negb (n_show (gnode G x)) && negb (o_hidden o).
  Definition stopper (x : id) : bool := nstopper x || hstop x.

  Definition isopen (st : cstate) (x : id) : bool := nstopper x && negb (closedb st x).
  Definition opens (st : cstate) : nat := length (filter (isopen st) (map fst G)).

  Lemma named_in_G : forall x, named G x = true -> In x (map fst G).
  Proof.
    intros x H. unfold named, gnode in H. destruct (assoc x G) eqn:E; [eapply assoc_in_keys; eauto|].
    simpl in H; discriminate.
  Qed.

  Lemma opens_mono : forall st st', le_closed G st st' -> opens st' <= opens st.
  Proof.
    intros st st' H. apply filter_len_le. intros y Hy. unfold isopen, nstopper in *.
    apply andb_true_iff in Hy as [Hn Hc]. rewrite Hn; simpl.
    apply andb_true_iff in Hn as [Hn _].
    destruct (closedb st y) eqn:C; auto. rewrite (H y Hn C) in Hc. discriminate.
  Qed.

  Lemma opens_strict : forall st st' x, le_closed G st st' -> isopen st x = true -> closedb st' x = true ->
    opens st' < opens st.
  Proof.
    intros st st' x H Ho Hc. unfold opens. apply filter_len_lt with (x := x); auto.
    - intros y Hy. unfold isopen, nstopper in *.
      apply andb_true_iff in Hy as [Hn Hcy]. rewrite Hn; simpl.
      apply andb_true_iff in Hn as [Hn _].
      destruct (closedb st y) eqn:C; auto. rewrite (H y Hn C) in Hcy. discriminate.
    - apply named_in_G. unfold isopen, nstopper in Ho. apply andb_true_iff in Ho as [Hn _].
      apply andb_true_iff in Hn as [Hn _]. auto.
    - unfold isopen in *. rewrite Hc. apply andb_true_iff in Ho as [-> _]. reflexivity.
  Qed.

  Lemma opens_le_size : forall st, opens st <= length G.
  Proof.
    intros. unfold opens. rewrite <- (map_length fst G).
    generalize (map fst G). induction l as [|a l IH]; simpl; auto. destruct (isopen st a); simpl; lia.
  Qed.

  Variable rk : id -> nat.
  Variable R : nat.
  Hypothesis rk_bound : forall x, rk x <= R.
  (* every edge into an element that is not a stopper decreases the rank: the grammar graph without its stoppers is acyclic,
     i.e. every cycle contains a stopper *)
  Hypothesis rk_edge : forall x y, In y (kids G x) -> stopper y = false -> rk y < rk x.

  Definition cost (st : cstate) (x : id) : nat :=
    if hstop x then 1
    else if nstopper x then (if closedb st x then 1 else opens st * (R + 2) + 1)
    else opens st * (R + 2) + rk x + 2.

  Lemma cost_kid : forall st s x y f,
    In y (kids G x) -> opens s <= opens st ->
    (* the parent is not a stopper and was charged its rank *)
    opens st * (R + 2) + rk x + 2 <= S f -> cost s y <= f.
  Proof.
    intros st s x y f Hin Ho Hc. unfold cost.
    assert (M : opens s * (R + 2) <= opens st * (R + 2)) by (apply Nat.mul_le_mono_r; auto).
    destruct (hstop y) eqn:Hh; [lia|].
    destruct (nstopper y) eqn:Hn.
    - destruct (closedb s y); lia.
    - assert (rk y < rk x) by (apply rk_edge; auto; unfold stopper; rewrite Hh, Hn; reflexivity). lia.
  Qed.

  Lemma cost_kid_of_stopper : forall st s y f,
    opens s < opens st -> opens st * (R + 2) + 1 <= S f -> cost s y <= f.
  Proof.
    intros st s y f Ho Hc. unfold cost.
    assert (M : (opens s + 1) * (R + 2) <= opens st * (R + 2)) by (apply Nat.mul_le_mono_r; lia).
    rewrite Nat.mul_add_distr_r, Nat.mul_1_l in M. pose proof (rk_bound y).
    destruct (hstop y); [lia|]. destruct (nstopper y); [destruct (closedb s y); lia | lia].
  Qed.

  Lemma cost_sd : forall st st' x, same_sd st st' -> cost st' x = cost st x.
  Proof.
    intros st st' x H. unfold cost, opens. rewrite (closedb_sd _ _ x H).
    replace (filter (isopen st') (map fst G)) with (filter (isopen st) (map fst G)); auto.
    apply filter_ext. intros y. unfold isopen. now rewrite (closedb_sd _ _ y H).
  Qed.

  Lemma kids_loop_ok : forall rec st0 es r i st,
    (forall e p j s, In e es -> le_closed G st0 s -> exists r' s', rec e p j s = (Ok r', s') /\ le_closed G s s') ->
    le_closed G st0 st -> exists st', kids_loop rec r es i st = (Ok tt, st').
  Proof.
    induction es as [|e es IH]; simpl; intros r i st Hrec Hle; eauto.
    assert (L1 : le_closed G st0 (with_items st r (insert_at i None))).
    { eapply le_closed_sd_r; eauto. apply with_items_sd. }
    destruct (Hrec e (Some r) i _ (or_introl eq_refl) L1) as (r' & s' & E & L2). rewrite E.
    destruct (place s' r i r') as [i' st3] eqn:P. apply place_sd in P.
    apply IH; [intros; apply Hrec; auto|]. apply le_closed_sd_r with (b := s'); auto.
    apply le_closed_trans with (b := with_items st r (insert_at i None)); auto.
  Qed.

  Lemma conv_terminates : forall f x d p i h st, cost st x <= f -> exists r st', conv G o fx f d x p i h st = (Ok r, st').
  Proof.
    induction f as [|f IH]; intros x d p i h st Hc.
    - exfalso. unfold cost in Hc. destruct (hstop x); [lia|]. destruct (nstopper x); [destruct (closedb st x); lia|lia].
    - rewrite conv_S.
      assert (SD : same_sd st (note_depth d st)) by (split; reflexivity).
      destruct (bypass G x) eqn:B.
      + (* an unnamed Forward / Located passes straight through to its body *)
        assert (Hh : hstop x = false) by (unfold hstop; rewrite B; reflexivity).
        assert (Hn : nstopper x = false).
        { unfold nstopper, named. unfold bypass in B. apply andb_true_iff in B as [B _].
          apply negb_true_iff in B. rewrite B. reflexivity. }
        unfold cost in Hc. rewrite Hh, Hn in Hc.
        assert (Hin : In (hd 0 (kids G x)) (kids G x)).
        { unfold bypass in B. apply andb_true_iff in B as [_ B]. destruct (n_kind (gnode G x)); try discriminate.
          unfold has_kids in B. destruct (kids G x); [discriminate|left; reflexivity]. }
        destruct (IH (hd 0 (kids G x)) (S d) p i
                     (if truthy (n_custom (gnode G (hd 0 (kids G x)))) then None else Some (name_of G x h))
                     (note_depth d st)) as (r & st' & E).
        { rewrite (cost_sd _ _ _ SD). eapply cost_kid; eauto. }
        rewrite E. destruct (wrap_rn G o x r st') as [ret st2]. eauto.
      + destruct (repeat_test G fx x h (note_depth d st)) as [[r st1]|] eqn:RT.
        * destruct (wrap_rn G o x (Some r) st1) as [ret st2]. eauto.
        * destruct (negb (n_show (gnode G x)) && negb (o_hidden o)) eqn:Hid; eauto.
          destruct (choose G o x (name_of G x h)) as [pn|]; eauto.
          destruct (create G x pn p i (note_depth d st)) as [r st1] eqn:C.
          assert (Hh : hstop x = false).
          { unfold hstop. rewrite B. simpl. exact Hid. }
          pose proof (create_closed G x pn p i _ r st1 C) as LC.
          assert (K : exists st2, kids_loop (fun e p0 i0 s => conv G o fx f (S d) e p0 i0 None s) r (kids G x) 0 st1 = (Ok tt, st2)).
          { apply kids_loop_ok with (st0 := st1); [|apply le_closed_refl].
            intros e p0 j s Hin Hle.
            assert (Hce : cost s e <= f).
            { unfold cost in Hc. rewrite Hh in Hc.
              pose proof (opens_mono _ _ Hle) as M1. pose proof (opens_mono _ _ LC) as M2.
              assert (M0 : opens (note_depth d st) = opens st).
              { unfold opens. f_equal. }
              destruct (nstopper x) eqn:Hn.
              - (* x is an open stopper: it is closed from now on *)
                assert (W : worth G x = true) by (unfold nstopper in Hn; apply andb_true_iff in Hn; tauto).
                assert (Nx : named G x = true) by (unfold nstopper in Hn; apply andb_true_iff in Hn; tauto).
                pose proof (repeat_test_none G fx x h _ W RT) as Cl.
                assert (Cl0 : closedb st x = false) by (rewrite <- Cl; symmetry; apply closedb_sd; auto).
                rewrite Cl0 in Hc.
                assert (opens st1 < opens (note_depth d st)).
                { eapply opens_strict with (x := x); eauto.
                  - unfold isopen. rewrite Hn, Cl. reflexivity.
                  - eapply create_closes; eauto. }
                eapply cost_kid_of_stopper with (st := st); eauto. lia.
              - eapply cost_kid with (st := st); eauto. lia. }
            destruct (IH e (S d) p0 j None s Hce) as (r' & s' & E). exists r', s'. split; auto.
            eapply conv_closed; eauto. }
          destruct K as (st2 & K). rewrite K.
          destruct (finish G o x (name_of G x h) r st2) as [ret st3]. eauto.
  Qed.

  Lemma cost_le_bound : forall st x, cost st x <= (length G + 1) * (R + 2).
  Proof.
    intros. unfold cost. pose proof (opens_le_size st). pose proof (rk_bound x).
    assert (M : opens st * (R + 2) <= length G * (R + 2)) by (apply Nat.mul_le_mono_r; auto).
    rewrite Nat.mul_add_distr_r, Nat.mul_1_l.
    destruct (hstop x); [lia|]. destruct (nstopper x); [destruct (closedb st x); lia|lia].
  Qed.
End Termination.

(* ------------------------------------------------------------------------------------------------ depth *)
Section Depth.
  Variable G : graph.
  Variable o : opts.
  Variable fx : bool.

  Lemma kids_loop_md : forall rec es r i st res st' B,
    (forall e p j s rr s', rec e p j s = (rr, s') -> c_maxdepth s' <= Nat.max (c_maxdepth s) B) ->
    kids_loop rec r es i st = (res, st') -> c_maxdepth st' <= Nat.max (c_maxdepth st) B.
  Proof.
    induction es as [|e es IH]; simpl; intros r i st res st' B Hrec H.
    - inversion H; subst. lia.
    - pose proof (with_items_md st r (insert_at i None)) as W. unfold same_md in W.
      destruct (rec e (Some r) i (with_items st r (insert_at i None))) as [[item|] st2] eqn:E.
      + destruct (place st2 r i item) as [i' st3] eqn:P. apply place_md in P. unfold same_md in P.
        apply Hrec in E. eapply IH in H; eauto. lia.
      + inversion H; subst. apply Hrec in E. lia.
  Qed.

  (* a conversion run with fuel f from depth d never records a depth beyond d + f *)
  Lemma conv_depth : forall f d x p i h st res st',
    conv G o fx f d x p i h st = (res, st') -> c_maxdepth st' <= Nat.max (c_maxdepth st) (d + f).
  Proof.
    induction f as [|f IH]; intros d x p i h st res st' H.
    - simpl in H. inversion H; subst. simpl. lia.
    - rewrite conv_S in H.
      assert (N : c_maxdepth (note_depth d st) = Nat.max (c_maxdepth st) d) by reflexivity.
      destruct (bypass G x).
      + destruct (conv G o fx f (S d) _ p i _ (note_depth d st)) as [[ret|] st1] eqn:E; apply IH in E.
        * destruct (wrap_rn G o x ret st1) as [ret' st2] eqn:W. inversion H; subst.
          apply wrap_rn_md in W. unfold same_md in W. lia.
        * inversion H; subst. lia.
      + destruct (repeat_test G fx x h (note_depth d st)) as [[r st1]|] eqn:RT.
        * destruct (wrap_rn G o x (Some r) st1) as [ret' st2] eqn:W. inversion H; subst.
          apply repeat_test_md in RT. apply wrap_rn_md in W. unfold same_md in *. lia.
        * destruct (negb (n_show (gnode G x)) && negb (o_hidden o)); [inversion H; subst; lia|].
          destruct (choose G o x (name_of G x h)) as [pn|]; [|inversion H; subst; lia].
          destruct (create G x pn p i (note_depth d st)) as [r st1] eqn:C.
          apply create_md in C. unfold same_md in C.
          destruct (kids_loop _ r (kids G x) 0 st1) as [[u|] st2] eqn:K;
            (eapply kids_loop_md with (B := S d + f) in K; [|intros ? ? ? ? ? ? E; apply IH in E; lia]).
          -- destruct (finish G o x (name_of G x h) r st2) as [ret st3] eqn:Fi. inversion H; subst.
             apply finish_md in Fi. unfold same_md in Fi. lia.
          -- inversion H; subst. lia.
  Qed.

  Lemma kids_loop_oof : forall rec es r i st st',
    kids_loop rec r es i st = (OutOfFuel, st') -> exists e p j s, rec e p j s = (OutOfFuel, st').
  Proof.
    induction es as [|e es IH]; simpl; intros r i st st' H; [discriminate|].
    destruct (rec e (Some r) i (with_items st r (insert_at i None))) as [[item|] st2] eqn:E.
    - destruct (place st2 r i item) as [i' st3]. eauto.
    - inversion H; subst. eauto.
  Qed.

  (* running out of fuel means that the chain of nested calls really was that long *)
  Lemma conv_oof_depth : forall f d x p i h st st',
    conv G o fx f d x p i h st = (OutOfFuel, st') -> d + f <= c_maxdepth st'.
  Proof.
    induction f as [|f IH]; intros d x p i h st st' H.
    - simpl in H. inversion H; subst. simpl. lia.
    - rewrite conv_S in H.
      destruct (bypass G x).
      + destruct (conv G o fx f (S d) _ p i _ (note_depth d st)) as [[ret|] st1] eqn:E.
        * destruct (wrap_rn G o x ret st1); discriminate.
        * inversion H; subst. apply IH in E. lia.
      + destruct (repeat_test G fx x h (note_depth d st)) as [[r st1]|].
        * destruct (wrap_rn G o x (Some r) st1); discriminate.
        * destruct (negb (n_show (gnode G x)) && negb (o_hidden o)); [discriminate|].
          destruct (choose G o x (name_of G x h)) as [pn|]; [|discriminate].
          destruct (create G x pn p i (note_depth d st)) as [r st1].
          destruct (kids_loop _ r (kids G x) 0 st1) as [[u|] st2] eqn:K.
          -- destruct (finish G o x (name_of G x h) r st2); discriminate.
          -- inversion H; subst. apply kids_loop_oof in K as (e & p0 & j & s & E). apply IH in E. lia.
  Qed.
End Depth.

(* ------------------------------------------------------------------------------------------------ bookmarks *)
From Coq Require Import Permutation.

Lemma seqb_refl : forall a, str_eqb a a = true.
Proof. induction a; simpl; auto. rewrite N.eqb_refl; auto. Qed.
Lemma seqb_eq : forall a b, str_eqb a b = true -> a = b.
Proof.
  induction a as [|x a IH]; destruct b as [|y b]; simpl; intros H; try discriminate; auto.
  apply andb_true_iff in H as [H1 H2]. apply N.eqb_eq in H1. f_equal; auto.
Qed.

(* value of a digit string, most significant digit first *)
Fixpoint dval (l : str) : nat :=
  match l with
  | [] => 0
  | c :: t => (N.to_nat c - 48) * 10 ^ length t + dval t
  end.

Lemma dec_aux_S : forall f n acc, dec_aux (S f) n acc =
  if n / 10 =? 0 then N.of_nat (48 + n mod 10) :: acc else dec_aux f (n / 10) (N.of_nat (48 + n mod 10) :: acc).
Proof. reflexivity. Qed.
Lemma dval_cons : forall c t, dval (c :: t) = (N.to_nat c - 48) * 10 ^ length t + dval t.
Proof. reflexivity. Qed.
Lemma dec_aux_val : forall f n acc, n < f -> dval (dec_aux f n acc) = n * 10 ^ length acc + dval acc.
Proof.
  induction f as [|f IH]; intros n acc Hn; [lia|]. rewrite dec_aux_S.
  pose proof (Nat.div_mod n 10 ltac:(lia)) as DM.
  pose proof (Nat.mod_upper_bound n 10 ltac:(lia)) as MB.
  remember (n / 10) as q. remember (n mod 10) as m.
  assert (Dg : N.to_nat (N.of_nat (48 + m)) - 48 = m) by (rewrite Nnat.Nat2N.id; lia).
  destruct (q =? 0) eqn:E.
  - apply Nat.eqb_eq in E. rewrite dval_cons, Dg. subst q. replace n with m by lia. reflexivity.
  - apply Nat.eqb_neq in E. rewrite IH by lia.
    rewrite dval_cons, Dg. cbn [length]. rewrite Nat.pow_succ_r'.
    generalize (10 ^ length acc). intros P. subst n. ring.
Qed.

Lemma dval_dec : forall n, dval (dec n) = n.
Proof. intros; unfold dec. rewrite dec_aux_val by lia. cbn [length dval]. rewrite Nat.pow_0_r. lia. Qed.

Lemma dval_zeros : forall k s, dval (repeat 48%N k ++ s) = dval s.
Proof.
  induction k; intros; [reflexivity|]. cbn [repeat app]. rewrite dval_cons.
  replace (N.to_nat 48%N - 48) with 0 by reflexivity. rewrite Nat.mul_0_l. apply IHk.
Qed.

Lemma fmt4_inj : forall n m, fmt4 n = fmt4 m -> n = m.
Proof.
  intros n m H. apply (f_equal dval) in H. unfold fmt4 in H. rewrite !dval_zeros, !dval_dec in H. exact H.
Qed.

Definition nohyph (s : str) : Prop := Forall (fun c => c <> HYPHEN) s.

Lemma dec_aux_nohyph : forall f n acc, nohyph acc -> nohyph (dec_aux f n acc).
Proof.
  induction f as [|f IH]; intros n acc H; [exact H|]. rewrite dec_aux_S.
  assert (D : N.of_nat (48 + n mod 10) <> HYPHEN).
  { intro E. apply (f_equal N.to_nat) in E. rewrite Nnat.Nat2N.id in E.
    replace (N.to_nat HYPHEN) with 45 in E by reflexivity. lia. }
  destruct (n / 10 =? 0); [|apply IH]; constructor; auto.
Qed.

Lemma fmt4_nohyph : forall n, nohyph (fmt4 n).
Proof.
  intros. unfold fmt4, nohyph. apply Forall_app. split.
  - apply Forall_forall. intros c Hc. apply repeat_spec in Hc. subst. unfold HYPHEN. discriminate.
  - apply dec_aux_nohyph. constructor.
Qed.

Lemma split_last_hyphen : forall a b x y,
  a ++ HYPHEN :: x = b ++ HYPHEN :: y -> nohyph x -> nohyph y -> x = y.
Proof.
  induction a as [|c a IH]; intros b x y H Hx Hy.
  - destruct b as [|c' b]; simpl in H; inversion H; auto.
    subst. exfalso. unfold nohyph in Hx. apply Forall_app in Hx as [_ Hx]. inversion Hx. congruence.
  - destruct b as [|c' b]; simpl in H; inversion H.
    + subst. exfalso. unfold nohyph in Hy. apply Forall_app in Hy as [_ Hy]. inversion Hy. congruence.
    + eapply IH; eauto.
Qed.

Lemma bookmark_of_counter : forall s n s' k, bookmark_of s n = bookmark_of s' k -> n = k.
Proof.
  intros s n s' k H. unfold bookmark_of in H. apply fmt4_inj.
  eapply split_last_hyphen; eauto using fmt4_nohyph.
Qed.

Inductive bm_wf : list (str * str) -> nat -> Prop :=
| bm_wf_nil : forall n, bm_wf [] n
| bm_wf_cons : forall t n s, bm_wf t n -> str_assoc s t = None -> bm_wf ((s, bookmark_of s n) :: t) (S n).

Lemma bm_wf_bound : forall t n, bm_wf t n -> forall s b, str_assoc s t = Some b -> exists k, k < n /\ b = bookmark_of s k.
Proof.
  induction 1; simpl; intros s0 b Hb; [discriminate|].
  destruct (str_eqb s0 s) eqn:E.
  - apply seqb_eq in E; subst. inversion Hb; subst. exists n; split; auto.
  - destruct (IHbm_wf _ _ Hb) as (k & Hk & ->). exists k; split; auto.
Qed.

Lemma bm_wf_inj : forall t n, bm_wf t n -> forall s1 s2 b, str_assoc s1 t = Some b -> str_assoc s2 t = Some b -> s1 = s2.
Proof.
  induction 1; simpl; intros s1 s2 b H1 H2; [discriminate|].
  destruct (str_eqb s1 s) eqn:E1; destruct (str_eqb s2 s) eqn:E2.
  - apply seqb_eq in E1, E2; congruence.
  - inversion H1; subst. destruct (bm_wf_bound _ _ H _ _ H2) as (k & Hk & Hb).
    apply bookmark_of_counter in Hb. lia.
  - inversion H2; subst. destruct (bm_wf_bound _ _ H _ _ H1) as (k & Hk & Hb).
    apply bookmark_of_counter in Hb. lia.
  - eauto.
Qed.

Definition bm_ok (st : cstate) : Prop := bm_wf (c_bm st) (c_bmnext st).
(* the table only grows, and stays well formed *)
Definition bm_rel (st st' : cstate) : Prop :=
  (bm_ok st -> bm_ok st') /\ (forall s b, str_assoc s (c_bm st) = Some b -> str_assoc s (c_bm st') = Some b).

Lemma bm_rel_refl : forall st, bm_rel st st.  Proof. split; auto. Qed.
Lemma bm_rel_trans : forall a b c, bm_rel a b -> bm_rel b c -> bm_rel a c.
Proof. intros a b c [A1 A2] [B1 B2]; split; auto. Qed.
Lemma bm_rel_same : forall st st', c_bm st' = c_bm st -> c_bmnext st' = c_bmnext st -> bm_rel st st'.
Proof. intros st st' H1 H2; unfold bm_rel, bm_ok; rewrite H1, H2; auto. Qed.

Lemma make_bookmark_rel : forall s st b st', make_bookmark s st = (b, st') ->
  bm_rel st st' /\ str_assoc s (c_bm st') = Some b.
Proof.
  intros s st b st' H. unfold make_bookmark in H. destruct (str_assoc s (c_bm st)) eqn:E; inversion H; subst.
  - split; [apply bm_rel_refl | auto].
  - split; [split|].
    + unfold bm_ok; simpl. intros W. constructor; auto.
    + simpl. intros s0 b0 H0. destruct (str_eqb s0 s) eqn:E0; auto. apply seqb_eq in E0; congruence.
    + simpl. now rewrite seqb_refl.
Qed.

Lemma set_slot_bm : forall st r s, bm_rel st (set_slot st r s).
Proof. intros; unfold set_slot; destruct (nth_error _ _); apply bm_rel_same; reflexivity. Qed.
Lemma put_child_bm : forall st r i v, bm_rel st (put_child st r i v).
Proof.
  intros; unfold put_child; destruct (slot_of st r); try apply bm_rel_refl; try apply set_slot_bm.
  destruct (i <? length l); [apply set_slot_bm | apply bm_rel_same; reflexivity].
Qed.
Lemma with_items_bm : forall st r f, bm_rel st (with_items st r f).
Proof. intros; unfold with_items; destruct (slot_of st r); try apply bm_rel_refl; apply set_slot_bm. Qed.
Lemma place_bm : forall st r i it i' st', place st r i it = (i', st') -> bm_rel st st'.
Proof.
  intros st r i it i' st' H; unfold place in H. destruct it.
  - destruct (slot_of st r); inversion H; subst; try apply bm_rel_refl; try apply set_slot_bm.
    destruct (i <? length l); [apply set_slot_bm | apply bm_rel_same; reflexivity].
  - inversion H; subst; apply with_items_bm.
Qed.
Lemma new_nonterminal_bm : forall t st r st', new_nonterminal t st = (r, st') -> bm_rel st st'.
Proof.
  intros t st r st' H; unfold new_nonterminal in H. destruct (make_bookmark t st) as [b st1] eqn:E.
  apply make_bookmark_rel in E as [E _]. unfold alloc in H; inversion H; subst.
  eapply bm_rel_trans; eauto. apply bm_rel_same; reflexivity.
Qed.
Lemma wrap_rn_bm : forall G o x ret st ret' st', wrap_rn G o x ret st = (ret', st') -> bm_rel st st'.
Proof.
  intros G o x ret st ret' st' H; unfold wrap_rn in H. destruct ret; [|inversion H; subst; apply bm_rel_refl].
  destruct (_ && _); inversion H; subst; apply bm_rel_same; reflexivity.
Qed.
Lemma extract_bm : forall x st, bm_rel st (extract_into_diagram x st).
Proof.
  intros; unfold extract_into_diagram. destruct (assoc x (c_states st)) as [pos|]; [|apply bm_rel_same; reflexivity].
  destruct (es_parent pos).
  - destruct (new_nonterminal _ st) as [r0 st1] eqn:E. apply new_nonterminal_bm in E.
    eapply bm_rel_trans; eauto. eapply bm_rel_trans; [apply put_child_bm|]. apply bm_rel_same; reflexivity.
  - apply bm_rel_same; reflexivity.
Qed.
Lemma mark_bm : forall G x nm force st, bm_rel st (mark_for_extraction G x nm force st).
Proof.
  intros; unfold mark_for_extraction. destruct (assoc x (c_states st)); [|apply bm_rel_same; reflexivity].
  destruct (_ || _); [|apply bm_rel_same; reflexivity].
  eapply bm_rel_trans; [|apply extract_bm]. apply bm_rel_same; reflexivity.
Qed.

Section BmConv.
  Variable G : graph.
  Variable o : opts.
  Variable fx : bool.

  Lemma in_diagrams_bm : forall x st r st', in_diagrams x st = Some (r, st') -> bm_rel st st'.
  Proof.
    intros x st r st' H; unfold in_diagrams in H. destruct (assoc x (c_diagrams st)); inversion H.
    eapply new_nonterminal_bm; eauto.
  Qed.

  Lemma repeat_test_bm : forall x h st r st', repeat_test G fx x h st = Some (r, st') -> bm_rel st st'.
  Proof.
    intros x h st r st' H. unfold repeat_test in H. destruct (worth G x); [|discriminate].
    destruct (assoc x (c_states st)) as [s|] eqn:Ex.
    - destruct (es_name s) eqn:En.
      + inversion H as [H1]. apply new_nonterminal_bm in H1. eapply bm_rel_trans; [apply mark_bm|eauto].
      + destruct (fx && negb (es_complete s)).
        * inversion H as [H1]. apply new_nonterminal_bm in H1.
          eapply bm_rel_trans; [|eauto]. eapply bm_rel_trans; [|apply mark_bm]. apply bm_rel_same; reflexivity.
        * eapply in_diagrams_bm; eauto.
    - eapply in_diagrams_bm; eauto.
  Qed.

  Lemma create_bm : forall x pn p i st r st', create G x pn p i st = (r, st') -> bm_rel st st'.
  Proof.
    intros x pn p i st r st' H. unfold create in H. unfold alloc in H. simpl in H.
    destruct (truthy (n_custom (gnode G x))); inversion H; subst.
    - eapply bm_rel_trans; [|apply mark_bm]. apply bm_rel_same; reflexivity.
    - apply bm_rel_same; reflexivity.
  Qed.

  Lemma finish_bm : forall x nm r st ret st', finish G o x nm r st = (ret, st') -> bm_rel st st'.
  Proof.
    intros x nm r st ret st' H. unfold finish in H.
    match type of H with (let '(_, _) := ?A in _) = _ => destruct A as [ret1 st1] eqn:E1 end.
    assert (S1 : bm_rel st st1).
    { destruct (match slot_of st r with SItems [] => true | SItem IVNone => true | _ => false end);
        inversion E1; subst; [apply bm_rel_same; reflexivity | apply bm_rel_refl]. }
    match type of H with (let '(_, _) := match assoc x (c_states ?S) with _ => _ end in _) = _ => set (st2 := S) in * end.
    assert (A2 : bm_rel st1 st2).
    { subst st2. destruct (assoc x (c_states st1)); apply bm_rel_same; reflexivity. }
    match type of H with (let '(_, _) := ?A in _) = _ => destruct A as [ret3 st3] eqn:E3 end.
    assert (A3 : bm_rel st2 st3).
    { destruct (assoc x (c_states st2)) as [s|]; [|inversion E3; subst; apply bm_rel_refl].
      destruct (es_extract s && es_complete s); [|inversion E3; subst; apply bm_rel_refl].
      apply new_nonterminal_bm in E3. eapply bm_rel_trans; [apply extract_bm|eauto]. }
    apply wrap_rn_bm in H.
    eapply bm_rel_trans; eauto. eapply bm_rel_trans; eauto. eapply bm_rel_trans; eauto.
  Qed.

  Lemma kids_loop_bm : forall rec es r i st res st',
    (forall e p j s rr s', rec e p j s = (rr, s') -> bm_rel s s') ->
    kids_loop rec r es i st = (res, st') -> bm_rel st st'.
  Proof.
    induction es as [|e es IH]; simpl; intros r i st res st' Hrec H.
    - inversion H; subst; apply bm_rel_refl.
    - pose proof (with_items_bm st r (insert_at i None)) as W.
      destruct (rec e (Some r) i (with_items st r (insert_at i None))) as [[item|] st2] eqn:E.
      + destruct (place st2 r i item) as [i' st3] eqn:P.
        apply Hrec in E. apply place_bm in P. apply IH in H; auto.
        eapply bm_rel_trans; eauto. eapply bm_rel_trans; eauto. eapply bm_rel_trans; eauto.
      + inversion H; subst. apply Hrec in E. eapply bm_rel_trans; eauto.
  Qed.

  Lemma conv_bm : forall f d x p i h st res st', conv G o fx f d x p i h st = (res, st') -> bm_rel st st'.
  Proof.
    induction f as [|f IH]; intros d x p i h st res st' H.
    - simpl in H. inversion H; subst. apply bm_rel_same; reflexivity.
    - rewrite conv_S in H.
      assert (N : bm_rel st (note_depth d st)) by (apply bm_rel_same; reflexivity).
      eapply bm_rel_trans; [exact N|]. clear N.
      destruct (bypass G x).
      + destruct (conv G o fx f (S d) _ p i _ (note_depth d st)) as [[ret|] st1] eqn:E.
        * destruct (wrap_rn G o x ret st1) as [ret' st2] eqn:W. inversion H; subst.
          apply IH in E. apply wrap_rn_bm in W. eapply bm_rel_trans; eauto.
        * inversion H; subst. eapply IH; eauto.
      + destruct (repeat_test G fx x h (note_depth d st)) as [[r st1]|] eqn:RT.
        * destruct (wrap_rn G o x (Some r) st1) as [ret' st2] eqn:W. inversion H; subst.
          apply repeat_test_bm in RT. apply wrap_rn_bm in W. eapply bm_rel_trans; eauto.
        * destruct (negb (n_show (gnode G x)) && negb (o_hidden o)); [inversion H; subst; apply bm_rel_refl|].
          destruct (choose G o x (name_of G x h)) as [pn|]; [|inversion H; subst; apply bm_rel_refl].
          destruct (create G x pn p i (note_depth d st)) as [r st1] eqn:C.
          destruct (kids_loop _ r (kids G x) 0 st1) as [[u|] st2] eqn:K.
          -- destruct (finish G o x (name_of G x h) r st2) as [ret st3] eqn:Fi. inversion H; subst.
             apply create_bm in C. apply finish_bm in Fi.
             apply kids_loop_bm in K; [|intros; eapply IH; eauto].
             eapply bm_rel_trans; eauto. eapply bm_rel_trans; eauto.
          -- inversion H; subst. apply create_bm in C.
             apply kids_loop_bm in K; [|intros; eapply IH; eauto].
             eapply bm_rel_trans; eauto.
  Qed.
End BmConv.

(* --- the selection of diagrams: distinct names *)
Lemma existsb_seqb_false : forall n seen, existsb (str_eqb n) seen = false -> ~ In n seen.
Proof.
  induction seen as [|a seen IH]; simpl; intros H; auto.
  apply orb_false_iff in H as [H1 H2]. intros [->|Hin]; [rewrite seqb_refl in H1; discriminate | apply IH; auto].
Qed.

Lemma dedup_names : forall ds seen,
  NoDup (map d_name (dedup seen ds)) /\ (forall n, In n (map d_name (dedup seen ds)) -> ~ In n seen).
Proof.
  induction ds as [|d ds IH]; simpl; intros seen.
  - split; [constructor | intros ? []].
  - destruct (str_eqb (d_name d) ELLIPSIS); [apply IH|].
    destruct (existsb (str_eqb (d_name d)) seen) eqn:E; [apply IH|].
    destruct (IH (d_name d :: seen)) as [N1 N2]. simpl. split.
    + constructor; auto. intros Hin. apply (N2 _ Hin). left; reflexivity.
    + intros n [<-|Hin]; [apply existsb_seqb_false; auto|]. intros Hs. apply (N2 _ Hin). right; auto.
Qed.

Lemma insert_sorted_perm : forall d l, Permutation (insert_sorted d l) (d :: l).
Proof.
  induction l as [|e l IH]; simpl; auto.
  destruct (d_index d <=? d_index e); auto.
  eapply Permutation_trans; [apply perm_skip; exact IH | apply perm_swap].
Qed.
Lemma sort_by_index_perm : forall l, Permutation (sort_by_index l) l.
Proof.
  induction l as [|d l IH]; simpl; auto.
  eapply Permutation_trans; [apply insert_sorted_perm | apply perm_skip; auto].
Qed.

Lemma select_names_nodup : forall diags, NoDup (map d_name (select diags)).
Proof.
  intros. unfold select.
  eapply Permutation_NoDup; [apply Permutation_map; apply Permutation_sym; apply sort_by_index_perm|].
  destruct diags as [|a [|b t]]; try (apply dedup_names). - constructor. - simpl; constructor; [intros []|constructor].
Qed.

Lemma emit_facts : forall ds st out st', emit ds st = (out, st') ->
  bm_rel st st' /\ map od_name out = map d_name ds /\
  (forall x, In x out -> str_assoc (od_name x) (c_bm st') = Some (od_bookmark x)).
Proof.
  induction ds as [|d ds IH]; simpl; intros st out st' H.
  - inversion H; subst. split; [apply bm_rel_refl|]. split; auto. intros ? [].
  - destruct (make_bookmark (d_name d) st) as [b st1] eqn:M.
    destruct (emit ds st1) as [out1 st2] eqn:E. inversion H; subst.
    apply make_bookmark_rel in M as [M1 M2]. apply IH in E as (E1 & E2 & E3).
    split; [eapply bm_rel_trans; eauto|]. split; [simpl; f_equal; auto|].
    intros x [<-|Hin]; simpl; auto. apply E1; auto.
Qed.

Lemma emit_distinct : forall ds st out st', emit ds st = (out, st') ->
  bm_ok st -> NoDup (map d_name ds) -> NoDup (map od_bookmark out).
Proof.
  induction ds as [|d ds IH]; simpl; intros st out st' H W N.
  - inversion H; subst; constructor.
  - destruct (make_bookmark (d_name d) st) as [b st1] eqn:M.
    destruct (emit ds st1) as [out1 st2] eqn:E. inversion H; subst. inversion N as [|? ? Nin N']; subst.
    pose proof (make_bookmark_rel _ _ _ _ M) as [[M0 M1] M2].
    pose proof (emit_facts _ _ _ _ E) as ([E0 E1] & E2 & E3).
    simpl. constructor; [|eapply IH; eauto].
    intros Hin. apply in_map_iff in Hin as (x & Hb & Hx).
    assert (Heq : d_name d = od_name x).
    { eapply bm_wf_inj with (b := b); [apply E0, M0, W| apply E1; auto |]. rewrite <- Hb. apply E3; auto. }
    apply Nin. rewrite Heq, <- E2. apply in_map; auto.
Qed.

Lemma root_extract_bm : forall G root st, bm_rel st (root_extract G root st).
Proof.
  intros. unfold root_extract. destruct (assoc root (c_states st)); [|apply bm_rel_refl].
  eapply bm_rel_trans; [|apply mark_bm]. destruct (truthy _); [apply bm_rel_refl | apply bm_rel_same; reflexivity].
Qed.

Theorem bookmarks_distinct : forall G o fx root fuel st0 out st,
  bm_ok st0 -> to_railroad_from G o fx root fuel st0 = (Ok out, st) -> NoDup (map od_bookmark out).
Proof.
  intros G o fx root fuel st0 out st W H. unfold to_railroad_from in H.
  destruct (conv G o fx fuel 1 root None 0 None st0) as [[r|] st1] eqn:C; [|discriminate].
  destruct (emit _ (root_extract G root st1)) as [out' st2] eqn:E. inversion H; subst.
  eapply emit_distinct; eauto.
  - apply conv_bm in C. apply (proj1 (root_extract_bm G root st1)). apply (proj1 C); auto.
  - apply select_names_nodup.
Qed.

Lemma init_bm_ok : bm_ok init_state.  Proof. constructor. Qed.

(* ------------------------------------------------------------------------------------------------ top level *)
Theorem named_terminates : forall G o fx root rk R,
  (forall x, rk x <= R) ->
  (forall x y, In y (kids G x) -> stopper G o y = false -> rk y < rk x) ->
  forall fuel, (length G + 1) * (R + 2) <= fuel ->
  exists out st, to_railroad G o fx root fuel = (Ok out, st).
Proof.
  intros G o fx root rk R HR Hrk fuel Hf. unfold to_railroad, to_railroad_from.
  destruct (conv_terminates G o fx rk R HR Hrk fuel root 1 None 0 None init_state) as (r & st1 & E).
  { eapply Nat.le_trans; [apply cost_le_bound; auto | exact Hf]. }
  rewrite E. destruct (emit _ (root_extract G root st1)) as [out st2]. eauto.
Qed.

Theorem depth_le_fuel : forall G o fx root fuel r st,
  to_railroad G o fx root fuel = (r, st) -> c_maxdepth st <= 1 + fuel.
Proof.
  intros G o fx root fuel r st H. unfold to_railroad, to_railroad_from in H.
  destruct (conv G o fx fuel 1 root None 0 None init_state) as [[r1|] st1] eqn:C.
  - apply conv_depth in C. simpl in C.
    assert (M : same_md st1 (root_extract G root st1)).
    { unfold root_extract. destruct (assoc root (c_states st1)); [|reflexivity].
      eapply same_md_trans; [|apply mark_md]. destruct (truthy _); reflexivity. }
    destruct (emit _ (root_extract G root st1)) as [out st2] eqn:E. inversion H; subst.
    assert (M2 : forall ds s o' s', emit ds s = (o', s') -> same_md s s').
    { induction ds as [|d ds IH]; simpl; intros s o' s' H0; [inversion H0; reflexivity|].
      destruct (make_bookmark (d_name d) s) as [b s1] eqn:Mb. destruct (emit ds s1) as [o1 s2] eqn:E1.
      inversion H0; subst. apply make_bookmark_md in Mb. apply IH in E1. unfold same_md in *; congruence. }
    apply M2 in E. unfold same_md in *. lia.
  - inversion H; subst. apply conv_depth in C. simpl in C. lia.
Qed.

Theorem out_of_fuel_is_deep : forall G o fx root fuel st,
  to_railroad G o fx root fuel = (OutOfFuel, st) -> 1 + fuel <= c_maxdepth st.
Proof.
  intros G o fx root fuel st H. unfold to_railroad, to_railroad_from in H.
  destruct (conv G o fx fuel 1 root None 0 None init_state) as [[r1|] st1] eqn:C.
  - destruct (emit _ (root_extract G root st1)); discriminate.
  - inversion H; subst. eapply conv_oof_depth; eauto.
Qed.

(* ------------------------------------------------------------------------------------------------ F-20: e <<= Opt(e) *)
Section Loop.
  Variable o : opts.
  Let G := G_fwd_opt.

  Definition loop_inv (st : cstate) : Prop :=
    assoc 1 (c_diagrams st) = None /\ forall s, assoc 1 (c_states st) = Some s -> es_name s = None.

  Lemma loop_inv_sd : forall st st', same_sd st st' -> loop_inv st -> loop_inv st'.
  Proof. intros st st' [H1 H2] [A B]; unfold loop_inv; rewrite H1, H2; auto. Qed.

  Lemma loop_forever : forall f,
    (forall d p i h st, loop_inv st -> fst (conv G o false f d 0 p i h st) = OutOfFuel) /\
    (forall d p i h st, loop_inv st -> fst (conv G o false f d 1 p i h st) = OutOfFuel).
  Proof.
    induction f as [|f [IH0 IH1]]; [split; reflexivity|]. split; intros d p i h st Inv.
    - rewrite conv_S. replace (bypass G 0) with true by reflexivity.
      replace (hd 0 (kids G 0)) with 1 by reflexivity.
      match goal with |- fst (match ?c with _ => _ end) = _ => pose proof (IH1 (S d) p i
        (if truthy (n_custom (gnode G 1)) then None else Some (name_of G 0 h)) (note_depth d st)
        (loop_inv_sd _ _ (conj eq_refl eq_refl) Inv)) as E; destruct c as [[ret|] st1] end.
      + simpl in E; discriminate.
      + reflexivity.
    - rewrite conv_S. replace (bypass G 1) with false by reflexivity.
      assert (RT : repeat_test G false 1 h (note_depth d st) = None).
      { unfold repeat_test. replace (worth G 1) with true by reflexivity. destruct Inv as [A B].
        unfold in_diagrams. simpl c_states. simpl c_diagrams. rewrite A.
        destruct (assoc 1 (c_states st)) as [s|] eqn:Es; auto. rewrite (B s eq_refl). reflexivity. }
      rewrite RT. replace (negb (n_show (gnode G 1)) && negb (o_hidden o)) with false by reflexivity.
      replace (choose G o 1 (name_of G 1 h)) with (Some {| p_func := FOptional; p_slot := SItem IVEmpty |}) by reflexivity.
      destruct (create G 1 {| p_func := FOptional; p_slot := SItem IVEmpty |} p i (note_depth d st)) as [r st1] eqn:C.
      assert (Inv1 : loop_inv st1).
      { unfold create, alloc in C. simpl in C. inversion C; subst. destruct Inv as [A B]. split; simpl; auto.
        rewrite assoc_set_same. intros s Hs; inversion Hs; reflexivity. }
      replace (kids G 1) with [0] by reflexivity. simpl kids_loop.
      match goal with |- fst (match (match ?c with _ => _ end) with _ => _ end) = _ =>
        pose proof (IH0 (S d) (Some r) 0 None (with_items st1 r (insert_at 0 None))
                        (loop_inv_sd _ _ (with_items_sd _ _ _) Inv1)) as E; destruct c as [[ret|] st2] end.
      + simpl in E; discriminate.
      + reflexivity.
  Qed.

  Theorem fwd_opt_never_terminates : forall fuel, fst (to_railroad G o false 0 fuel) = OutOfFuel.
  Proof.
    intros fuel. unfold to_railroad, to_railroad_from.
    pose proof (proj1 (loop_forever fuel) 1 None 0 None init_state) as E.
    destruct (conv G o false fuel 1 0 None 0 None init_state) as [[r|] st1].
    - simpl in E. assert (loop_inv init_state) by (split; [reflexivity | intros s Hs; discriminate]).
      specialize (E H). discriminate.
    - reflexivity.
  Qed.
End Loop.

(* ------------------------------------------------------------------------------------------------ checks on concrete graphs *)
Lemma assoc_in : forall A k (l : list (nat * A)) v, assoc k l = Some v -> In (k, v) l.
Proof.
  induction l as [|[k2 v2] t IH]; simpl; intros; try discriminate.
  destruct (k =? k2) eqn:E.
  - apply Nat.eqb_eq in E; subst. inversion H; auto.
  - right; eauto.
Qed.

Lemma stopper_b_eq : forall G o x, stopper_b G o x = stopper G o x.
Proof. reflexivity. Qed.

Lemma rank_check_sound : forall G o rk, rank_check G o rk = true ->
  forall x y, In y (kids G x) -> stopper G o y = false -> rk y < rk x.
Proof.
  intros G o rk H x y Hin Hs. unfold kids, gnode in Hin. destruct (assoc x G) as [n|] eqn:E; [|simpl in Hin; contradiction].
  apply assoc_in in E. unfold rank_check in H. rewrite forallb_forall in H. specialize (H _ E). simpl in H.
  rewrite forallb_forall in H. specialize (H _ Hin). rewrite stopper_b_eq, Hs in H. simpl in H.
  apply Nat.ltb_lt; auto.
Qed.

Lemma nth_bound : forall (l : list nat) R, forallb (fun v => v <=? R) l = true -> forall x, nth x l 0 <= R.
Proof.
  induction l as [|a l IH]; simpl; intros R H x.
  - destruct x; lia.
  - apply andb_true_iff in H as [H1 H2]. apply Nat.leb_le in H1. destruct x; auto.
Qed.

(* --- order of the output *)
Inductive sorted_idx : list dentry -> Prop :=
| sorted_nil : sorted_idx []
| sorted_one : forall d, sorted_idx [d]
| sorted_cons : forall d e t, d_index d <= d_index e -> sorted_idx (e :: t) -> sorted_idx (d :: e :: t).

Lemma insert_sorted_sorted : forall d l, sorted_idx l -> sorted_idx (insert_sorted d l).
Proof.
  induction l as [|e l IH]; simpl; intros H; [constructor|].
  destruct (d_index d <=? d_index e) eqn:E.
  - apply Nat.leb_le in E. constructor; auto.
  - apply Nat.leb_gt in E. inversion H; subst; simpl.
    + constructor; [lia|constructor].
    + specialize (IH H3). simpl in IH. destruct (d_index d <=? d_index e0) eqn:E2.
      * constructor; [lia|]. exact IH.
      * constructor; auto.
Qed.
Lemma sort_by_index_sorted : forall l, sorted_idx (sort_by_index l).
Proof. induction l; simpl; [constructor | apply insert_sorted_sorted; auto]. Qed.

Lemma sorted_head_min : forall d t, sorted_idx (d :: t) -> forall e, In e t -> d_index d <= d_index e.
Proof.
  intros d t; revert d. induction t as [|a t IH]; intros d H e Hin; [contradiction|].
  inversion H; subst. destruct Hin as [<-|Hin]; auto.
  eapply Nat.le_trans; [eassumption | apply IH; auto].
Qed.

Lemma emit_indices : forall ds st out st', emit ds st = (out, st') -> map od_index out = map d_index ds.
Proof.
  induction ds as [|d ds IH]; simpl; intros st out st' H; [inversion H; reflexivity|].
  destruct (make_bookmark (d_name d) st) as [b st1]. destruct (emit ds st1) as [o1 s2] eqn:E. inversion H; subst.
  simpl. f_equal. eapply IH; eauto.
Qed.

Theorem first_has_least_index : forall G o fx root fuel out st d t,
  to_railroad G o fx root fuel = (Ok out, st) -> out = d :: t -> forall e, In e t -> od_index d <= od_index e.
Proof.
  intros G o fx root fuel out st d t H Ho e Hin. unfold to_railroad, to_railroad_from in H.
  destruct (conv G o fx fuel 1 root None 0 None init_state) as [[r|] st1]; [|discriminate].
  destruct (emit _ (root_extract G root st1)) as [out' st2] eqn:E. inversion H; subst out'.
  pose proof (emit_indices _ _ _ _ E) as Hi.
  set (ds := select (map snd (c_diagrams (root_extract G root st1)))) in *.
  assert (Hs : sorted_idx ds) by (apply sort_by_index_sorted).
  subst out. destruct ds as [|d0 ds0]; [discriminate|]. simpl in Hi. injection Hi as Hd Ht.
  apply (in_map od_index) in Hin. rewrite Ht in Hin. apply in_map_iff in Hin as (e0 & He0 & Hin0).
  rewrite Hd, <- He0. eapply sorted_head_min; eauto.
Qed.

Theorem names_distinct : forall G o fx root fuel out st,
  to_railroad G o fx root fuel = (Ok out, st) -> NoDup (map od_name out).
Proof.
  intros G o fx root fuel out st H. unfold to_railroad, to_railroad_from in H.
  destruct (conv G o fx fuel 1 root None 0 None init_state) as [[r|] st1]; [|discriminate].
  destruct (emit _ (root_extract G root st1)) as [out' st2] eqn:E. inversion H; subst out'.
  apply emit_facts in E as (_ & E & _). rewrite E. apply select_names_nodup.
Qed.

(* ------------------------------------------------------------------------------------------------ fuel monotonicity *)
Section Mono.
  Variable G : graph.
  Variable o : opts.
  Variable fx : bool.

  Lemma kids_loop_mono : forall rec rec' es r i st u st',
    (forall e p j s r' s', rec e p j s = (Ok r', s') -> rec' e p j s = (Ok r', s')) ->
    kids_loop rec r es i st = (Ok u, st') -> kids_loop rec' r es i st = (Ok u, st').
  Proof.
    induction es as [|e es IH]; simpl; intros r i st u st' Hr H; auto.
    destruct (rec e (Some r) i (with_items st r (insert_at i None))) as [[item|] st2] eqn:E; [|discriminate].
    rewrite (Hr _ _ _ _ _ _ E). destruct (place st2 r i item) as [i' st3]. eapply IH; eauto.
  Qed.

  Lemma conv_mono_S : forall f d x p i h st r st',
    conv G o fx f d x p i h st = (Ok r, st') -> conv G o fx (S f) d x p i h st = (Ok r, st').
  Proof.
    induction f as [|f IH]; intros d x p i h st r st' H; [simpl in H; discriminate|].
    rewrite conv_S in H. rewrite conv_S.
    destruct (bypass G x).
    - destruct (conv G o fx f (S d) _ p i _ (note_depth d st)) as [[ret|] st1] eqn:E; [|discriminate].
      rewrite (IH _ _ _ _ _ _ _ _ E). exact H.
    - destruct (repeat_test G fx x h (note_depth d st)) as [[r0 st1]|]; auto.
      destruct (negb (n_show (gnode G x)) && negb (o_hidden o)); auto.
      destruct (choose G o x (name_of G x h)) as [pn|]; auto.
      destruct (create G x pn p i (note_depth d st)) as [r0 st1].
      destruct (kids_loop _ r0 (kids G x) 0 st1) as [[u|] st2] eqn:K; [|discriminate].
      erewrite kids_loop_mono; [exact H| |exact K]. intros; apply IH; auto.
  Qed.

  Lemma conv_mono : forall k f d x p i h st r st',
    conv G o fx f d x p i h st = (Ok r, st') -> conv G o fx (f + k) d x p i h st = (Ok r, st').
  Proof.
    induction k as [|k IH]; intros; [rewrite Nat.add_0_r; auto|].
    rewrite Nat.add_succ_r. apply conv_mono_S. auto.
  Qed.
End Mono.

(* once a conversion has succeeded, more fuel changes nothing: output, recorded depth and final state are the same *)
Theorem to_railroad_fuel_irrelevant : forall G o fx root fuel fuel' out st,
  to_railroad G o fx root fuel = (Ok out, st) -> fuel <= fuel' -> to_railroad G o fx root fuel' = (Ok out, st).
Proof.
  intros G o fx root fuel fuel' out st H Hle. unfold to_railroad, to_railroad_from in *.
  destruct (conv G o fx fuel 1 root None 0 None init_state) as [[r|] st1] eqn:C; [|discriminate].
  replace fuel' with (fuel + (fuel' - fuel)) by lia. rewrite (conv_mono G o fx _ _ _ _ _ _ _ _ _ _ C). exact H.
Qed.
