(* C14, parse level: the locations the parser reports index the parsed string. *)
From Coq Require Import List ZArith NArith Bool Arith Lia.
From PP Require Import Model.Str Model.Results Model.Prog Model.Core Model.Entry.
Import ListNotations.

Lemma startswith_slice s m : forall loc, startswith_at s loc m = true -> slice_ s loc (loc + length m) = m.
Proof.
  unfold slice_. induction m as [|c m IH]; intros loc H; simpl in *.
  - rewrite Nat.add_0_r, Nat.sub_diag. reflexivity.
  - unfold at_ in H. destruct (nth_error s loc) as [d|] eqn:E; [|discriminate].
    apply andb_prop in H as [H1 H2]. apply N.eqb_eq in H1. subst d.
    replace (loc + S (length m) - loc) with (S (length m)) by lia.
    assert (exists pre post, s = pre ++ c :: post /\ length pre = loc) as (pre & post & -> & Hl).
    { apply nth_error_split. exact E. }
    rewrite <- Hl. rewrite skipn_app, skipn_all, Nat.sub_diag. simpl. f_equal.
    specialize (IH (S loc) H2). rewrite <- Hl in IH.
    replace (S (length pre)) with (length (pre ++ [c])) in IH by (rewrite app_length; simpl; lia).
    replace ((pre ++ [c]) ++ post) with (pre ++ c :: post) in * by (rewrite <- app_assoc; reflexivity).
    assert (skipn (length (pre ++ [c])) (pre ++ c :: post) = post) as Hs.
    { replace (pre ++ c :: post) with ((pre ++ [c]) ++ post) by (rewrite <- app_assoc; reflexivity).
      rewrite skipn_app, skipn_all, Nat.sub_diag. reflexivity. }
    rewrite Hs in IH. replace (length (pre ++ [c]) + length m - length (pre ++ [c])) with (length m) in IH by lia.
    exact IH.
Qed.

(* the text a token element returns is the slice of the parsed string between the location it was tried at and the
   location it returns — for the token classes that return the matched text itself *)
Definition text_token (t : tkind) : bool :=
  match t with
  | KLit _ | KWord _ _ _ _ _ _ _ | KNotIn _ _ _ | KWhite _ _ _ => true
  | _ => false
  end.

Ltac brk_h H :=
  repeat match type of H with
         | context [match ?x with _ => _ end] => destruct x eqn:?; try discriminate H
         | context [if ?x then _ else _] => destruct x eqn:?; try discriminate H
         end.

Lemma token_slice a t s loc l m : text_token t = true -> tok_impl a t s loc = IOk l (RStr m) -> m = slice_ s loc l.
Proof.
  intros Ht. destruct t; try discriminate Ht; unfold tok_impl, pexc, pexc_sfx; cbv zeta.
  - (* KLit *)
    destruct m0 as [|c [|c2 m']].
    + destruct (at_ s loc); [|discriminate]. simpl. intros [= <- <-]. unfold slice_. rewrite Nat.add_0_r, Nat.sub_diag. reflexivity.
    + destruct (at_ s loc) as [d|] eqn:E; [|discriminate]. destruct (N.eqb d c) eqn:Ed; [|discriminate].
      intros [= <- <-]. apply N.eqb_eq in Ed. subst d.
      symmetry. replace (S loc) with (loc + length [c]) by (simpl; lia). apply startswith_slice. simpl. rewrite E, N.eqb_refl. reflexivity.
    + destruct (at_ s loc); [|discriminate]. destruct (startswith_at s loc (c :: c2 :: m')) eqn:Es; [|discriminate].
      intros [= <- <-]. symmetry. exact (startswith_slice s (c :: c2 :: m') loc Es).
  - intros H. brk_h H; injection H as <- <-; reflexivity.
  - intros H. brk_h H; injection H as <- <-; reflexivity.
  - intros H. brk_h H; injection H as <- <-; reflexivity.
Qed.

(* Located: the token list is [start, value, end] with start = the location the Located element was tried at (after its
   own whitespace skip) and end = the location its expression returned *)
Lemma located_locs (G : env) rec a i c s pl d l r :
  rec (mkargs c s pl d false) = Some (Ok l r) ->
  rsname a = None ->
  exists rt, (run rec (impl G (Enh a i ELocated c) s pl d (step_k (Enh a i ELocated c) s d pl)) =
              run rec (finish (Enh a i ELocated c) d pl l (RPR rt))) /\
             toks rt = [TInt (Z.of_nat pl); TPR r; TInt (Z.of_nat l)].
Proof.
  intros Hr Hn. cbn [impl]. unfold call. cbn [run]. rewrite Hr. cbn [attrs_of]. rewrite Hn.
  eexists. split; reflexivity.
Qed.

(* the location handed to parse actions is the pre-parsed location (`tokens_start = pre_loc`) *)
Lemma action_loc e d pl l r ac acs :
  acts (attrs_of e) = ac :: acs -> d = true ->
  finish e d pl l r =
  match run_actions (attrs_of e) (ac :: acs) pl (pr_init (post_parse e r) (rsname (attrs_of e)) (aslist (attrs_of e)) (modalr (attrs_of e))) with
  | inl rt' => Ret (Ok l rt')
  | inr x => Ret (Err x)
  end.
Proof. intros Ha ->. unfold finish. rewrite Ha. reflexivity. Qed.
