(* C01, Each ('&'): one level of the PEG equivalence.  For EVERY semantics `rec` of the `_parse` calls and every reading
   `prec` of the operands: if each operand obeys its reading (success/failure, end position, token list, divergence,
   fuel), then an Each node without parse actions / results name / ignorables whose required operands cannot match the
   empty string (`each_opt2 = []`) obeys the reading `peg_each` of Model/Peg.v.
   Used by Proofs/PegEquiv.v for the Each case of the equivalence. *)
From Coq Require Import List ZArith NArith Bool Arith Lia.
From PP Require Import Model.Str Model.Results Model.Prog Model.Core Model.Peg.
From PP Require Import Proofs.EachFacts.
Import ListNotations.

Lemma each_toks_fold_setname (items : list (str * tok * Z)) : forall r,
  toks (fold_left (fun acc kvp => match kvp with (k, v, p) => pr_setname acc k v p end) items r) = toks r.
Proof. induction items as [|[[k v] p] items IH]; intros r; simpl; [reflexivity|]. rewrite IH. reflexivity. Qed.
Lemma each_as_list_iadd a b : pr_as_list (pr_iadd a b) = pr_as_list a ++ pr_as_list b.
Proof.
  unfold pr_as_list. rewrite <- map_app. f_equal.
  unfold pr_iadd. destruct (negb (pr_bool b)) eqn:E.
  - unfold pr_bool in E. destruct (toks b); [rewrite app_nil_r; reflexivity|]. simpl in E. discriminate.
  - simpl. rewrite each_toks_fold_setname. reflexivity.
Qed.

Section EachPeg.
Variable G : env.
Variable s : str.
Variable rec : args -> option outcome.
Variable prec : expr -> nat -> res.

(* the operands: a class Q of elements that obey their reading, closed under what initExprGroups derives *)
Variable Q : expr -> Prop.
Hypothesis Hrec : forall c, Q c -> forall loc d, proj (rec (mkargs c s loc d true)) = Some (prec c loc).
Hypothesis Q_rep : forall a i z b ne, Q (Rep a i z b ne) -> Q (snd (rep_operand (Rep a i z b ne) b)).
Hypothesis Q_opt : forall a i dflt b, Q (Enh a i (EOpt dflt) b) -> Q b.

Variable a : attrs.
Variable info : list each_info.
Variable es : list expr.
Notation e := (Nary a [] (NEach info) es).
Hypothesis Hplain : plain_attrs a = true.
Hypothesis Hes : Forall Q es.

Notation entsQ := (entsP Q).

Lemma pe_not_fatal k : is_pe k = true -> is_fatal k = false.
Proof. destruct k; simpl; congruence. Qed.
Lemma pe_not_index k : is_pe k = true -> is_index k = false.
Proof. destruct k; simpl; congruence. Qed.

Section Level.
Variable d : bool.
Variable L : nat.
Notation K := (step_k e s d L).

Lemma K_ok l acc : proj (run rec (K (inr (l, RPR acc)))) = Some (POk l (pr_as_list acc)).
Proof.
  unfold step_k, finish. cbn [attrs_of]. unfold plain_attrs in Hplain.
  destruct (acts a); [|discriminate]. destruct (rsname a); [discriminate|]. reflexivity.
Qed.

Lemma K_fail_pe x : is_pe (xk x) = true -> proj (run rec (fail_of K x)) = Some PFail.
Proof. intros H. unfold fail_of, step_k. rewrite (pe_not_index _ H). cbn [run proj]. rewrite H. reflexivity. Qed.

Lemma each_round_ok : forall cands tl reqd opt mo nf kk kp,
  entsQ cands -> entsQ reqd -> entsQ opt -> Forall Q mo ->
  (forall tl' reqd' opt' mo' nf', entsQ reqd' -> entsQ opt' -> Forall Q mo' ->
     proj (run rec (kk tl' reqd' opt' mo' nf' [])) = Some (kp tl' reqd' opt' mo' nf')) ->
  proj (run rec (each_round (fail_of K) es s cands tl reqd opt mo nf [] kk))
  = Some (peg_each_round prec es cands tl reqd opt mo nf kp).
Proof.
  induction cands as [|en rest IH]; intros tl reqd opt mo nf kk kp Hc Hr Ho Hm Hk; cbn [each_round peg_each_round].
  - apply Hk; assumption.
  - inversion Hc as [|? ? Hen Hrest]; subst.
    unfold try_parse, call. cbn [run].
    pose proof (Hrec (ee_e en) Hen tl false) as H1.
    destruct (rec (mkargs (ee_e en) s tl false true)) as [[l r|x|]|]; cbn [proj] in H1.
    + injection H1 as H1. rewrite <- H1.
      assert (Hm' : Forall Q (mo ++ [each_order es en])).
      { apply Forall_app. split; [exact Hm|]. constructor; [|constructor]. apply each_order_P; assumption. }
      destruct (mem_cls (ee_cls en) reqd); [apply IH; try assumption; apply entsP_remove; assumption|].
      destruct (mem_cls (ee_cls en) opt); [apply IH; try assumption; apply entsP_remove; assumption|].
      apply IH; assumption.
    + destruct (is_pe (xk x)) eqn:E; [|discriminate]. injection H1 as H1. rewrite <- H1.
      rewrite (pe_not_fatal _ E). cbn [andb]. apply IH; assumption.
    + injection H1 as H1. rewrite <- H1. reflexivity.
    + injection H1 as H1. rewrite <- H1. reflexivity.
Qed.

Lemma each_loop_ok multis : entsQ multis -> forall fuel tl reqd opt mo kk kp,
  entsQ reqd -> entsQ opt -> Forall Q mo ->
  (forall reqd' opt' mo', entsQ reqd' -> entsQ opt' -> Forall Q mo' ->
     proj (run rec (kk reqd' opt' mo' [])) = Some (kp reqd' opt' mo')) ->
  proj (run rec (each_loop (fail_of K) es s fuel tl reqd opt multis mo kk))
  = Some (peg_each_loop prec es fuel tl reqd opt multis mo kp).
Proof.
  intros Hmu. induction fuel as [|f IH]; intros tl reqd opt mo kk kp Hr Ho Hm Hk; cbn [each_loop peg_each_loop]; [reflexivity|].
  apply each_round_ok; try assumption; try constructor.
  - apply entsP_app; [exact Hr|]. apply entsP_app; assumption.
  - intros tl' reqd' opt' mo' nf' Hr' Ho' Hm'.
    destruct (Nat.eqb nf' _); [apply Hk; assumption|].
    destruct (_ && _); [reflexivity|]. apply IH; assumption.
Qed.

Lemma each_go2_ok : forall mo loc acc, Forall Q mo ->
  proj (run rec (each_go2 K s d mo loc acc)) = Some (peg_seq prec mo loc (pr_as_list acc)).
Proof.
  induction mo as [|c rest IH]; intros loc acc Hm; cbn [each_go2 peg_seq]; [apply K_ok|].
  inversion Hm as [|? ? Hc Hr]; subst. unfold call. cbn [run].
  pose proof (Hrec c Hc loc d) as H1.
  destruct (rec (mkargs c s loc d true)) as [[l r|x|]|]; cbn [proj] in H1.
  - injection H1 as H1. rewrite <- H1. rewrite <- each_as_list_iadd. apply IH. exact Hr.
  - destruct (is_pe (xk x)) eqn:E; [|discriminate]. injection H1 as H1. rewrite <- H1. apply K_fail_pe. exact E.
  - injection H1 as H1. rewrite <- H1. reflexivity.
  - injection H1 as H1. rewrite <- H1. reflexivity.
Qed.

Lemma each_impl_ok : each_opt2 (each_zip es info) = [] ->
  proj (run rec (each_impl K es info s L d)) = Some (peg_each s prec es info L).
Proof.
  intros Hnull.
  destruct (each_groups_P Q Q_rep Q_opt es info Hes) as (H1 & H2 & H3 & H4 & H5).
  unfold each_impl, peg_each. cbv zeta. rewrite Hnull, app_nil_r.
  apply each_loop_ok; try assumption; try (apply entsP_app; assumption); [constructor|].
  intros reqd' opt' mo' Hr' Ho' Hm'.
  change (pick_fatal []) with (@None exn). cbv iota.
  destruct reqd'; [|apply K_fail_pe; reflexivity].
  change (pr_empty) with (pr_of_list []).
  rewrite each_go2_ok; [reflexivity|].
  apply Forall_app. split; [exact Hm'|]. apply each_unmatched_P. exact Hes.
Qed.
End Level.

(* the whole `_parse` call, with or without pre-parse *)
Theorem each_reading : each_opt2 (each_zip es info) = [] -> forall loc0 d pre,
  proj (run rec (step G (mkargs e s loc0 d pre)))
  = Some (peg_each s prec es info (if pre then eff s e loc0 else loc0)).
Proof.
  intros Hnull loc0 d pre. unfold step. cbn [a_e a_s a_do a_pre a_loc mkargs attrs_of]. unfold eff. cbn [attrs_of].
  destruct pre; cbn [andb]; [|apply each_impl_ok; exact Hnull].
  destruct (callpre a); cbn [andb]; [|apply each_impl_ok; exact Hnull].
  unfold pre_parse. cbn [ign_of attrs_of].
  replace (skip_ignorables escape (length s + 2) [] s loc0
             (fun loc1 => impl G e s (if skipws a then skip_white s loc1 (white a) else loc1) d
                            (step_k e s d (if skipws a then skip_white s loc1 (white a) else loc1))))
    with (impl G e s (if skipws a then skip_white s loc0 (white a) else loc0) d
            (step_k e s d (if skipws a then skip_white s loc0 (white a) else loc0)))
    by (destruct (length s + 2); reflexivity).
  cbn [impl]. apply each_impl_ok. exact Hnull.
Qed.
End EachPeg.
