(* C01, Each ('&'): one level of the PEG equivalence.  For EVERY semantics `rec` of the `_parse` calls and every reading
   `prec` of the operands: if each operand obeys its reading (success/failure, end position, token list, divergence,
   fuel), then an Each node without parse actions / results name / ignorables whose required operands cannot match the
   empty string (`each_opt2 = []`) obeys the reading `peg_each` of Model/PegEach.v. *)
From Coq Require Import List ZArith NArith Bool Arith Lia.
From PP Require Import Model.Str Model.Results Model.Prog Model.Core Model.Peg Model.PegEach.
From PP Require Import Proofs.PegEquiv Proofs.EachFacts.
Import ListNotations.

Section EachPeg.
Variable G : env.
Variable s : str.
Variable rec : args -> option outcome.
Variable prec : expr -> nat -> res.

(* the operands: a class Q of elements that obey their reading, closed under what initExprGroups derives *)
Variable Q : expr -> Prop.
Hypothesis Hrec : forall c, Q c -> forall loc d, proj (rec (mkargs c s loc d true)) = Some (prec c loc).
Hypothesis Q_rep : forall a i z b ne, Q (Rep a i z b ne) -> Q (snd (rep_operand (Rep a i z b ne) b)).
Hypothesis Q_opt : forall a i dflt b, Q (Enh a i (EOpt dflt) b) -> Q b.

Variable a : attrs.
Variable info : list each_info.
Variable es : list expr.
Notation e := (Nary a [] (NEach info) es).
Hypothesis Hplain : plain_attrs a = true.
Hypothesis Hes : Forall Q es.

Notation entsQ := (entsP Q).

Lemma pe_not_fatal k : is_pe k = true -> is_fatal k = false.
Proof. destruct k; simpl; congruence. Qed.
Lemma pe_not_index k : is_pe k = true -> is_index k = false.
Proof. destruct k; simpl; congruence. Qed.

Section Level.
Variable d : bool.
Variable L : nat.
Notation K := (step_k e s d L).

Lemma K_ok l acc : proj (run rec (K (inr (l, RPR acc)))) = Some (POk l (pr_as_list acc)).
Proof.
  unfold step_k, finish. cbn [attrs_of]. unfold plain_attrs in Hplain.
  destruct (acts a); [|discriminate]. destruct (rsname a); [discriminate|]. reflexivity.
Qed.

Lemma K_fail_pe x : is_pe (xk x) = true -> proj (run rec (fail_of K x)) = Some PFail.
Proof. intros H. unfold fail_of, step_k. rewrite (pe_not_index _ H). cbn [run proj]. rewrite H. reflexivity. Qed.

Lemma each_round_ok : forall cands tl reqd opt mo nf kk kp,
  entsQ cands -> entsQ reqd -> entsQ opt -> Forall Q mo ->
  (forall tl' reqd' opt' mo' nf', entsQ reqd' -> entsQ opt' -> Forall Q mo' ->
     proj (run rec (kk tl' reqd' opt' mo' nf' [])) = Some (kp tl' reqd' opt' mo' nf')) ->
  proj (run rec (each_round (fail_of K) es s cands tl reqd opt mo nf [] kk))
  = Some (peg_each_round prec es cands tl reqd opt mo nf kp).
Proof.
  induction cands as [|en rest IH]; intros tl reqd opt mo nf kk kp Hc Hr Ho Hm Hk; cbn [each_round peg_each_round].
  - apply Hk; assumption.
  - inversion Hc as [|? ? Hen Hrest]; subst.
    unfold try_parse, call. cbn [run].
    pose proof (Hrec (ee_e en) Hen tl false) as H1.
    destruct (rec (mkargs (ee_e en) s tl false true)) as [[l r|x|]|]; cbn [proj] in H1.
    + injection H1 as H1. rewrite <- H1.
      assert (Hm' : Forall Q (mo ++ [each_order es en])).
      { apply Forall_app. split; [exact Hm|]. constructor; [|constructor]. apply each_order_P; assumption. }
      destruct (mem_cls (ee_cls en) reqd); [apply IH; try assumption; apply entsP_remove; assumption|].
      destruct (mem_cls (ee_cls en) opt); [apply IH; try assumption; apply entsP_remove; assumption|].
      apply IH; assumption.
    + destruct (is_pe (xk x)) eqn:E; [|discriminate]. injection H1 as H1. rewrite <- H1.
      rewrite (pe_not_fatal _ E). cbn [andb]. apply IH; assumption.
    + injection H1 as H1. rewrite <- H1. reflexivity.
    + injection H1 as H1. rewrite <- H1. reflexivity.
Qed.

Lemma each_loop_ok multis : entsQ multis -> forall fuel tl reqd opt mo kk kp,
  entsQ reqd -> entsQ opt -> Forall Q mo ->
  (forall reqd' opt' mo', entsQ reqd' -> entsQ opt' -> Forall Q mo' ->
     proj (run rec (kk reqd' opt' mo' [])) = Some (kp reqd' opt' mo')) ->
  proj (run rec (each_loop (fail_of K) es s fuel tl reqd opt multis mo kk))
  = Some (peg_each_loop prec es fuel tl reqd opt multis mo kp).
Proof.
  intros Hmu. induction fuel as [|f IH]; intros tl reqd opt mo kk kp Hr Ho Hm Hk; cbn [each_loop peg_each_loop]; [reflexivity|].
  apply each_round_ok; try assumption; try constructor.
  - apply entsP_app; [exact Hr|]. apply entsP_app; assumption.
  - intros tl' reqd' opt' mo' nf' Hr' Ho' Hm'.
    destruct (Nat.eqb nf' _); [apply Hk; assumption|].
    destruct (_ && _); [reflexivity|]. apply IH; assumption.
Qed.

Lemma each_go2_ok : forall mo loc acc, Forall Q mo ->
  proj (run rec (each_go2 K s d mo loc acc)) = Some (peg_seq prec mo loc (pr_as_list acc)).
Proof.
  induction mo as [|c rest IH]; intros loc acc Hm; cbn [each_go2 peg_seq]; [apply K_ok|].
  inversion Hm as [|? ? Hc Hr]; subst. unfold call. cbn [run].
  pose proof (Hrec c Hc loc d) as H1.
  destruct (rec (mkargs c s loc d true)) as [[l r|x|]|]; cbn [proj] in H1.
  - injection H1 as H1. rewrite <- H1. rewrite <- as_list_iadd. apply IH. exact Hr.
  - destruct (is_pe (xk x)) eqn:E; [|discriminate]. injection H1 as H1. rewrite <- H1. apply K_fail_pe. exact E.
  - injection H1 as H1. rewrite <- H1. reflexivity.
  - injection H1 as H1. rewrite <- H1. reflexivity.
Qed.

Lemma each_impl_ok : each_opt2 (each_zip es info) = [] ->
  proj (run rec (each_impl K es info s L d)) = Some (peg_each prec es (length s) info L).
Proof.
  intros Hnull.
  destruct (each_groups_P Q Q_rep Q_opt es info Hes) as (H1 & H2 & H3 & H4 & H5).
  unfold each_impl, peg_each. cbv zeta. rewrite Hnull, app_nil_r.
  apply each_loop_ok; try assumption; try (apply entsP_app; assumption); [constructor|].
  intros reqd' opt' mo' Hr' Ho' Hm'.
  change (pick_fatal []) with (@None exn). cbv iota.
  destruct reqd'; [|apply K_fail_pe; reflexivity].
  change (pr_empty) with (pr_of_list []).
  rewrite each_go2_ok; [reflexivity|].
  apply Forall_app. split; [exact Hm'|]. apply each_unmatched_P. exact Hes.
Qed.
End Level.

(* the whole `_parse` call, with or without pre-parse *)
Theorem each_reading : each_opt2 (each_zip es info) = [] -> forall loc0 d pre,
  proj (run rec (step G (mkargs e s loc0 d pre)))
  = Some (peg_each prec es (length s) info (if pre then eff s e loc0 else loc0)).
Proof.
  intros Hnull loc0 d pre. unfold step. cbn [a_e a_s a_do a_pre a_loc mkargs attrs_of]. unfold eff. cbn [attrs_of].
  destruct pre; cbn [andb]; [|apply each_impl_ok; exact Hnull].
  destruct (callpre a); cbn [andb]; [|apply each_impl_ok; exact Hnull].
  unfold pre_parse. cbn [ign_of attrs_of].
  replace (skip_ignorables escape (length s + 2) [] s loc0
             (fun loc1 => impl G e s (if skipws a then skip_white s loc1 (white a) else loc1) d
                            (step_k e s d (if skipws a then skip_white s loc1 (white a) else loc1))))
    with (impl G e s (if skipws a then skip_white s loc0 (white a) else loc0) d
            (step_k e s d (if skipws a then skip_white s loc0 (white a) else loc0)))
    by (destruct (length s + 2); reflexivity).
  cbn [impl]. apply each_impl_ok. exact Hnull.
Qed.
End EachPeg.

(* the corollary for operands of the proved class `in_class` (Model/Peg.v), with the real recursive parser and the
   reference reading `peg` for the operands, at every fuel *)
Lemma in_class_rep_operand G a i z b ne : in_class G (Rep a i z b ne) = true ->
  in_class G (snd (rep_operand (Rep a i z b ne) b)) = true.
Proof.
  intros H. simpl in H. destruct ne; [discriminate H|].
  apply andb_prop in H as [H Hb]. apply andb_prop in H as [Hp _].
  unfold rep_operand. cbn [attrs_of]. unfold plain_attrs in Hp.
  destruct (acts a); [|discriminate]. destruct (rsname a); [discriminate|]. exact Hb.
Qed.

Lemma in_class_opt_body G a i dflt b : in_class G (Enh a i (EOpt dflt) b) = true -> in_class G b = true.
Proof. intros H. simpl in H. apply andb_prop in H as [H _]. apply andb_prop in H as [_ H]. exact H. Qed.

Theorem each_reading_in_class : forall (G : env) (s : str), env_in_class G = true ->
  forall f a info es, plain_attrs a = true -> forallb (in_class G) es = true ->
  each_opt2 (each_zip es info) = [] ->
  forall loc0 d pre,
  proj (parse (step G) (S f) (mkargs (Nary a [] (NEach info) es) s loc0 d pre))
  = Some (peg_each (peg G s f) es (length s) info (if pre then eff s (Nary a [] (NEach info) es) loc0 else loc0)).
Proof.
  intros G s HG f a info es Hp Hes Hnull loc0 d pre. cbn [parse].
  apply (each_reading G s (parse (step G) f) (peg G s f) (fun c => in_class G c = true)); try assumption.
  - intros c Hc loc d0. exact (proj1 (peg_equiv G s HG f c Hc loc d0)).
  - intros a0 i z b ne. apply in_class_rep_operand.
  - intros a0 i dflt b. apply in_class_opt_body.
  - apply Forall_forall. rewrite forallb_forall in Hes. exact Hes.
Qed.
