.PHONY: setup manifest clean
setup:
	PYTHONPATH=$${VERIF_REPO:-/repo}:$(CURDIR) PYTHONHASHSEED=0 PYTHONDONTWRITEBYTECODE=1 /venv/bin/python tools/setup.py
manifest:
	/venv/bin/python tools/mkmanifest.py
clean:
	rm -rf .work coq/Makefile coq/Makefile.conf coq/.Makefile.d coq/_CoqProject
	find coq -name '*.vo' -o -name '*.vok' -o -name '*.vos' -o -name '*.glob' -o -name '.*.aux' | xargs rm -f
