#!/bin/bash
# builds ocaml/_build/driver from the extracted model (rebuilds only when the .vo inputs are newer)
set -e
cd "$(dirname "$0")"
mkdir -p _build
cd _build
if [ ! -f model.ml ] || [ ../../coq/Extract/Extract.v -nt model.ml ] || [ ../../coq/Model/Core.vo -nt model.ml ] \
   || [ ../../coq/Model/Entry.vo -nt model.ml ] || [ ../../coq/Model/Peg.vo -nt model.ml ] || [ ../../coq/Model/LR.vo -nt model.ml ] || [ ../../coq/Model/LRT.vo -nt model.ml ] || [ ../../coq/Model/Transform.vo -nt model.ml ] || [ ../../coq/Model/Results.vo -nt model.ml ] || [ ../../coq/Proofs/EqDec.vo -nt model.ml ] \
   || [ ../driver.ml -nt driver ] || [ ! -f driver ]; then
  timeout 300 coqc -Q ../../coq PP ../../coq/Extract/Extract.v > extract.log 2>&1 || { cat extract.log; exit 1; }
  rm -f ../../coq/Extract/Extract.vo ../../coq/Extract/Extract.glob ../../coq/Extract/.Extract.aux ../../coq/Extract/Extract.vok ../../coq/Extract/Extract.vos
  cp ../driver.ml driver.ml
  timeout 300 ocamlfind ocamlopt -O2 -w -a -package str model.mli model.ml driver.ml -o driver 2>&1 || timeout 300 ocamlfind ocamlopt -w -a model.mli model.ml driver.ml -o driver
fi
