(* Correspondence driver: reads one case per line (S-expressions) on stdin, runs the extracted Coq model,
   prints one observation line per case.  No logic of its own beyond (de)serialisation. *)
open Model

(* ---------- S-expressions ---------- *)
type sx = A of string | L of sx list

let parse_sx (s : string) : sx =
  let n = String.length s in
  let pos = ref 0 in
  let rec skip () = while !pos < n && (s.[!pos] = ' ' || s.[!pos] = '\n' || s.[!pos] = '\t') do incr pos done
  and item () =
    skip ();
    if !pos >= n then failwith "eof"
    else if s.[!pos] = '(' then begin
      incr pos;
      let items = ref [] in
      skip ();
      while !pos < n && s.[!pos] <> ')' do
        items := item () :: !items; skip ()
      done;
      incr pos;
      L (List.rev !items)
    end else begin
      let st = !pos in
      while !pos < n && s.[!pos] <> ' ' && s.[!pos] <> '(' && s.[!pos] <> ')' && s.[!pos] <> '\n' do incr pos done;
      A (String.sub s st (!pos - st))
    end in
  item ()

(* ---------- numbers ---------- *)
let rec nat_of_int i = if i <= 0 then O else S (nat_of_int (i - 1))
let rec int_of_nat = function O -> 0 | S n -> 1 + int_of_nat n
let rec pos_of_int i = if i <= 1 then XH else if i land 1 = 0 then XO (pos_of_int (i lsr 1)) else XI (pos_of_int (i lsr 1))
let rec int_of_pos = function XH -> 1 | XO p -> 2 * int_of_pos p | XI p -> 2 * int_of_pos p + 1
let n_of_int i = if i = 0 then N0 else Npos (pos_of_int i)
let int_of_n = function N0 -> 0 | Npos p -> int_of_pos p
let z_of_int i = if i = 0 then Z0 else if i > 0 then Zpos (pos_of_int i) else Zneg (pos_of_int (-i))
let int_of_z = function Z0 -> 0 | Zpos p -> int_of_pos p | Zneg p -> - (int_of_pos p)

let ia = function A s -> int_of_string s | _ -> failwith "int expected"
let ba x = ia x <> 0
let chars = function L l -> List.map (fun x -> n_of_int (ia x)) l | _ -> failwith "chars expected"
let optx f = function A "N" -> None | x -> Some (f x)
let str_opt = function A "N" -> None | L (A "S" :: l) -> Some (List.map (fun x -> n_of_int (ia x)) l) | _ -> failwith "name"
let natopt = optx (fun x -> nat_of_int (ia x))

let rec tok_of = function
  | L [A "s"; l] -> TStr (chars l)
  | L [A "i"; n] -> TInt (z_of_int (ia n))
  | L [A "b"; n] -> TBool (ba n)
  | A "none" -> TNone
  | L (A "l" :: l) -> TList (List.map tok_of l)
  | _ -> failwith "tok"

let xkind_of = function
  | "parse" -> XParse | "fatal" -> XFatal | "syntax" -> XSyntax | "index" -> XIndex | "type" -> XType
  | "value" -> XValue | "key" -> XKey | "attr" -> XAttr | _ -> XOther

let action_of = function
  | A "keep" -> AKeep
  | L (A "const" :: l) -> AConst (List.map tok_of l)
  | L [A "conststr"; l] -> AConstStr (chars l)
  | A "upper" -> AUpper | A "join" -> AJoin | A "loc" -> ALoc
  | L [A "append"; t] -> AAppend (tok_of t)
  | A "delall" -> ADelAll
  | L [A "setname"; k; v] -> ASetName (chars k, tok_of v)
  | L [A "raise"; A k; i] -> ARaise (xkind_of k, nat_of_int (ia i))
  | L [A "cond"; m; f; i] -> ACond (nat_of_int (ia m), ba f, nat_of_int (ia i))
  | _ -> failwith "action"

let attrs_of_sx = function
  | L [A "A"; nid; rs; modal; asl; sk; wh; cp; mi; cu; hm; L acts; ct; sl] ->
    { nid = nat_of_int (ia nid); rsname = str_opt rs; modalr = ba modal; aslist = ba asl; skipws = ba sk;
      white = chars wh; callpre = ba cp; mayidx = ba mi; custom = ba cu; hasmsg = ba hm;
      acts = List.map action_of acts; calltry = ba ct; slen = nat_of_int (ia sl) }
  | _ -> failwith "attrs"

let tkind_of = function
  | L [A "lit"; m] -> KLit (chars m)
  | L [A "clit"; um; r] -> KCaselessLit (chars um, chars r)
  | L [A "kw"; m; id; c; um] -> KKeyword (chars m, chars id, ba c, chars um)
  | L [A "word"; i; b; mn; mx; ms; kw; re] -> KWord (chars i, chars b, nat_of_int (ia mn), natopt mx, ba ms, ba kw, ba re)
  | L [A "notin"; c; mn; mx] -> KNotIn (chars c, nat_of_int (ia mn), natopt mx)
  | L [A "white"; c; mn; mx] -> KWhite (chars c, nat_of_int (ia mn), natopt mx)
  | A "empty" -> KEmpty | A "nomatch" -> KNoMatch
  | L [A "linestart"; o; w] -> KLineStart (ba o, chars w)
  | A "lineend" -> KLineEnd | A "stringstart" -> KStringStart | A "stringend" -> KStringEnd
  | L [A "wordstart"; c] -> KWordStart (chars c)
  | L [A "wordend"; c] -> KWordEnd (chars c)
  | L [A "gotocol"; c] -> KGoToCol (nat_of_int (ia c))
  | A "errorstop" -> KErrorStop
  | _ -> failwith "tkind"

let nkind_of = function
  | A "and" -> NAnd | A "mf" -> NMatchFirst | A "or" -> NOr
  | L (A "each" :: info) ->
    (* per child: (mayReturnEmpty, __eq__ class of the child, __eq__ class of its operand) : tools/harness/dump.py each_info *)
    NEach (List.map (function L [me; cs; co] -> (ba me, (nat_of_int (ia cs), nat_of_int (ia co))) | _ -> failwith "each info") info)
  | _ -> failwith "nkind"

let ekind_of = function
  | A "pass" -> EPass
  | L [A "group"; b] -> EGroup (ba b)
  | A "suppress" -> ESuppress
  | L [A "combine"; j] -> ECombine (chars j)
  | A "dict" -> EDict
  | L [A "opt"; d] -> EOpt (optx tok_of d)
  | A "not" -> ENot | A "fb" -> EFollowedBy | A "lookahead" -> ELookahead | A "located" -> ELocated
  | A "atstringstart" -> EAtStringStart | A "atlinestart" -> EAtLineStart
  | L [A "pb"; ex; r] -> EPrecededBy (ba ex, nat_of_int (ia r))
  | _ -> failwith "ekind"

let rec expr_of = function
  | L [A "T"; a; L ign; t] -> Tok (attrs_of_sx a, List.map expr_of ign, tkind_of t)
  | L [A "N"; a; L ign; k; L es] -> Nary (attrs_of_sx a, List.map expr_of ign, nkind_of k, List.map expr_of es)
  | L [A "E"; a; L ign; k; e] -> Enh (attrs_of_sx a, List.map expr_of ign, ekind_of k, expr_of e)
  | L [A "R"; a; L ign; z; e; ne] -> Rep (attrs_of_sx a, List.map expr_of ign, ba z, expr_of e, optx expr_of ne)
  | L [A "K"; a; L ign; e; incl; L ig2; fo] ->
    Skip (attrs_of_sx a, List.map expr_of ign, expr_of e, ba incl, List.map expr_of ig2, optx expr_of fo)
  | L [A "F"; a; L ign; id] -> Fwd (attrs_of_sx a, List.map expr_of ign, natopt id)
  | _ -> failwith "expr"

(* ---------- printing ---------- *)
let buf = Buffer.create 65536
let pr s = Buffer.add_string buf s
let pint i = pr (string_of_int i)
let pstr (s : str) = pr "("; List.iteri (fun i c -> if i > 0 then pr " "; pint (int_of_n c)) s; pr ")"
let rec ptok = function
  | TStr s -> pr "(s "; pstr s; pr ")"
  | TInt z -> pr "(i "; pint (int_of_z z); pr ")"
  | TBool b -> pr (if b then "(b 1)" else "(b 0)")
  | TNone -> pr "none"
  | TList l -> pr "(l"; List.iter (fun t -> pr " "; ptok t) l; pr ")"
  | TPR r -> pr "(p "; ppres r; pr ")"
and ppres (r : pres) =
  pr "(P (";
  List.iteri (fun i t -> if i > 0 then pr " "; ptok t) r.toks;
  pr ") (";
  List.iteri (fun i (k, occ) ->
      if i > 0 then pr " ";
      pr "("; pstr k; pr " (";
      List.iteri (fun j (v, p) -> if j > 0 then pr " "; pr "("; ptok v; pr " "; pint (int_of_z p); pr ")") occ;
      pr "))") r.dict;
  pr ") (";
  List.iteri (fun i n -> if i > 0 then pr " "; pstr n) r.allnames;
  pr ") ";
  (match r.rname with None -> pr "N" | Some n -> pstr n);
  pr (if r.modal then " 1)" else " 0)")

let kind_name = function
  | XParse -> "ParseException" | XFatal -> "ParseFatalException" | XSyntax -> "ParseSyntaxException"
  | XIndex -> "IndexError" | XActIndex -> "_ParseActionIndexError" | XType -> "TypeError" | XValue -> "ValueError"
  | XKey -> "KeyError" | XAttr -> "AttributeError" | XOther -> "Other"
let pmsg = function
  | MNode (i, s) -> pr "(node "; pint (int_of_nat i); pr " "; pint (int_of_nat s); pr ")"
  | MNoAlt -> pr "noalt" | MNoExpr -> pr "noexpr" | MNotStringStart -> pr "notstringstart"
  | MNotLineStart -> pr "notlinestart" | MTextCol -> pr "textcol" | MActIndex -> pr "actindex"
  | MMissing ids -> pr "(missing"; List.iter (fun i -> pr " "; pint (int_of_nat i)) ids; pr ")"
  | MFwdNoBase -> pr "fwdnobase" | MUser i -> pr "(user "; pint (int_of_nat i); pr ")" | MEmpty -> pr "empty"
let pexn (x : exn) =
  pr "(err "; pr (kind_name x.xk); pr " "; pint (int_of_z x.xloc); pr " "; pmsg x.xmsg; pr " ";
  (match x.xel with None -> pr "N" | Some i -> pint (int_of_nat i)); pr ")"

(* ---------- running ---------- *)
let fuel = nat_of_int 400

let () =
  try
    while true do
      let line = input_line stdin in
      if String.length line > 0 then begin
        Buffer.clear buf;
        (try
          match parse_sx line with
          | L [A "case"; A id; L (A "env" :: env); root; kt; input; mode; entry; dw] ->
            pr id; pr " ";
            let g = List.map expr_of env in
            let root = expr_of root in
            let input = chars input in
            let dw = chars dw in
            let plain a = Model.parse (step g) fuel a in
            let flags = ref None in
            let run_d (type r) (d : r dprog) : r option =
              match mode with
              | A "none" -> drun plain d
              | L [A "packrat"; sz] ->
                let size = natopt sz in
                snd (drunc (fun c a -> parsec (step g) args_eqb size fuel c a) [] d)
              | L [A "lr"; cap] ->
                (* the instrumented handler of Model/LRT.v: same outcome and memo as parse_lr (Props/C03.v, C03_erasure) *)
                (match drunm_t (fun m a -> parse_lr_t g fuel m a) (memo_empty (natopt cap)) d with
                 | Some ((r, _), fl) -> flags := Some fl; Some r
                 | None -> None)
              | _ -> failwith "mode" in
            (match entry with
             | L [A "parse"; all] ->
               (match run_d (parse_string dw root (ba kt) input (ba all)) with
                | None -> pr "(oof)"
                | Some (POk r) -> pr "(ok "; ppres r; pr ")"
                | Some (PErr x) -> pexn x
                | Some PDiv -> pr "(div)")
             | L [A "scan"; mx; ov; sk] ->
               (match run_d (scan_string root (ba kt) input (natopt mx) (ba ov) (ba sk)) with
                | None -> pr "(oof)"
                | Some (ms, fin) ->
                  pr "(scan (";
                  List.iteri (fun i ((r, st), en) ->
                      if i > 0 then pr " ";
                      pr "("; ppres r; pr " "; pint (int_of_nat st); pr " "; pint (int_of_nat en); pr ")") ms;
                  pr ") ";
                  (match fin with SDone -> pr "done" | SErr x -> pexn x | SDiv -> pr "div");
                  pr ")")
             | L [A "transform"] ->
               (* transform_string: scan_string with keepTabs forced on and the default options, then Model/Transform.v *)
               (match run_d (scan_string root true input None false true) with
                | None -> pr "(oof)"
                | Some (ms, SDone) ->
                  pr "(str";
                  List.iter (fun c -> pr " "; pint (int_of_n c)) (transform input ms);
                  pr ")"
                | Some (_, SErr x) -> pexn x
                | Some (_, SDiv) -> pr "(div)")
             | L [A "peg"] ->
               (* the reference reading on the tab-expanded input, with the class memberships *)
               let s' = if ba kt then input else expandtabs input in
               let inc = in_class g root && env_in_class g in
               let inr = in_ref_class g root && env_in_ref_class g in
               pr "(peg "; pr (if inc then "1 " else "0 "); pr (if inr then "1 " else "0 ");
               (match peg g s' fuel root O with
                | Model.POk0 (l, ts) -> pr "(ok "; pint (int_of_nat l); pr " ("; List.iteri (fun i t -> if i > 0 then pr " "; ptok t) ts; pr "))"
                | PFail -> pr "fail" | Model.PDiv0 -> pr "div" | POut -> pr "out");
               pr ")"
             | _ -> failwith "entry");
            (match !flags with
             | Some fl ->
               let b x = if x then "1" else "0" in
               pr " #flags "; pr (b fl.seed_read); pr (b fl.seed_returned); pr (b fl.peek_tainted); pr (b fl.peek_replaced);
               pr (b fl.peek_error); pr (b fl.key_error)
             | None -> ())
          | _ -> failwith "case"
        with
        | Stack_overflow -> let id = (try String.sub (Buffer.contents buf) 0 (String.index (Buffer.contents buf) ' ') with Not_found -> "?") in Buffer.clear buf; pr id; pr " (oof)"
        | Failure m -> let id = (try String.sub (Buffer.contents buf) 0 (String.index (Buffer.contents buf) ' ') with Not_found -> "?") in Buffer.clear buf; pr id; pr (" (bad " ^ m ^ ")"));
        print_string (Buffer.contents buf); print_newline ()
      end
    done
  with End_of_file -> ()
